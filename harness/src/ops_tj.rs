//! C11 master differential on the real code: run an op with every text/JSONB choice for its
//! document arguments and compare with the all-JSONB call.
use crate::gen_text::{has_nan, render_json, Style};
use crate::rng::Rng;
use crate::wire::*;

/// positions (in the field list, op name at 0) of document arguments
pub fn doc_positions(op: &str) -> Option<&'static [usize]> {
    Some(match op {
        "arrlen" | "getidx" | "getname" | "getkp" | "keys" | "each" | "vals" | "typeof" | "asnull" | "asbool"
        | "asnum" | "asstr" | "asi64" | "asu64" | "isarr" | "isobj" | "tobool" | "toi64" | "tou64" | "existsall"
        | "existsany" | "travstr" | "tostr" | "topretty" | "pathexists" | "pathmatch" | "toserde" | "toserdeobj"
        | "isnull" | "isbool" | "isnum" | "isstr" | "isi64" | "isu64" | "isf64" | "asf64" | "tof64" | "caststr" => &[1],
        "contains" | "cmp" | "overlap" => &[1, 2],
        "cmpkey" | "delname" | "delidx" | "delkp" | "objdel" | "objpick" | "strip" | "distinct" | "getpath"
        | "getpathfirst" | "getpatharray" => &[2],
        "concat" | "inter" | "except" => &[2, 3],
        "arrins" => &[2, 4],
        "objins" => &[2, 4],
        _ => return None,
    })
}

fn same(op: &str, a: &str, b: &str) -> bool {
    if a == b {
        return true;
    }
    match op {
        // text input is returned as it is: compare what the two renderings denote
        "tostr" | "topretty" => {
            let (x, y) = (a.strip_prefix("ok "), b.strip_prefix("ok "));
            match (x.and_then(unhex), y.and_then(unhex)) {
                (Some(p), Some(q)) => match (jsonb::parse_value(&p), jsonb::parse_value(&q)) {
                    (Ok(u), Ok(v)) => u == v,
                    _ => false,
                },
                _ => false,
            }
        }
        // "the same number": by value
        "asnum" => match (a.strip_prefix("ok ").and_then(parse_num_tok), b.strip_prefix("ok ").and_then(parse_num_tok)) {
            (Some(x), Some(y)) => x == y,
            _ => false,
        },
        _ => false,
    }
}

pub fn exec(f: &[&str]) -> Option<String> {
    match f {
        ["tj", seed, rest @ ..] => {
            let op = *rest.first()?;
            let pos = doc_positions(op)?;
            let mut r = Rng::new(seed.parse().ok()?);
            // text renderings of the document arguments
            let mut texts: Vec<String> = vec![];
            let mut bins: Vec<String> = vec![];
            for p in pos {
                let doc = unhex(rest.get(*p)?)?;
                let v = match jsonb::from_slice(&doc) { Ok(v) => v, Err(_) => return Some("not-applicable".into()) };
                if has_nan(&v) { return Some("not-applicable".into()); }
                let mut t = String::new();
                let st = if r.chance(1, 3) { Style::Lenient } else { Style::Strict };
                render_json(&mut r, &v, st, &mut t);
                // the claim is for text that does not begin with a space
                let t = t.trim_start_matches(' ').to_string();
                // the JSONB side is THE ENCODING OF THAT TEXT (non-negative integers read unsigned)
                match jsonb::parse_value(t.as_bytes()) {
                    Ok(pv) => bins.push(hex(&pv.to_vec())),
                    Err(_) => return Some(format!("MISMATCH text rendering rejected {}", hex(t.as_bytes()))),
                }
                texts.push(hex(t.as_bytes()));
            }
            let mut base_fields: Vec<String> = rest.iter().map(|s| s.to_string()).collect();
            for (k, p) in pos.iter().enumerate() { base_fields[*p] = bins[k].clone(); }
            let bf: Vec<&str> = base_fields.iter().map(|s| s.as_str()).collect();
            let base = crate::ops::exec_fields(&bf);
            for mask in 1u32..(1 << pos.len()) {
                let mut fields: Vec<String> = base_fields.clone();
                for (k, p) in pos.iter().enumerate() {
                    if mask & (1 << k) != 0 { fields[*p] = texts[k].clone(); }
                }
                let fr: Vec<&str> = fields.iter().map(|s| s.as_str()).collect();
                let got = match std::panic::catch_unwind(|| crate::ops::exec_fields(&fr)) { Ok(s) => s, Err(_) => "panic".to_string() };
                if !same(op, &base, &got) {
                    return Some(format!("MISMATCH mask={} text-args={} jsonb={} mixed={}", mask, texts.join("/"), &base[..base.len().min(120)], &got[..got.len().min(120)]));
                }
            }
            Some("ok".into())
        }
        // C01: entry length fields are 28 bits wide: a payload of n bytes (n >= 2^24 exercises the
        // upper bits) must be encoded with its exact length, decode to itself, and be navigable
        ["bigpayload", n] => {
            let n: usize = n.parse().ok()?;
            let big: String = "abcdefghij".chars().cycle().take(n).collect();
            let v = jsonb::Value::Array(vec![jsonb::Value::String(std::borrow::Cow::Owned(big.clone())), jsonb::Value::Number(jsonb::Number::UInt64(7))]);
            let doc = v.to_vec();
            let want_entry = 0x1000_0000u32 | n as u32;
            let got_entry = u32::from_be_bytes([doc[4], doc[5], doc[6], doc[7]]);
            if got_entry != want_entry { return Some(format!("MISMATCH class=entry-length entry word {:08x} expected {:08x}", got_entry, want_entry)); }
            match jsonb::from_slice(&doc) { Ok(back) => if back != v { return Some("MISMATCH class=entry-length decodes to another value".into()); }, Err(_) => return Some("MISMATCH class=entry-length does not decode".into()) }
            if jsonb::get_by_index(&doc, 1) != Some(jsonb::Value::Number(jsonb::Number::UInt64(7)).to_vec()) { return Some("MISMATCH class=entry-length element after the big string not found".into()); }
            let nested = jsonb::Value::Array(vec![v.clone(), jsonb::Value::Bool(true)]).to_vec();
            if jsonb::get_by_index(&nested, 1) != Some(jsonb::Value::Bool(true).to_vec()) { return Some("MISMATCH class=entry-length element after the big nested container not found".into()); }
            let mut built = vec![];
            if jsonb::build_array([doc.as_slice(), jsonb::Value::Null.to_vec().as_slice()], &mut built).is_err() { return Some("MISMATCH class=entry-length build_array failed".into()); }
            if jsonb::get_by_index(&built, 1) != Some(jsonb::Value::Null.to_vec()) { return Some("MISMATCH class=entry-length builder entry".into()); }
            Some("ok".into())
        }
        // a single-document op on a JSON text and on the encoding of that text
        ["tjtext", op, text, rest @ ..] => {
            let t = unhex(text)?;
            let bin = match jsonb::parse_value(&t) { Ok(v) => hex(&v.to_vec()), Err(_) => return Some("not-applicable".into()) };
            let mut fa: Vec<&str> = vec![op, text]; fa.extend_from_slice(rest);
            let mut fb: Vec<&str> = vec![op, &bin]; fb.extend_from_slice(rest);
            let a = match std::panic::catch_unwind(|| crate::ops::exec_fields(&fa)) { Ok(s) => s, Err(_) => "panic".into() };
            let b = crate::ops::exec_fields(&fb);
            if same(op, &b, &a) { Some("ok".into()) } else { Some(format!("MISMATCH text={} jsonb={}", &a[..a.len().min(100)], &b[..b.len().min(100)])) }
        }
        // D23 (C10): a JSON text `["` + 2 bytes + raw control characters + `"]` long enough to satisfy the object
        // header that its first four bytes spell is accepted by the BINARY decoder (never run by the checks:
        // 3.6 GB of input; `jvh run` on the line `bigtext 0` reproduces it by hand)
        ["bigtext", extra] => {
            let extra: usize = extra.parse().ok()?;
            let head = [0x5Bu8, 0x22, 0x20, 0x20];
            let n = ((head[0] as usize % 32) << 24) | ((head[1] as usize) << 16) | ((head[2] as usize) << 8) | head[3] as usize;
            let mut t: Vec<u8> = Vec::with_capacity(4 + 8 * n + extra + 2);
            t.extend_from_slice(&head);
            for _ in 0..n { t.extend_from_slice(&[0x10, 0, 0, 0]); }
            for _ in 0..n { t.extend_from_slice(&[0, 0, 0, 0]); }
            for _ in 0..extra { t.push(b'x'); }
            t.extend_from_slice(b"\"]");
            let as_text = jsonb::parse_value(&t).map(|v| matches!(v, jsonb::Value::Array(ref a) if a.len() == 1)).unwrap_or(false);
            let got = jsonb::from_slice(&t);
            let misread = matches!(got, Ok(jsonb::Value::Object(_)));
            Some(format!("len={} valid-json-text-denoting-a-one-string-array={} from_slice-misreads-it-as-binary-object={}", t.len(), as_text, misread))
        }
        // D21: a valid array of n elements must be sniffed as JSONB by the public functions
        ["sniffbig", n] => {
            let n: usize = n.parse().ok()?;
            let doc = jsonb::Value::Array(vec![jsonb::Value::Null; n]).to_vec();
            let got = jsonb::array_length(&doc);
            let ty = jsonb::type_of(&doc).map(|s| s.to_string()).unwrap_or_else(|_| "error".into());
            if got == Some(n) && ty == "array" {
                Some("ok".into())
            } else {
                Some(format!("MISMATCH class=sniff-first-byte n={} first-byte={:02x} array_length={:?} type_of={}", n, doc[0], got, ty))
            }
        }
        _ => None,
    }
}
