//! accessor ops (C05): executed against the real crate
use crate::wire::*;
use jsonb::keypath::KeyPath;
use std::borrow::Cow;

pub fn opt_hex(o: Option<Vec<u8>>) -> String {
    match o {
        Some(b) => format!("ok {}", hex(&b)),
        None => "none".to_string(),
    }
}

pub fn show_list(xs: Vec<String>) -> String {
    if xs.is_empty() {
        "[]".to_string()
    } else {
        xs.join(",")
    }
}

pub fn parse_keypath(s: &str) -> Option<Vec<KeyPath<'static>>> {
    if s == "-" {
        return Some(vec![]);
    }
    let mut out = vec![];
    for t in s.split(',') {
        let (h, r) = t.split_at(1);
        match h {
            "i" => out.push(KeyPath::Index(r.parse::<i32>().ok()?)),
            "q" => out.push(KeyPath::QuotedName(Cow::Owned(String::from_utf8(unhex(r)?).ok()?))),
            "n" => out.push(KeyPath::Name(Cow::Owned(String::from_utf8(unhex(r)?).ok()?))),
            _ => return None,
        }
    }
    Some(out)
}

pub fn show_keypath(kp: &[KeyPath]) -> String {
    if kp.is_empty() {
        return "-".to_string();
    }
    kp.iter()
        .map(|k| match k {
            KeyPath::Index(i) => format!("i{}", i),
            KeyPath::QuotedName(s) => format!("q{}", hex(s.as_bytes())),
            KeyPath::Name(s) => format!("n{}", hex(s.as_bytes())),
        })
        .collect::<Vec<_>>()
        .join(",")
}

pub fn parse_keylist(s: &str) -> Option<Vec<Vec<u8>>> {
    if s == "[]" {
        return Some(vec![]);
    }
    s.split(';').map(unhex).collect()
}

pub fn parse_pred(s: &str) -> Option<Box<dyn Fn(&[u8]) -> bool>> {
    let (k, v) = s.split_once(':')?;
    match k {
        "eq" => {
            let b = unhex(v)?;
            Some(Box::new(move |x: &[u8]| x == b.as_slice()))
        }
        "has" => {
            let b = unhex(v)?;
            if b.len() != 1 {
                return None;
            }
            Some(Box::new(move |x: &[u8]| x.contains(&b[0])))
        }
        "len" => {
            let n: usize = v.parse().ok()?;
            Some(Box::new(move |x: &[u8]| x.len() >= n))
        }
        _ => None,
    }
}

fn b(x: bool) -> &'static str {
    if x { "true" } else { "false" }
}

pub fn exec(f: &[&str]) -> Option<String> {
    let bad = || Some("bad-request".to_string());
    Some(match f {
        ["arrlen", d] => {
            let doc = unhex(d)?;
            let r = jsonb::array_length(&doc);
            // the same question on the decoded tree (the `Value` methods are public API and the other half of C05)
            if let Some(m) = tree_mismatch(&doc, |v| v.array_length() == r) { return Some(m); }
            match r { Some(n) => format!("ok {}", n), None => "none".into() }
        }
        ["getidx", d, i] => opt_hex(jsonb::get_by_index(&unhex(d)?, i.parse().ok()?)),
        ["getname", d, n, ic] => {
            let name = match String::from_utf8(unhex(n)?) { Ok(s) => s, Err(_) => return bad() };
            let doc = unhex(d)?;
            let r = jsonb::get_by_name(&doc, &name, *ic == "1");
            if *ic == "1" {
                if let Some(m) = tree_mismatch(&doc, |v| v.get_by_name_ignore_case(&name).map(|x| x.to_vec()) == r) { return Some(m); }
            } else if let Some(m) = tree_mismatch(&doc, |v| v.as_object().and_then(|o| o.get(&name)).map(|x| x.to_vec()) == r) { return Some(m); }
            opt_hex(r)
        }
        ["getkp", d, kp] => {
            let kp = parse_keypath(kp)?;
            opt_hex(jsonb::get_by_keypath(&unhex(d)?, kp.iter()))
        }
        ["keys", d] => {
            let doc = unhex(d)?;
            let r = jsonb::object_keys(&doc);
            if let Some(m) = tree_mismatch(&doc, |v| v.object_keys().map(|x| x.to_vec()) == r) { return Some(m); }
            opt_hex(r)
        }
        ["each", d] => match jsonb::object_each(&unhex(d)?) {
            Some(xs) => format!("ok {}", show_list(xs.iter().map(|(k, v)| format!("{}:{}", hex(k), hex(v))).collect())),
            None => "none".into(),
        },
        ["vals", d] => match jsonb::array_values(&unhex(d)?) {
            Some(xs) => format!("ok {}", show_list(xs.iter().map(|v| hex(v)).collect())),
            None => "none".into(),
        },
        ["typeof", d] => match jsonb::type_of(&unhex(d)?) {
            Ok(s) => format!("ok {}", s),
            Err(_) => "err".into(),
        },
        ["asnull", d] => {
            let v = unhex(d)?;
            let r = jsonb::as_null(&v);
            if r.is_some() != jsonb::is_null(&v) { return Some("is/as mismatch".into()); }
            { let r = r.clone(); if let Some(m) = tree_mismatch(&v, |v| v.as_null() == r && v.is_null() == r.is_some()) { return Some(m); } }
            match r { Some(()) => "ok null".into(), None => "none".into() }
        }
        ["asbool", d] => {
            let v = unhex(d)?;
            let r = jsonb::as_bool(&v);
            if r.is_some() != jsonb::is_boolean(&v) { return Some("is/as mismatch".into()); }
            { let r = r.clone(); if let Some(m) = tree_mismatch(&v, |v| v.as_bool() == r && v.is_boolean() == r.is_some()) { return Some(m); } }
            match r { Some(x) => format!("ok {}", b(x)), None => "none".into() }
        }
        ["asnum", d] => {
            let v = unhex(d)?;
            let r = jsonb::as_number(&v);
            if r.is_some() != jsonb::is_number(&v) { return Some("is/as mismatch".into()); }
            { let r2 = r.clone(); if let Some(m) = tree_mismatch(&v, |v| v.as_number().cloned() == r2 && v.is_number() == r2.is_some() && v.as_f64().map(f64::to_bits) == r2.as_ref().and_then(|n| n.as_f64()).map(f64::to_bits)) { return Some(m); } }
            match r { Some(n) => format!("ok {}", show_num(&n)), None => "none".into() }
        }
        ["asstr", d] => {
            let v = unhex(d)?;
            let r = jsonb::as_str(&v);
            if r.is_some() != jsonb::is_string(&v) { return Some("is/as mismatch".into()); }
            { let r2 = r.as_ref().map(|c| c.to_string()); if let Some(m) = tree_mismatch(&v, |v| v.as_str().map(|c| c.to_string()) == r2 && v.is_string() == r2.is_some()) { return Some(m); } }
            match r { Some(s) => format!("ok {}", hex(s.as_bytes())), None => "none".into() }
        }
        ["asi64", d] => {
            let v = unhex(d)?;
            let r = jsonb::as_i64(&v);
            if r.is_some() != jsonb::is_i64(&v) { return Some("is/as mismatch".into()); }
            { let r = r.clone(); if let Some(m) = tree_mismatch(&v, |v| v.as_i64() == r && v.is_i64() == r.is_some()) { return Some(m); } }
            match r { Some(x) => format!("ok {}", x), None => "none".into() }
        }
        ["asu64", d] => {
            let v = unhex(d)?;
            let r = jsonb::as_u64(&v);
            if r.is_some() != jsonb::is_u64(&v) { return Some("is/as mismatch".into()); }
            { let r = r.clone(); if let Some(m) = tree_mismatch(&v, |v| v.as_u64() == r && v.is_u64() == r.is_some()) { return Some(m); } }
            match r { Some(x) => format!("ok {}", x), None => "none".into() }
        }
        ["isarr", d] => b(jsonb::is_array(&unhex(d)?)).to_string(),
        ["isobj", d] => b(jsonb::is_object(&unhex(d)?)).to_string(),
        ["tobool", d] => match jsonb::to_bool(&unhex(d)?) { Ok(x) => format!("ok {}", b(x)), Err(_) => "err".into() },
        ["toi64", d] => match jsonb::to_i64(&unhex(d)?) { Ok(x) => format!("ok {}", x), Err(_) => "err".into() },
        ["tou64", d] => match jsonb::to_u64(&unhex(d)?) { Ok(x) => format!("ok {}", x), Err(_) => "err".into() },
        ["isnull", d] => b(jsonb::is_null(&unhex(d)?)).to_string(),
        ["isbool", d] => b(jsonb::is_boolean(&unhex(d)?)).to_string(),
        ["isnum", d] => b(jsonb::is_number(&unhex(d)?)).to_string(),
        ["isstr", d] => b(jsonb::is_string(&unhex(d)?)).to_string(),
        ["isi64", d] => b(jsonb::is_i64(&unhex(d)?)).to_string(),
        ["isu64", d] => b(jsonb::is_u64(&unhex(d)?)).to_string(),
        ["isf64", d] => b(jsonb::is_f64(&unhex(d)?)).to_string(),
        ["asf64", d] => match jsonb::as_f64(&unhex(d)?) { Some(x) => format!("ok {:016x}", canon_bits(x)), None => "none".into() },
        ["tof64", d] => match jsonb::to_f64(&unhex(d)?) { Ok(x) => format!("ok {:016x}", canon_bits(x)), Err(_) => "err".into() },
        // `to_str`, the cast (`tostr` is to_string); the float table is only used by the model
        ["caststr", d, _] => match jsonb::to_str(&unhex(d)?) { Ok(s) => format!("ok {}", hex(s.as_bytes())), Err(_) => "err".into() },
        // C18: the i64 / u64 / f64 views of a number stored in a document, through every public cast, judged
        // against the exact value (computed here with i128 / exact float tests, not with Number::cmp)
        ["numcast", t] => {
            let n = parse_num_tok(t)?;
            let d = jsonb::Value::Number(n.clone()).to_vec();
            let exact_i128: Option<i128> = match &n {
                jsonb::Number::Int64(i) => Some(*i as i128),
                jsonb::Number::UInt64(u) => Some(*u as i128),
                jsonb::Number::Float64(f) => if f.is_finite() && f.fract() == 0.0 && f.abs() < 1.0e30 { Some(*f as i128) } else { None },
            };
            let chk_i = |name: &str, got: Option<i64>| -> Option<String> { match got { Some(x) if exact_i128 != Some(x as i128) => Some(format!("MISMATCH {} gives {} for {}", name, x, t)), _ => None } };
            let chk_u = |name: &str, got: Option<u64>| -> Option<String> { match got { Some(x) if exact_i128 != Some(x as i128) => Some(format!("MISMATCH {} gives {} for {}", name, x, t)), _ => None } };
            if let Some(m) = chk_i("as_i64", jsonb::as_i64(&d)) { return Some(m); }
            if let Some(m) = chk_i("to_i64", jsonb::to_i64(&d).ok()) { return Some(m); }
            if let Some(m) = chk_u("as_u64", jsonb::as_u64(&d)) { return Some(m); }
            if let Some(m) = chk_u("to_u64", jsonb::to_u64(&d).ok()) { return Some(m); }
            if let Some(m) = chk_i("Number::as_i64", n.as_i64()) { return Some(m); }
            if let Some(m) = chk_u("Number::as_u64", n.as_u64()) { return Some(m); }
            // an integer that fits must not be reported absent by the view of its own kind
            if let jsonb::Number::Int64(i) = &n { if jsonb::as_i64(&d) != Some(*i) { return Some(format!("MISMATCH as_i64 absent or different for {}", t)); } }
            if let jsonb::Number::UInt64(u) = &n { if jsonb::as_u64(&d) != Some(*u) { return Some(format!("MISMATCH as_u64 absent or different for {}", t)); } }
            // f64 view: the nearest double (ties to even) of an integer, the float itself otherwise
            let want_f: f64 = match &n { jsonb::Number::Int64(i) => *i as f64, jsonb::Number::UInt64(u) => *u as f64, jsonb::Number::Float64(f) => *f };
            for (name, got) in [("as_f64", jsonb::as_f64(&d)), ("to_f64", jsonb::to_f64(&d).ok()), ("Number::as_f64", n.as_f64())] {
                match got { Some(g) if (g.is_nan() && want_f.is_nan()) || canon_bits(g) == canon_bits(want_f) || (g == 0.0 && want_f == 0.0 && !matches!(n, jsonb::Number::Float64(_))) => {}, _ => return Some(format!("MISMATCH {} is not the nearest double of {}", name, t)) }
            }
            "ok".into()
        }
        // Rust's str::parse::<f64> (the contract `to_f64` relies on for strings)
        ["strf64", s] => match String::from_utf8(unhex(s)?).ok().and_then(|s| s.parse::<f64>().ok()) {
            Some(x) => format!("ok {:016x}", canon_bits(x)),
            None => "none".into(),
        },
        ["existsall", d, ks] => {
            let ks = parse_keylist(ks)?;
            format!("ok {}", b(jsonb::exists_all_keys(&unhex(d)?, ks.iter().map(|k| k.as_slice()))))
        }
        ["existsany", d, ks] => {
            let ks = parse_keylist(ks)?;
            format!("ok {}", b(jsonb::exists_any_keys(&unhex(d)?, ks.iter().map(|k| k.as_slice()))))
        }
        ["travstr", d, p] => {
            let p = parse_pred(p)?;
            format!("ok {}", b(jsonb::traverse_check_string(&unhex(d)?, p)))
        }
        _ => return None,
    })
}

/// f64 bits with the NaN payload made canonical (sign kept)
pub fn canon_bits(x: f64) -> u64 {
    if x.is_nan() { (x.to_bits() & 0x8000000000000000) | 0x7ff8000000000000 } else { x.to_bits() }
}

/// C05 is a statement about two public views of a document: the byte-level functions and the `Value` tree
/// methods.  `ok(tree)` compares a byte-level answer with the tree method's answer on the decoded document.
fn tree_mismatch(doc: &[u8], ok: impl FnOnce(&jsonb::Value) -> bool) -> Option<String> {
    if !matches!(doc.first(), Some(0x20) | Some(0x40) | Some(0x80)) { return None; }
    let v = jsonb::parse_jsonb(doc).ok()?;
    if v.to_vec() != doc { return None; }          // only canonical documents: the property's domain
    if ok(&v) { None } else { Some("MISMATCH the byte-level function and the Value method of the decoded tree answer differently".into()) }
}
