mod gen;
mod gen_text;
mod ops;
mod ops_access;
mod ops_chain;
mod ops_deep;
mod ops_edit;
mod ops_order;
mod ops_path;
mod ops_select;
mod ops_serde;
mod ops_text;
mod ops_tj;
mod props;
mod rng;
mod wire;

use std::io::{BufRead, Write};

fn run_line(line: &str) -> String {
    let l = line.to_string();
    match std::panic::catch_unwind(move || ops::exec(&l)) {
        Ok(s) => s,
        Err(_) => "panic".to_string(),
    }
}

fn main() {
    let args: Vec<String> = std::env::args().collect();
    std::panic::set_hook(Box::new(|_| {}));
    match args.get(1).map(|s| s.as_str()) {
        Some("run") => {
            let stdin = std::io::stdin();
            let stdout = std::io::stdout();
            let mut out = std::io::BufWriter::new(stdout.lock());
            for line in stdin.lock().lines() {
                let line = line.unwrap();
                if line.is_empty() {
                    continue;
                }
                writeln!(out, "{}", run_line(&line)).unwrap();
                out.flush().unwrap();
            }
        }
        Some("deepchild") => ops_deep::child(&args[2..]),
        Some("gen") => {
            let prop = &args[2];
            let tier = &args[3];
            let seed: u64 = args[4].parse().unwrap();
            let o = props::gen(prop, tier, seed);
            let stdout = std::io::stdout();
            let mut out = std::io::BufWriter::new(stdout.lock());
            for l in &o.lines {
                writeln!(out, "{}", l).unwrap();
            }
            let stats: Vec<String> = o.stats.iter().map(|(k, v)| format!("\"{}\":{}", k, v)).collect();
            eprintln!("{{{}}}", stats.join(","));
        }
        _ => {
            eprintln!("usage: jvh run | jvh gen <prop> <tier> <seed>");
            std::process::exit(2);
        }
    }
}
