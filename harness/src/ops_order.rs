//! compare / contains / comparable-key ops (C04, C12, C14)
use crate::ops_edit::show_buf;
use crate::wire::*;
use jsonb::{Number, Value};
use std::cmp::Ordering::{self, *};

fn cmp_docs(a: &[u8], b: &[u8]) -> Result<Ordering, String> {
    jsonb::compare(a, b).map_err(|_| "err".to_string())
}

fn rank(v: &Value) -> u8 {
    match v {
        Value::Null => 7,
        Value::Array(_) => 6,
        Value::Object(_) => 5,
        Value::String(_) => 4,
        Value::Number(_) => 3,
        Value::Bool(true) => 2,
        Value::Bool(false) => 1,
    }
}

fn f64_key(n: &Number) -> u64 {
    let bits = n.as_f64().unwrap().to_bits();
    if bits >> 63 == 1 { !bits } else { bits | (1 << 63) }
}

/// exact value of a finite number as (negative, mantissa, binary exponent); None for NaN / infinities
fn exact_mag(n: &Number) -> Option<(bool, u128, i32)> {
    Some(match n {
        Number::Int64(i) => (*i < 0, i.unsigned_abs() as u128, 0),
        Number::UInt64(u) => (false, *u as u128, 0),
        Number::Float64(f) => {
            if !f.is_finite() { return None; }
            let bits = f.to_bits();
            let (e, m) = (((bits >> 52) & 0x7ff) as i32, bits & ((1u64 << 52) - 1));
            if e == 0 { (bits >> 63 == 1, m as u128, -1074) } else { (bits >> 63 == 1, (m | (1 << 52)) as u128, e - 1075) }
        }
    })
}

fn exact_cmp(p: (bool, u128, i32), q: (bool, u128, i32)) -> std::cmp::Ordering {
    let mag = |a: (u128, i32), b: (u128, i32)| -> std::cmp::Ordering {
        if a.0 == 0 || b.0 == 0 { return a.0.cmp(&b.0); }
        // both mantissas are below 2^64: shifting by up to 63 is exact in u128; beyond that the higher exponent wins
        if a.1 >= b.1 { if a.1 - b.1 > 63 { Greater } else { (a.0 << (a.1 - b.1)).cmp(&b.0) } }
        else if b.1 - a.1 > 63 { Less } else { a.0.cmp(&(b.0 << (b.1 - a.1))) }
    };
    let (zp, zq) = (p.1 == 0, q.1 == 0);
    match (p.0 && !zp, q.0 && !zq) {
        (false, true) => Greater,
        (true, false) => Less,
        (false, false) => mag((p.1, p.2), (q.1, q.2)),
        (true, true) => mag((q.1, q.2), (p.1, p.2)),
    }
}

/// class of the first difference met when walking two documents in the order `compare` does
fn first_diff(a: &Value, b: &Value) -> Option<&'static str> {
    first_diff_at(a, b, 0)
}

/// `depth` = the depth marker byte the key uses for the elements of the container we are in
fn first_diff_at(a: &Value, b: &Value, depth: usize) -> Option<&'static str> {
    if rank(a) != rank(b) {
        return Some("kind");
    }
    match (a, b) {
        (Value::Number(x), Value::Number(y)) => {
            // the classes of the known findings are decided by an exact comparison of the harness' own, never by the
            // crate's `Number::cmp` (a defect there must not be filed under a known finding)
            match (exact_mag(x), exact_mag(y)) {
                (Some(p), Some(q)) => {
                    if exact_cmp(p, q) != Equal {
                        if f64_key(x) == f64_key(y) { Some("number-f64-collision") } else { Some("number") }
                    } else if p.1 == 0 && q.1 == 0 && f64_key(x) != f64_key(y) {
                        Some("signed-zero")
                    } else if f64_key(x) != f64_key(y) {
                        Some("number")
                    } else {
                        None
                    }
                }
                _ => if f64_key(x) != f64_key(y) { Some("number") } else { None },
            }
        }
        (Value::String(x), Value::String(y)) => str_diff(x.as_bytes(), y.as_bytes(), depth),
        (Value::Array(x), Value::Array(y)) => {
            for (p, q) in x.iter().zip(y.iter()) {
                if let Some(c) = first_diff_at(p, q, (depth + 1).min(255)) { return Some(c); }
            }
            if x.len() != y.len() { Some("length") } else { None }
        }
        (Value::Object(x), Value::Object(y)) => {
            for ((kp, p), (kq, q)) in x.iter().zip(y.iter()) {
                if let Some(c) = str_diff(kp.as_bytes(), kq.as_bytes(), (depth + 1).min(255)) { return Some(c); }
                if let Some(c) = first_diff_at(p, q, (depth + 1).min(255)) { return Some(c); }
            }
            if x.len() != y.len() { Some("length") } else { None }
        }
        _ => None,
    }
}

/// finding class D14a: one string is a proper prefix of the other and the longer one continues
/// with a byte that does not exceed the marker bytes that can follow the shorter one in the key
/// (a depth marker, at most the current depth; always below 0x20 for nesting < 32)
fn str_diff(x: &[u8], y: &[u8], depth: usize) -> Option<&'static str> {
    if x == y {
        return None;
    }
    let (s, l) = if x.len() <= y.len() { (x, y) } else { (y, x) };
    if l.starts_with(s) && (l[s.len()] as usize) <= depth.max(0x1f) {
        Some("string-prefix-control")
    } else {
        Some("string")
    }
}

pub fn exec(f: &[&str]) -> Option<String> {
    Some(match f {
        ["cmp", a, b] => match cmp_docs(&unhex(a)?, &unhex(b)?) {
            Ok(o) => format!("ok {}", show_ord(o)),
            Err(e) => e,
        },
        ["contains", a, b] => format!("ok {}", if jsonb::contains(&unhex(a)?, &unhex(b)?) { "true" } else { "false" }),
        ["cmpkey", p, d] => {
            let pre = unhex(p)?;
            let mut buf = pre.clone();
            jsonb::convert_to_comparable(&unhex(d)?, &mut buf);
            show_buf(&pre, &buf, Ok(()))
        }
        ["cmplaws", a, b, c] => {
            let docs = [unhex(a)?, unhex(b)?, unhex(c)?];
            let vals: Vec<Value> = docs.iter().map(|d| jsonb::from_slice(d).ok()).collect::<Option<_>>()?;
            let c = |i: usize, j: usize| cmp_docs(&docs[i], &docs[j]);
            for i in 0..3 {
                match c(i, i) { Ok(Equal) => {}, r => return Some(format!("not reflexive on #{}: {:?}", i, r)) }
            }
            for i in 0..3 { for j in 0..3 {
                let (x, y) = (c(i, j), c(j, i));
                match (x, y) {
                    (Ok(x), Ok(y)) => {
                        if y != x.reverse() { return Some(format!("not antisymmetric #{} #{}", i, j)); }
                        if (x == Equal) != (vals[i] == vals[j]) { return Some(format!("Equal does not coincide with value equality #{} #{}", i, j)); }
                    }
                    _ => return Some("err".into()),
                }
            } }
            for i in 0..3 { for j in 0..3 { for k in 0..3 {
                let (x, y, z) = (c(i, j).unwrap(), c(j, k).unwrap(), c(i, k).unwrap());
                if x != Greater && y != Greater && z == Greater { return Some(format!("not transitive #{} #{} #{}", i, j, k)); }
                if x == Equal && y == Equal && z != Equal { return Some(format!("equality not transitive #{} #{} #{}", i, j, k)); }
            } } }
            "ok".into()
        }
        ["containslaws", a, b, c] => {
            let docs = [unhex(a)?, unhex(b)?, unhex(c)?];
            for (i, d) in docs.iter().enumerate() {
                if !jsonb::contains(d, d) { return Some(format!("not reflexive on #{}", i)); }
            }
            for i in 0..3 { for j in 0..3 { for k in 0..3 {
                if jsonb::contains(&docs[i], &docs[j]) && jsonb::contains(&docs[j], &docs[k]) && !jsonb::contains(&docs[i], &docs[k]) {
                    // the bare-scalar special case is only claimed at the top level: a ⊇ b ⊇ c with
                    // b an array and c a scalar still requires a to be an array containing c
                    return Some(format!("not transitive #{} #{} #{}", i, j, k));
                }
            } } }
            "ok".into()
        }
        ["keyorder", a, b] => {
            let (da, db) = (unhex(a)?, unhex(b)?);
            let (mut ka, mut kb) = (vec![], vec![]);
            jsonb::convert_to_comparable(&da, &mut ka);
            jsonb::convert_to_comparable(&db, &mut kb);
            let ko = ka.cmp(&kb);
            // the same two documents given as JSON text in either position: keys and compare must agree there too
            let text_of = |d: &Vec<u8>| -> Option<Vec<u8>> {
                let v = jsonb::from_slice(d).ok()?;
                if crate::gen_text::has_nan(&v) { return None; }
                let t = jsonb::to_string(d).into_bytes();
                if jsonb::parse_value(&t).ok()?.to_vec() == *d { Some(t) } else { None }
            };
            if let (Some(ta), Some(tb)) = (text_of(&da), text_of(&db)) {
                for (xa, xb, what) in [(&ta, &db, "text/jsonb"), (&da, &tb, "jsonb/text"), (&ta, &tb, "text/text")] {
                    let (mut k1, mut k2) = (vec![], vec![]);
                    jsonb::convert_to_comparable(xa, &mut k1);
                    jsonb::convert_to_comparable(xb, &mut k2);
                    if k1 != ka || k2 != kb { return Some(format!("MISMATCH class=representation key of the {} form differs from the key of the JSONB form", what)); }
                    if jsonb::compare(xa, xb).ok() != jsonb::compare(&da, &db).ok() { return Some(format!("MISMATCH class=representation compare of the {} forms differs from compare of the JSONB forms", what)); }
                }
            }
            match cmp_docs(&da, &db) {
                Ok(co) if co == ko => "ok".into(),
                Ok(co) => {
                    let va = jsonb::from_slice(&da).ok()?;
                    let vb = jsonb::from_slice(&db).ok()?;
                    format!("MISMATCH class={} key={} cmp={}", first_diff(&va, &vb).unwrap_or("none"), show_ord(ko), show_ord(co))
                }
                Err(e) => e,
            }
        }
        _ => return None,
    })
}
