//! compare / contains / comparable-key ops (C04, C12, C14)
use crate::ops_edit::show_buf;
use crate::wire::*;
use jsonb::{Number, Value};
use std::cmp::Ordering::{self, *};

fn cmp_docs(a: &[u8], b: &[u8]) -> Result<Ordering, String> {
    jsonb::compare(a, b).map_err(|_| "err".to_string())
}

fn rank(v: &Value) -> u8 {
    match v {
        Value::Null => 7,
        Value::Array(_) => 6,
        Value::Object(_) => 5,
        Value::String(_) => 4,
        Value::Number(_) => 3,
        Value::Bool(true) => 2,
        Value::Bool(false) => 1,
    }
}

fn f64_key(n: &Number) -> u64 {
    let bits = n.as_f64().unwrap().to_bits();
    if bits >> 63 == 1 { !bits } else { bits | (1 << 63) }
}

/// class of the first difference met when walking two documents in the order `compare` does
fn first_diff(a: &Value, b: &Value) -> Option<&'static str> {
    first_diff_at(a, b, 0)
}

/// `depth` = the depth marker byte the key uses for the elements of the container we are in
fn first_diff_at(a: &Value, b: &Value, depth: usize) -> Option<&'static str> {
    if rank(a) != rank(b) {
        return Some("kind");
    }
    match (a, b) {
        (Value::Number(x), Value::Number(y)) => {
            if x.cmp(y) != Equal {
                if f64_key(x) == f64_key(y) { Some("number-f64-collision") } else { Some("number") }
            } else if f64_key(x) != f64_key(y) {
                Some("signed-zero")
            } else {
                None
            }
        }
        (Value::String(x), Value::String(y)) => str_diff(x.as_bytes(), y.as_bytes(), depth),
        (Value::Array(x), Value::Array(y)) => {
            for (p, q) in x.iter().zip(y.iter()) {
                if let Some(c) = first_diff_at(p, q, (depth + 1).min(255)) { return Some(c); }
            }
            if x.len() != y.len() { Some("length") } else { None }
        }
        (Value::Object(x), Value::Object(y)) => {
            for ((kp, p), (kq, q)) in x.iter().zip(y.iter()) {
                if let Some(c) = str_diff(kp.as_bytes(), kq.as_bytes(), (depth + 1).min(255)) { return Some(c); }
                if let Some(c) = first_diff_at(p, q, (depth + 1).min(255)) { return Some(c); }
            }
            if x.len() != y.len() { Some("length") } else { None }
        }
        _ => None,
    }
}

/// finding class D14a: one string is a proper prefix of the other and the longer one continues
/// with a byte that does not exceed the marker bytes that can follow the shorter one in the key
/// (a depth marker, at most the current depth; always below 0x20 for nesting < 32)
fn str_diff(x: &[u8], y: &[u8], depth: usize) -> Option<&'static str> {
    if x == y {
        return None;
    }
    let (s, l) = if x.len() <= y.len() { (x, y) } else { (y, x) };
    if l.starts_with(s) && (l[s.len()] as usize) <= depth.max(0x1f) {
        Some("string-prefix-control")
    } else {
        Some("string")
    }
}

pub fn exec(f: &[&str]) -> Option<String> {
    Some(match f {
        ["cmp", a, b] => match cmp_docs(&unhex(a)?, &unhex(b)?) {
            Ok(o) => format!("ok {}", show_ord(o)),
            Err(e) => e,
        },
        ["contains", a, b] => format!("ok {}", if jsonb::contains(&unhex(a)?, &unhex(b)?) { "true" } else { "false" }),
        ["cmpkey", p, d] => {
            let pre = unhex(p)?;
            let mut buf = pre.clone();
            jsonb::convert_to_comparable(&unhex(d)?, &mut buf);
            show_buf(&pre, &buf, Ok(()))
        }
        ["cmplaws", a, b, c] => {
            let docs = [unhex(a)?, unhex(b)?, unhex(c)?];
            let vals: Vec<Value> = docs.iter().map(|d| jsonb::from_slice(d).ok()).collect::<Option<_>>()?;
            let c = |i: usize, j: usize| cmp_docs(&docs[i], &docs[j]);
            for i in 0..3 {
                match c(i, i) { Ok(Equal) => {}, r => return Some(format!("not reflexive on #{}: {:?}", i, r)) }
            }
            for i in 0..3 { for j in 0..3 {
                let (x, y) = (c(i, j), c(j, i));
                match (x, y) {
                    (Ok(x), Ok(y)) => {
                        if y != x.reverse() { return Some(format!("not antisymmetric #{} #{}", i, j)); }
                        if (x == Equal) != (vals[i] == vals[j]) { return Some(format!("Equal does not coincide with value equality #{} #{}", i, j)); }
                    }
                    _ => return Some("err".into()),
                }
            } }
            for i in 0..3 { for j in 0..3 { for k in 0..3 {
                let (x, y, z) = (c(i, j).unwrap(), c(j, k).unwrap(), c(i, k).unwrap());
                if x != Greater && y != Greater && z == Greater { return Some(format!("not transitive #{} #{} #{}", i, j, k)); }
                if x == Equal && y == Equal && z != Equal { return Some(format!("equality not transitive #{} #{} #{}", i, j, k)); }
            } } }
            "ok".into()
        }
        ["containslaws", a, b, c] => {
            let docs = [unhex(a)?, unhex(b)?, unhex(c)?];
            for (i, d) in docs.iter().enumerate() {
                if !jsonb::contains(d, d) { return Some(format!("not reflexive on #{}", i)); }
            }
            for i in 0..3 { for j in 0..3 { for k in 0..3 {
                if jsonb::contains(&docs[i], &docs[j]) && jsonb::contains(&docs[j], &docs[k]) && !jsonb::contains(&docs[i], &docs[k]) {
                    // the bare-scalar special case is only claimed at the top level: a ⊇ b ⊇ c with
                    // b an array and c a scalar still requires a to be an array containing c
                    return Some(format!("not transitive #{} #{} #{}", i, j, k));
                }
            } } }
            "ok".into()
        }
        ["keyorder", a, b] => {
            let (da, db) = (unhex(a)?, unhex(b)?);
            let (mut ka, mut kb) = (vec![], vec![]);
            jsonb::convert_to_comparable(&da, &mut ka);
            jsonb::convert_to_comparable(&db, &mut kb);
            let ko = ka.cmp(&kb);
            // the same two documents given as JSON text in either position: keys and compare must agree there too
            let text_of = |d: &Vec<u8>| -> Option<Vec<u8>> {
                let v = jsonb::from_slice(d).ok()?;
                if crate::gen_text::has_nan(&v) { return None; }
                let t = jsonb::to_string(d).into_bytes();
                if jsonb::parse_value(&t).ok()?.to_vec() == *d { Some(t) } else { None }
            };
            if let (Some(ta), Some(tb)) = (text_of(&da), text_of(&db)) {
                for (xa, xb, what) in [(&ta, &db, "text/jsonb"), (&da, &tb, "jsonb/text"), (&ta, &tb, "text/text")] {
                    let (mut k1, mut k2) = (vec![], vec![]);
                    jsonb::convert_to_comparable(xa, &mut k1);
                    jsonb::convert_to_comparable(xb, &mut k2);
                    if k1 != ka || k2 != kb { return Some(format!("MISMATCH class=representation key of the {} form differs from the key of the JSONB form", what)); }
                    if jsonb::compare(xa, xb).ok() != jsonb::compare(&da, &db).ok() { return Some(format!("MISMATCH class=representation compare of the {} forms differs from compare of the JSONB forms", what)); }
                }
            }
            match cmp_docs(&da, &db) {
                Ok(co) if co == ko => "ok".into(),
                Ok(co) => {
                    let va = jsonb::from_slice(&da).ok()?;
                    let vb = jsonb::from_slice(&db).ok()?;
                    format!("MISMATCH class={} key={} cmp={}", first_diff(&va, &vb).unwrap_or("none"), show_ord(ko), show_ord(co))
                }
                Err(e) => e,
            }
        }
        _ => return None,
    })
}
