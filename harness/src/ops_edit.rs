//! editor and set-function ops (C06, C13, C17): executed against the real crate with a prior
//! buffer content; the answer is the appended part, or a note that the prefix was clobbered.
use crate::ops_access::{parse_keylist, parse_keypath};
use crate::wire::*;
use jsonb::Error;
use std::collections::BTreeSet;

pub fn show_buf(pre: &[u8], buf: &[u8], r: Result<(), Error>) -> String {
    match r {
        Ok(()) => {
            if buf.starts_with(pre) {
                format!("ok {}", hex(&buf[pre.len()..]))
            } else {
                format!("ok-prefix-clobbered {}", hex(buf))
            }
        }
        Err(e) => {
            // "-dirty": something was appended although the call failed; "-prefix-clobbered": the prior content itself changed
            let dirty = if buf == pre { "" } else if buf.starts_with(pre) { "-dirty" } else { "-prefix-clobbered" };
            match e {
                Error::InvalidJsonType => format!("err{}:InvalidJsonType", dirty),
                Error::InvalidObject => format!("err{}:InvalidObject", dirty),
                Error::ObjectDuplicateKey => format!("err{}:ObjectDuplicateKey", dirty),
                _ => format!("err{}", dirty),
            }
        }
    }
}

pub fn parse_doclist(s: &str) -> Option<Vec<Vec<u8>>> {
    if s == "[]" {
        return Some(vec![]);
    }
    s.split(';').map(unhex).collect()
}

pub fn exec(f: &[&str]) -> Option<String> {
    Some(match f {
        ["concat", p, l, r] => {
            let pre = unhex(p)?;
            let mut buf = pre.clone();
            let res = jsonb::concat(&unhex(l)?, &unhex(r)?, &mut buf);
            show_buf(&pre, &buf, res)
        }
        ["delname", p, d, n] => {
            let pre = unhex(p)?;
            let mut buf = pre.clone();
            let name = String::from_utf8(unhex(n)?).ok()?;
            let res = jsonb::delete_by_name(&unhex(d)?, &name, &mut buf);
            show_buf(&pre, &buf, res)
        }
        ["delidx", p, d, i] => {
            let pre = unhex(p)?;
            let mut buf = pre.clone();
            let res = jsonb::delete_by_index(&unhex(d)?, i.parse::<i32>().ok()?, &mut buf);
            show_buf(&pre, &buf, res)
        }
        ["delkp", p, d, kp] => {
            let pre = unhex(p)?;
            let mut buf = pre.clone();
            let kp = parse_keypath(kp)?;
            let res = jsonb::delete_by_keypath(&unhex(d)?, kp.iter(), &mut buf);
            show_buf(&pre, &buf, res)
        }
        ["arrins", p, d, pos, n] => {
            let pre = unhex(p)?;
            let mut buf = pre.clone();
            let res = jsonb::array_insert(&unhex(d)?, pos.parse::<i32>().ok()?, &unhex(n)?, &mut buf);
            show_buf(&pre, &buf, res)
        }
        ["objins", p, d, k, n, u] => {
            let pre = unhex(p)?;
            let mut buf = pre.clone();
            let key = String::from_utf8(unhex(k)?).ok()?;
            let res = jsonb::object_insert(&unhex(d)?, &key, &unhex(n)?, *u == "1", &mut buf);
            show_buf(&pre, &buf, res)
        }
        ["objdel", p, d, ks] | ["objpick", p, d, ks] => {
            let pre = unhex(p)?;
            let mut buf = pre.clone();
            let keys: Vec<String> = parse_keylist(ks)?.into_iter().map(|k| String::from_utf8(k).ok()).collect::<Option<_>>()?;
            let set: BTreeSet<&str> = keys.iter().map(|s| s.as_str()).collect();
            let res = if f[0] == "objdel" { jsonb::object_delete(&unhex(d)?, &set, &mut buf) } else { jsonb::object_pick(&unhex(d)?, &set, &mut buf) };
            show_buf(&pre, &buf, res)
        }
        ["strip", p, d] => {
            let pre = unhex(p)?;
            let mut buf = pre.clone();
            let res = jsonb::strip_nulls(&unhex(d)?, &mut buf);
            show_buf(&pre, &buf, res)
        }
        ["barr", p, ds] => {
            let pre = unhex(p)?;
            let mut buf = pre.clone();
            let docs = parse_doclist(ds)?;
            let res = jsonb::build_array(docs.iter().map(|d| d.as_slice()), &mut buf);
            show_buf(&pre, &buf, res)
        }
        ["bobj", p, kvs] => {
            let pre = unhex(p)?;
            let mut buf = pre.clone();
            let mut items: Vec<(String, Vec<u8>)> = vec![];
            if *kvs != "[]" {
                for kv in kvs.split(';') {
                    let (k, d) = kv.split_once(':')?;
                    items.push((String::from_utf8(unhex(k)?).ok()?, unhex(d)?));
                }
            }
            let res = jsonb::build_object(items.iter().map(|(k, d)| (k.as_str(), d.as_slice())), &mut buf);
            show_buf(&pre, &buf, res)
        }
        ["distinct", p, d] => {
            let pre = unhex(p)?;
            let mut buf = pre.clone();
            let res = jsonb::array_distinct(&unhex(d)?, &mut buf);
            show_buf(&pre, &buf, res)
        }
        ["inter", p, a, b] => {
            let pre = unhex(p)?;
            let mut buf = pre.clone();
            let res = jsonb::array_intersection(&unhex(a)?, &unhex(b)?, &mut buf);
            show_buf(&pre, &buf, res)
        }
        ["except", p, a, b] => {
            let pre = unhex(p)?;
            let mut buf = pre.clone();
            let res = jsonb::array_except(&unhex(a)?, &unhex(b)?, &mut buf);
            show_buf(&pre, &buf, res)
        }
        ["overlap", a, b] => match jsonb::array_overlap(&unhex(a)?, &unhex(b)?) {
            Ok(x) => format!("ok {}", if x { "true" } else { "false" }),
            Err(_) => "err".into(),
        },
        _ => return None,
    })
}
