//! JSONPath / key path parser and printer ops (C09, C16): canonical AST printing
use crate::wire::*;
use jsonb::jsonpath::*;
use jsonb::keypath::{parse_key_paths, KeyPath};
use jsonb::Number;

fn idx(i: &Index) -> String {
    match i {
        Index::Index(n) => format!("n{}", n),
        Index::LastIndex(n) => format!("l{}", n),
    }
}
fn ai(a: &ArrayIndex) -> String {
    match a {
        ArrayIndex::Index(i) => format!("(i {})", idx(i)),
        ArrayIndex::Slice((s, e)) => format!("(s {} {})", idx(s), idx(e)),
    }
}
pub fn paths(ps: &[Path]) -> String {
    if ps.is_empty() { return "-".to_string(); }
    ps.iter().map(path).collect::<Vec<_>>().join(" ")
}
fn path(p: &Path) -> String {
    match p {
        Path::Root => "(root)".into(),
        Path::Current => "(cur)".into(),
        Path::DotWildcard => "(dotw)".into(),
        Path::BracketWildcard => "(brw)".into(),
        Path::DotField(s) => format!("(dot {})", hex(s.as_bytes())),
        Path::ColonField(s) => format!("(col {})", hex(s.as_bytes())),
        Path::ObjectField(s) => format!("(objf {})", hex(s.as_bytes())),
        Path::ArrayIndices(v) => {
            let mut s = "(idx".to_string();
            for a in v { s.push(' '); s.push_str(&ai(a)); }
            s.push(')');
            s
        }
        Path::FilterExpr(e) => format!("(filt {})", expr(e)),
        Path::Predicate(e) => format!("(pred {})", expr(e)),
        Path::ArithmeticExpr(e) => format!("(arith {})", expr(e)),
    }
}
fn pv(v: &PathValue) -> String {
    match v {
        PathValue::Null => "null".into(),
        PathValue::Boolean(true) => "true".into(),
        PathValue::Boolean(false) => "false".into(),
        PathValue::Number(Number::UInt64(n)) => format!("U{}", n),
        PathValue::Number(Number::Int64(n)) => format!("I{}", n),
        PathValue::Number(Number::Float64(f)) => format!("D{:016x}", f.to_bits()),
        PathValue::String(s) => format!("S{}", hex(s.as_bytes())),
    }
}
fn plist(tag: &str, ps: &[Path]) -> String {
    let mut s = format!("({}", tag);
    for p in ps { s.push(' '); s.push_str(&path(p)); }
    s.push(')');
    s
}
fn expr(e: &Expr) -> String {
    match e {
        Expr::Paths(ps) => plist("paths", ps),
        Expr::Value(v) => format!("(val {})", pv(v)),
        Expr::BinaryOp { op, left, right } => {
            let o = match op {
                BinaryOperator::And => "and", BinaryOperator::Or => "or", BinaryOperator::Eq => "eq",
                BinaryOperator::NotEq => "ne", BinaryOperator::Lt => "lt", BinaryOperator::Lte => "le",
                BinaryOperator::Gt => "gt", BinaryOperator::Gte => "ge",
            };
            format!("(bin {} {} {})", o, expr(left), expr(right))
        }
        Expr::ArithmeticFunc(ArithmeticFunc::Unary { op, operand }) => {
            let o = match op { UnaryArithmeticOperator::Add => "add", UnaryArithmeticOperator::Subtract => "sub" };
            format!("(un {} {})", o, expr(operand))
        }
        Expr::ArithmeticFunc(ArithmeticFunc::Binary { op, left, right }) => {
            let o = match op {
                BinaryArithmeticOperator::Add => "add", BinaryArithmeticOperator::Subtract => "sub",
                BinaryArithmeticOperator::Multiply => "mul", BinaryArithmeticOperator::Divide => "div",
                BinaryArithmeticOperator::Modulus => "mod",
            };
            format!("(ar {} {} {})", o, expr(left), expr(right))
        }
        Expr::FilterFunc(FilterFunc::Exists(ps)) => plist("exists", ps),
    }
}
pub fn keypaths(kp: &[KeyPath]) -> String {
    crate::ops_access::show_keypath(kp)
}

const DELIMS: &[u8] = b" \t\n\r&,.:{}[]()?@$|<>!=+-*/%\"'\\";

fn raw_needs_quoting(s: &str) -> bool {
    s.is_empty() || s.bytes().any(|b| DELIMS.contains(&b))
}
fn quoted_needs_escape(s: &str) -> bool {
    s.bytes().any(|b| b == b'"' || b == b'\\')
}
fn paths_need_quoting(ps: &[Path]) -> bool {
    ps.iter().any(|p| match p {
        Path::DotField(s) | Path::ColonField(s) => raw_needs_quoting(s),
        Path::ObjectField(s) => quoted_needs_escape(s),
        Path::FilterExpr(e) | Path::Predicate(e) | Path::ArithmeticExpr(e) => expr_needs_quoting(e),
        _ => false,
    })
}
fn expr_needs_quoting(e: &Expr) -> bool {
    match e {
        Expr::Paths(ps) => paths_need_quoting(ps),
        Expr::Value(v) => matches!(&**v, PathValue::String(s) if quoted_needs_escape(s)),
        Expr::BinaryOp { left, right, .. } => expr_needs_quoting(left) || expr_needs_quoting(right),
        Expr::ArithmeticFunc(ArithmeticFunc::Unary { operand, .. }) => expr_needs_quoting(operand),
        Expr::ArithmeticFunc(ArithmeticFunc::Binary { left, right, .. }) => expr_needs_quoting(left) || expr_needs_quoting(right),
        Expr::FilterFunc(FilterFunc::Exists(ps)) => paths_need_quoting(ps),
    }
}

pub fn exec(f: &[&str]) -> Option<String> {
    Some(match f {
        ["jpparse", h] => match parse_json_path(&unhex(h)?) {
            Ok(jp) => format!("ok {}", paths(&jp.paths)),
            Err(_) => "err".into(),
        },
        ["kpparse", h] => match parse_key_paths(&unhex(h)?) {
            Ok(kp) => format!("ok {}", keypaths(&kp.paths)),
            Err(_) => "err".into(),
        },
        ["kpprint", h] => match parse_key_paths(&unhex(h)?) {
            Ok(kp) => format!("ok {}", hex(format!("{}", kp).as_bytes())),
            Err(_) => "err".into(),
        },
        // the intended structure is part of the request: `jpexpect <text> <canonical AST …>`
        ["jpexpect", h, rest @ ..] => {
            let want = rest.join(" ");
            match parse_json_path(&unhex(h)?) {
                Ok(jp) => { let got = paths(&jp.paths); if got == want { "ok".into() } else { format!("MISMATCH got {}", got) } }
                Err(_) => "MISMATCH rejected".into(),
            }
        }
        ["kpexpect", h, want] => match parse_key_paths(&unhex(h)?) {
            Ok(kp) => { let got = keypaths(&kp.paths); if got == *want { "ok".into() } else { format!("MISMATCH got {}", got) } }
            Err(_) => "MISMATCH rejected".into(),
        },
        // print → parse round trip on the real code
        ["jproundtrip", h] => {
            let b = unhex(h)?;
            match parse_json_path(&b) {
                Ok(jp) => {
                    // the property claims the round trip only when nothing needs quoting or escaping
                    if paths_need_quoting(&jp.paths) { return Some("not-applicable".into()); }
                    let text = format!("{}", jp);
                    match parse_json_path(text.as_bytes()) {
                        Ok(jp2) => if jp2 == jp { "ok".into() } else { format!("MISMATCH reparsed {}", paths(&jp2.paths)) },
                        Err(_) => format!("MISMATCH printout rejected {}", hex(text.as_bytes())),
                    }
                }
                Err(_) => "not-accepted".into(),
            }
        }
        // unterminated quotes, missing braces …: an error, never an answer
        ["kpreject", h] => match parse_key_paths(&unhex(h)?) {
            Ok(kp) => format!("MISMATCH accepted as {}", keypaths(&kp.paths)),
            Err(_) => "ok".into(),
        },
        ["kproundtrip", h] => {
            let b = unhex(h)?;
            match parse_key_paths(&b) {
                Ok(kp) => {
                    if kp.paths.iter().any(|k| match k {
                        KeyPath::QuotedName(s) => quoted_needs_escape(s),
                        KeyPath::Name(s) => raw_needs_quoting(s) || s.parse::<i32>().is_ok() || s.starts_with('+'),
                        KeyPath::Index(_) => false,
                    }) { return Some("not-applicable".into()); }
                    let text = format!("{}", kp);
                    match parse_key_paths(text.as_bytes()) {
                        Ok(kp2) => if kp2 == kp { "ok".into() } else { format!("MISMATCH reparsed {}", keypaths(&kp2.paths)) },
                        Err(_) => format!("MISMATCH printout rejected {}", hex(text.as_bytes())),
                    }
                }
                Err(_) => "not-accepted".into(),
            }
        }
        _ => return None,
    })
}
