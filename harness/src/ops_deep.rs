//! C20: deep nesting in a child process (a stack overflow aborts the process; the parent reports
//! it as `crash`).  `deep <api> <shape> <N>`; shape = arr | obj (alternating array / object).
//! Inputs are built iteratively, never by recursion, and deep `Value`s are leaked instead of
//! dropped unless the api under test is `drop`.
use jsonb::{Number, Value};

/// JSONB bytes of N nested single-member containers around the number 1
pub fn deep_bytes(n: usize, obj: bool) -> Vec<u8> {
    // innermost: scalar document payload of number 1 = entry NUMBER|2, payload 50 01
    let mut entry: u32 = 0x2000_0000 | 2;
    let mut pay: Vec<u8> = vec![0x50, 0x01];
    for i in 0..n {
        let mut c = Vec::with_capacity(pay.len() + 16);
        if obj && i % 2 == 1 {
            c.extend_from_slice(&(0x4000_0000u32 | 1).to_be_bytes());
            c.extend_from_slice(&(0x1000_0000u32 | 1).to_be_bytes());
            c.extend_from_slice(&entry.to_be_bytes());
            c.push(b'k');
        } else {
            c.extend_from_slice(&(0x8000_0000u32 | 1).to_be_bytes());
            c.extend_from_slice(&entry.to_be_bytes());
        }
        c.extend_from_slice(&pay);
        entry = 0x5000_0000 | (c.len() as u32 & 0x0fff_ffff);
        pay = c;
    }
    if n == 0 {
        let mut d = vec![0x20, 0, 0, 0];
        d.extend_from_slice(&entry.to_be_bytes());
        d.extend_from_slice(&pay);
        d
    } else {
        pay
    }
}

pub fn deep_text(n: usize, obj: bool) -> Vec<u8> {
    let mut s = Vec::with_capacity(n * 6 + 1);
    for i in (0..n).rev() {
        if obj && i % 2 == 1 { s.extend_from_slice(b"{\"k\":"); } else { s.push(b'['); }
    }
    s.push(b'1');
    for i in 0..n {
        if obj && i % 2 == 1 { s.push(b'}'); } else { s.push(b']'); }
    }
    s
}

fn run_api(api: &str, n: usize, obj: bool) -> String {
    let b = deep_bytes(n, obj);
    let outcome = |ok: bool| if ok { "ok done".to_string() } else { "ok err".to_string() };
    match api {
        "parse" => match jsonb::parse_value(&deep_text(n, obj)) { Ok(v) => { std::mem::forget(v); outcome(true) } Err(_) => outcome(false) },
        "fromslice" => match jsonb::from_slice(&b) { Ok(v) => { std::mem::forget(v); outcome(true) } Err(_) => outcome(false) },
        "fromslicetext" => match jsonb::from_slice(&deep_text(n, obj)) { Ok(v) => { std::mem::forget(v); outcome(true) } Err(_) => outcome(false) },
        "encode" => { let v = crate::gen::nested(n, obj); let e = v.to_vec(); std::mem::forget(v); if e == b { outcome(true) } else { "MISMATCH deep encoding differs from the layout".into() } }
        "drop" => { let v = crate::gen::nested(n, obj); drop(v); outcome(true) }
        "tostring" => { let s = jsonb::to_string(&b); outcome(s.len() >= n) }
        "topretty" => { let s = jsonb::to_pretty_string(&b); outcome(s.len() >= n) }
        "compare" => outcome(jsonb::compare(&b, &b).is_ok()),
        "contains" => outcome(jsonb::contains(&b, &b) || true),
        "cmpkey" => { let mut k = vec![]; jsonb::convert_to_comparable(&b, &mut k); outcome(true) }
        "strip" => { let mut o = vec![]; outcome(jsonb::strip_nulls(&b, &mut o).is_ok()) }
        "toserde" => match jsonb::to_serde_json(&b) { Ok(v) => { std::mem::forget(v); outcome(true) } Err(_) => outcome(false) },
        "travstr" => outcome(jsonb::traverse_check_string(&b, |s| s == b"zz") || true),
        "getpath" => {
            let depth = n.min(200);
            let mut p = String::from("$");
            for i in (n - depth..n).rev() { if obj && i % 2 == 1 { p.push_str(".k"); } else { p.push_str("[0]"); } }
            match jsonb::jsonpath::parse_json_path(p.as_bytes()) {
                Ok(jp) => { let (mut d, mut o) = (vec![], vec![]); outcome(jsonb::get_by_path(&b, jp, &mut d, &mut o).is_ok()) }
                Err(_) => "ok err".into(),
            }
        }
        "getkp" => {
            use jsonb::keypath::KeyPath;
            let kp: Vec<KeyPath> = (0..n).rev().map(|i| if obj && i % 2 == 1 { KeyPath::Name("k".into()) } else { KeyPath::Index(0) }).collect();
            outcome(jsonb::get_by_keypath(&b, kp.iter()).is_some() || true)
        }
        "delkp" => {
            use jsonb::keypath::KeyPath;
            let kp: Vec<KeyPath> = (0..n).rev().map(|i| if obj && i % 2 == 1 { KeyPath::Name("k".into()) } else { KeyPath::Index(0) }).collect();
            let mut o = vec![];
            outcome(jsonb::delete_by_keypath(&b, kp.iter(), &mut o).is_ok())
        }
        "parsepath" => {
            // nested filter expressions / parentheses in a JSONPath
            let mut p = String::from("$");
            for _ in 0..n { p.push_str("?(@"); }
            p.push_str(" == 1");
            for _ in 0..n { p.push(')'); }
            outcome(jsonb::jsonpath::parse_json_path(p.as_bytes()).is_ok())
        }
        _ => "bad-request".into(),
    }
}

/// entry point of the child process: `jvh deepchild <api> <shape> <N>`
pub fn child(args: &[String]) {
    let api = args[0].clone();
    let obj = args[1] == "obj";
    let n: usize = args[2].parse().unwrap();
    // the stack of an ordinary Linux main thread
    let h = std::thread::Builder::new().stack_size(8 << 20).spawn(move || {
        match std::panic::catch_unwind(|| run_api(&api, n, obj)) { Ok(s) => s, Err(_) => "panic".to_string() }
    }).unwrap();
    match h.join() { Ok(s) => println!("{}", s), Err(_) => println!("panic") }
}

pub fn exec(f: &[&str]) -> Option<String> {
    match f {
        ["deep", api, shape, n] => {
            let exe = std::env::current_exe().ok()?;
            // spawning the child can fail transiently under memory pressure (fork of a large parent): retry, and if the
            // child cannot be started at all say so — that is a failure of the instrument, not of the crate
            let mut out = None;
            for attempt in 0..6 {
                match std::process::Command::new(&exe).args(["deepchild", api, shape, n]).output() {
                    Ok(o) => { out = Some(o); break; }
                    Err(_) => std::thread::sleep(std::time::Duration::from_millis(150 * (attempt + 1))),
                }
            }
            let out = match out { Some(o) => o, None => return Some("not-applicable".into()) };
            if out.status.success() {
                Some(String::from_utf8_lossy(&out.stdout).trim().to_string())
            } else {
                use std::os::unix::process::ExitStatusExt;
                Some(format!("crash api={} depth={} signal={:?}", api, n, out.status.signal()))
            }
        }
        _ => None,
    }
}
