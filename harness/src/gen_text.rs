//! Generators of JSON text (C02, C11) and of JSONPath / key path text with the intended
//! structure (C09, C16).
use crate::rng::Rng;
use crate::wire::hex;
use jsonb::{Number, Value};

#[derive(Clone, Copy, PartialEq)]
pub enum Style {
    Strict,  // RFC 8259 only
    Lenient, // plus the documented relaxations
}

fn ws(r: &mut Rng, st: Style) -> &'static str {
    match r.below(if st == Style::Lenient { 14 } else { 8 }) {
        0..=3 => "",
        4 => " ",
        5 => "\n",
        6 => "\t",
        7 => "\r\n  ",
        8 => "\x0c",
        9 => "\\n",
        10 => "\\t",
        11 => "\\r",
        12 => "\\x0C",
        _ => " \\n ",
    }
}

pub fn render_string(r: &mut Rng, s: &str, st: Style, out: &mut String) {
    out.push('"');
    for c in s.chars() {
        let cp = c as u32;
        let must = c == '"' || c == '\\' || (cp < 0x20 && st == Style::Strict);
        let pick = r.below(10);
        if must || pick == 0 {
            match c {
                '"' if r.chance(1, 2) => out.push_str("\\\""),
                '\\' if r.chance(1, 2) => out.push_str("\\\\"),
                '/' if r.chance(1, 2) => out.push_str("\\/"),
                '\u{8}' if r.chance(1, 2) => out.push_str("\\b"),
                '\u{c}' if r.chance(1, 2) => out.push_str("\\f"),
                '\n' if r.chance(1, 2) => out.push_str("\\n"),
                '\r' if r.chance(1, 2) => out.push_str("\\r"),
                '\t' if r.chance(1, 2) => out.push_str("\\t"),
                _ => {
                    if cp >= 0x10000 {
                        let v = cp - 0x10000;
                        let (hi, lo) = (0xD800 + (v >> 10), 0xDC00 + (v & 0x3ff));
                        if st == Style::Lenient && r.chance(1, 3) {
                            out.push_str(&format!("\\u{{{:04X}}}\\u{{{:04x}}}", hi, lo));
                        } else {
                            out.push_str(&format!("\\u{:04x}\\u{:04X}", hi, lo));
                        }
                    } else if st == Style::Lenient && r.chance(1, 3) {
                        out.push_str(&format!("\\u{{{:04x}}}", cp));
                    } else if r.chance(1, 2) {
                        out.push_str(&format!("\\u{:04X}", cp));
                    } else {
                        out.push_str(&format!("\\u{:04x}", cp));
                    }
                }
            }
        } else {
            out.push(c);
        }
    }
    out.push('"');
}

pub fn render_number(r: &mut Rng, n: &Number, out: &mut String) {
    match n {
        Number::Int64(i) => out.push_str(&i.to_string()),
        Number::UInt64(u) => out.push_str(&u.to_string()),
        Number::Float64(f) => {
            if f.is_infinite() {
                out.push_str(if *f > 0.0 { "1e400" } else { "-1E+999" });
            } else {
                let s = match r.below(4) {
                    0 => format!("{:e}", f),
                    1 => format!("{:E}", f).replace("E", "E+").replace("E+-", "E-"),
                    _ => format!("{:?}", f),
                };
                if !s.contains('.') && !s.contains('e') && !s.contains('E') {
                    out.push_str(&s);
                    out.push_str(".0");
                } else {
                    out.push_str(&s);
                }
            }
        }
    }
}

/// text rendering of a (NaN-free) document with random layout
pub fn render_json(r: &mut Rng, v: &Value, st: Style, out: &mut String) {
    out.push_str(ws(r, st));
    match v {
        Value::Null => out.push_str("null"),
        Value::Bool(true) => out.push_str("true"),
        Value::Bool(false) => out.push_str("false"),
        Value::Number(n) => render_number(r, n, out),
        Value::String(s) => render_string(r, s, st, out),
        Value::Array(vs) => {
            out.push('[');
            for (i, x) in vs.iter().enumerate() {
                if i > 0 { out.push_str(ws(r, st)); out.push(','); }
                render_json(r, x, st, out);
            }
            out.push_str(ws(r, st));
            out.push(']');
        }
        Value::Object(o) => {
            out.push('{');
            for (i, (k, x)) in o.iter().enumerate() {
                if i > 0 { out.push_str(ws(r, st)); out.push(','); }
                out.push_str(ws(r, st));
                render_string(r, k, st, out);
                out.push_str(ws(r, st));
                out.push(':');
                render_json(r, x, st, out);
            }
            out.push_str(ws(r, st));
            out.push('}');
        }
    }
    out.push_str(ws(r, st));
}

/// what the text denotes: non-negative Int64 reads back unsigned, NaN cannot be written
pub fn denoted(v: &Value<'static>) -> Value<'static> {
    match v {
        Value::Number(Number::Int64(i)) if *i >= 0 => Value::Number(Number::UInt64(*i as u64)),
        Value::Array(vs) => Value::Array(vs.iter().map(denoted).collect()),
        Value::Object(o) => Value::Object(o.iter().map(|(k, x)| (k.clone(), denoted(x))).collect()),
        x => x.clone(),
    }
}

pub fn has_nan(v: &Value) -> bool {
    match v {
        Value::Number(Number::Float64(f)) => f.is_nan(),
        Value::Array(vs) => vs.iter().any(has_nan),
        Value::Object(o) => o.values().any(has_nan),
        _ => false,
    }
}

/// single-token corruptions and truncations of a text
pub fn corrupt(r: &mut Rng, t: &[u8]) -> Vec<u8> {
    let mut x = t.to_vec();
    if x.is_empty() { return vec![b'{']; }
    let pos = r.below(x.len() as u64) as usize;
    match r.below(9) {
        0 => { x.truncate(pos); }
        1 => { x.remove(pos); }
        2 => { x.insert(pos, *r.pick(b"{}[],:\"\\-+.eE0123456789tfnu \n")); }
        3 => { x[pos] = *r.pick(b"{}[],:\"\\-+.eE01atfn\x00\x1f\x7f\xff\xc3"); }
        4 => { let tails: [&[u8]; 7] = [b",", b"]", b"}", b" x", b"\"", b"1", b"\\"]; let t: &[u8] = *r.pick(&tails); x.extend_from_slice(t); }
        5 => { x.insert(0, *r.pick(b",]}0-\"")); }
        6 => { let q = r.below(x.len() as u64) as usize; x.swap(pos, q); }
        7 => { x[pos] ^= 1 << r.below(8); }
        _ => { let d = x[pos]; x.insert(pos, d); }
    }
    x
}

// ---------------------------------------------------------------------------------------------
// JSONPath: (text, canonical AST) pairs

const NAMES: &[&str] = &["a", "b", "ab", "k1", "store", "book", "price", "_x", "测试", "a_b", "phones", "type"];
const QNAMES: &[&str] = &["a", "", " $price", "a b", "x.y", "k\"q", "back\\slash", "é", "[0]", "last", "to", "😀", "cafe\u{301}", "नमस्ते", "a\u{200d}b", "x\u{7f}y", "\u{80}c", "a\u{ad}b", "ไทย"];

fn sp(r: &mut Rng) -> &'static str {
    *r.pick(&["", "", "", " ", "  ", "\t", "\n"])
}

fn quoted(r: &mut Rng, s: &str) -> String {
    let mut t = String::from("\"");
    for c in s.chars() {
        match c {
            '"' => t.push_str("\\\""),
            '\\' => t.push_str("\\\\"),
            c if r.chance(1, 12) && (c as u32) < 0x10000 && !(0xd800..0xe000).contains(&(c as u32)) => t.push_str(&format!("\\u{:04x}", c as u32)),
            c => t.push(c),
        }
    }
    t.push('"');
    t
}

fn kw(r: &mut Rng, k: &str) -> String {
    match r.below(3) { 0 => k.to_uppercase(), 1 => { let mut c = k.chars(); let f = c.next().unwrap().to_uppercase().to_string(); f + c.as_str() }, _ => k.to_string() }
}

fn index(r: &mut Rng) -> (String, String) {
    match r.below(5) {
        0 | 1 => { let n = *r.pick(&[0i64, 1, 2, 7, -1, -3, 2147483647, -2147483648]); (n.to_string(), format!("n{}", n)) }
        2 => (kw(r, "last"), "l0".to_string()),
        3 => { let n = *r.pick(&[0i64, 1, 2, 5, 2147483647, 2147483648]); (format!("{}{}-{}{}", kw(r, "last"), sp(r), sp(r), n), format!("l{}", (-n).max(-2147483648))) }
        _ => { let n = *r.pick(&[0i64, 1, 3, 2147483647]); (format!("{}{}+{}{}", kw(r, "last"), sp(r), sp(r), n), format!("l{}", n)) }
    }
}

fn inner_step(r: &mut Rng) -> (String, String) {
    match r.below(9) {
        0 => (".*".into(), "(dotw)".into()),
        1 => (format!("[{}*{}]", sp(r), sp(r)), "(brw)".into()),
        2 | 3 => { let n = *r.pick(NAMES); (format!(".{}", n), format!("(dot {})", hex(n.as_bytes()))) }
        4 => { let n = *r.pick(QNAMES); (format!(".{}", quoted(r, n)), format!("(dot {})", hex(n.as_bytes()))) }
        5 => { let n = *r.pick(NAMES); (format!(":{}", n), format!("(col {})", hex(n.as_bytes()))) }
        6 => { let n = *r.pick(QNAMES); (format!("[{}{}{}]", sp(r), quoted(r, n), sp(r)), format!("(objf {})", hex(n.as_bytes()))) }
        _ => {
            let k = 1 + r.below(3);
            let mut ts = vec![]; let mut cs = vec![];
            for _ in 0..k {
                if r.chance(1, 3) {
                    let (t1, c1) = index(r); let (t2, c2) = index(r);
                    ts.push(format!("{}{}{}{}{}{}{}", sp(r), t1, " ", kw(r, "to"), " ", t2, sp(r)));
                    cs.push(format!("(s {} {})", c1, c2));
                } else {
                    let (t, c) = index(r);
                    ts.push(format!("{}{}{}", sp(r), t, sp(r)));
                    cs.push(format!("(i {})", c));
                }
            }
            (format!("[{}]", ts.join(",")), format!("(idx {})", cs.join(" ")))
        }
    }
}

fn literal(r: &mut Rng) -> (String, String) {
    match r.below(12) {
        0 => ("null".into(), "null".into()),
        1 => ("true".into(), "true".into()),
        2 => ("false".into(), "false".into()),
        3 | 4 => { let n = *r.pick(&[0u64, 1, 10, 3720453, 18446744073709551615]); (n.to_string(), format!("U{}", n)) }
        5 => { let n = *r.pick(&[-1i64, -5, -9223372036854775808]); (n.to_string(), format!("I{}", n)) }
        6 | 7 => { let s = *r.pick(&["1.5", "-1.5", "1e3", "0.5", "2.5e-3", "-0.0", "1E2", "10.0", "123.456", "18446744073709551616"]); (s.to_string(), format!("D{:016x}", s.parse::<f64>().unwrap().to_bits())) }
        _ => { let s = *r.pick(&["", "a", "fiction", "a b", "é", "x\"y", "\\", "1"]); (quoted(r, s), format!("S{}", hex(s.as_bytes()))) }
    }
}

fn operand(r: &mut Rng, in_predicate: bool) -> (String, String) {
    if r.chance(2, 5) {
        let (t, c) = literal(r);
        (t, format!("(val {})", c))
    } else {
        let (mut t, mut c) = if in_predicate || r.chance(1, 4) { ("$".to_string(), "(paths (root)".to_string()) } else { ("@".to_string(), "(paths (cur)".to_string()) };
        for _ in 0..r.below(3) {
            let (st, sc) = inner_step(r);
            t.push_str(sp(r)); t.push_str(&st);
            c.push(' '); c.push_str(&sc);
        }
        c.push(')');
        (t, c)
    }
}

fn atom(r: &mut Rng, depth: u32, in_predicate: bool) -> (String, String) {
    match r.below(8) {
        0 if depth < 3 => { let (t, c) = expr_or(r, depth + 1, in_predicate); (format!("({}{}{})", sp(r), t, sp(r)), c) }
        1 if depth < 3 && !in_predicate => {
            let root = r.chance(1, 3);
            let mut t = format!("exists{}({}{}", sp(r), sp(r), if root { "$" } else { "@" });
            let mut c = format!("(exists {}", if root { "(root)" } else { "(cur)" });
            for _ in 0..r.below(3) {
                if r.chance(1, 4) && depth < 2 {
                    let (ft, fc) = expr_or(r, depth + 2, false);
                    t.push_str(&format!("?({})", ft)); c.push_str(&format!(" (filt {})", fc));
                } else {
                    let (st, sc) = inner_step(r); t.push_str(&st); c.push(' '); c.push_str(&sc);
                }
            }
            t.push_str(sp(r)); t.push(')'); c.push(')');
            (t, c)
        }
        // arithmetic atoms (the evaluator reports them as unsupported; the syntax and the printer have them)
        2 if r.chance(1, 3) => {
            if r.chance(1, 3) {
                // unary sign in front of a path operand (a literal would be read as a signed number)
                let (mut t, mut c) = if in_predicate || r.chance(1, 4) { ("$".to_string(), "(paths (root)".to_string()) } else { ("@".to_string(), "(paths (cur)".to_string()) };
                for _ in 0..r.below(3) { let (st, sc) = inner_step(r); t.push_str(&st); c.push(' '); c.push_str(&sc); }
                c.push(')');
                let (ot, oc) = *r.pick(&[("+", "add"), ("-", "sub")]);
                (format!("{}{}{}", ot, sp(r), t), format!("(un {} {})", oc, c))
            } else {
                let (lt, lc) = operand(r, in_predicate);
                let (rt, rc) = operand(r, in_predicate);
                let (ot, oc) = *r.pick(&[("+", "add"), ("-", "sub"), ("*", "mul"), ("/", "div"), ("%", "mod")]);
                (format!("{}{}{}{}{}", lt, sp(r), ot, sp(r), rt), format!("(ar {} {} {})", oc, lc, rc))
            }
        }
        _ => {
            let (lt, lc) = operand(r, in_predicate);
            let (rt, rc) = operand(r, in_predicate);
            let (ot, oc) = *r.pick(&[("==", "eq"), ("!=", "ne"), ("<>", "ne"), ("<", "lt"), ("<=", "le"), (">", "gt"), (">=", "ge")]);
            (format!("{}{}{}{}{}", lt, sp(r), ot, sp(r), rt), format!("(bin {} {} {})", oc, lc, rc))
        }
    }
}

fn expr_and(r: &mut Rng, depth: u32, p: bool) -> (String, String) {
    let (mut t, mut c) = atom(r, depth, p);
    for _ in 0..r.below(3).saturating_sub(1) {
        let (t2, c2) = atom(r, depth, p);
        t = format!("{}{}&&{}{}", t, sp(r), sp(r), t2);
        c = format!("(bin and {} {})", c, c2);
    }
    (t, c)
}

pub fn expr_or(r: &mut Rng, depth: u32, p: bool) -> (String, String) {
    let (mut t, mut c) = expr_and(r, depth, p);
    for _ in 0..r.below(3).saturating_sub(1) {
        let (t2, c2) = expr_and(r, depth, p);
        t = format!("{}{}||{}{}", t, sp(r), sp(r), t2);
        c = format!("(bin or {} {})", c, c2);
    }
    (t, c)
}

/// a documented JSONPath form in a random layout, with its intended structure
pub fn gen_jsonpath(r: &mut Rng) -> (String, String) {
    if r.chance(1, 6) {
        let (t, c) = expr_or(r, 0, true);
        return (format!("{}{}{}", sp(r), t, sp(r)), format!("(pred {})", c));
    }
    let mut t = format!("{}$", sp(r));
    let mut cs = vec!["(root)".to_string()];
    for _ in 0..r.below(5) {
        if r.chance(1, 4) {
            let (ft, fc) = expr_or(r, 0, false);
            t.push_str(&format!("{}?{}({}{}{}){}", sp(r), sp(r), sp(r), ft, sp(r), sp(r)));
            cs.push(format!("(filt {})", fc));
        } else {
            let (st, sc) = inner_step(r);
            t.push_str(sp(r)); t.push_str(&st);
            cs.push(sc);
        }
    }
    t.push_str(sp(r));
    (t, cs.join(" "))
}

/// a path restricted to what `Display` prints without needing quotes or escapes
pub fn gen_plain_jsonpath(r: &mut Rng) -> String {
    let mut t = String::from("$");
    for _ in 0..r.below(5) {
        match r.below(6) {
            0 => t.push_str(".*"),
            1 => t.push_str("[*]"),
            2 | 3 => { t.push('.'); let n: &str = *r.pick(NAMES); t.push_str(n); }
            4 => { let (i, _) = index(r); t.push_str(&format!("[{}]", i)); }
            _ => { t.push_str(&format!("?(@.{} {} {})", r.pick(NAMES), r.pick(&["==", "<", ">=", "!="]), r.pick(&["1", "-2", "null", "true", "\"x\"", "\"\"", "1.5"]))); }
        }
    }
    t
}

/// key paths: (text, canonical)
pub fn gen_keypath_text(r: &mut Rng) -> (String, String) {
    let n = r.below(5);
    let mut ts = vec![]; let mut cs = vec![];
    for _ in 0..n {
        match r.below(3) {
            0 => { let i = *r.pick(&[0i64, 1, -1, -2, 12, 2147483647, -2147483648]); ts.push(format!("{}{}{}", sp(r), i, sp(r))); cs.push(format!("i{}", i)); }
            1 => { let s = *r.pick(QNAMES); ts.push(format!("{}{}{}", sp(r), quoted(r, s), sp(r))); cs.push(format!("q{}", hex(s.as_bytes()))); }
            _ => { let s = *r.pick(NAMES); ts.push(format!("{}{}{}", sp(r), s, sp(r))); cs.push(format!("n{}", hex(s.as_bytes()))); }
        }
    }
    let body = if n == 0 { sp(r).to_string() } else { ts.join(",") };
    (format!("{}{{{}}}{}", sp(r), body, sp(r)), if cs.is_empty() { "-".to_string() } else { cs.join(",") })
}

pub fn soup(r: &mut Rng, alphabet: &[&str], n: u64) -> String {
    (0..r.below(n) + 1).map(|_| *r.pick(alphabet)).collect::<Vec<_>>().join("")
}

pub const PATH_TOKENS: &[&str] = &["$", "@", ".", ":", "[", "]", "(", ")", "?", "*", ",", "\"", "\\", "u", "{", "}", "last", "to", "exists", "&&", "||", "==", "!=", "<>", "<=", ">=", "<", ">", "+", "-", "/", "%", "0", "1", "9", "a", "k", " ", "1.5", "e", "null", "true", "\"a\"", ".a", "[0]", "\\u00", "\\u{"];

/// a JSONPath drawn from a document: steps follow existing members / indices, filters compare
/// against scalars that occur in the document
pub fn gen_doc_path(r: &mut Rng, v: &Value) -> String {
    fn scalars(v: &Value, out: &mut Vec<String>) {
        match v {
            Value::Null => out.push("null".into()),
            Value::Bool(b) => out.push(b.to_string()),
            Value::Number(Number::Float64(f)) => { if f.is_finite() { out.push(format!("{:?}", f)); } }
            Value::Number(n) => out.push(n.to_string()),
            Value::String(s) => { if !s.contains('"') && !s.contains('\\') && s.chars().all(|c| c as u32 >= 0x20) { out.push(format!("\"{}\"", s)); } }
            Value::Array(vs) => vs.iter().for_each(|x| scalars(x, out)),
            Value::Object(o) => o.values().for_each(|x| scalars(x, out)),
        }
    }
    fn keyname(r: &mut Rng, k: &str) -> String {
        let plain = !k.is_empty() && k.chars().all(|c| c.is_ascii_alphanumeric() || c == '_' || (c as u32) > 0x7f);
        if plain && r.chance(2, 3) { format!(".{}", k) } else if k.contains('"') || k.contains('\\') || k.chars().any(|c| (c as u32) < 0x20) { ".*".into() } else if r.chance(1, 2) { format!(".\"{}\"", k) } else { format!("[\"{}\"]", k) }
    }
    fn steps(r: &mut Rng, v: &Value, depth: u32, lits: &[String]) -> String {
        let mut t = String::new();
        let mut cur = v;
        for _ in 0..r.below(4) {
            match r.below(10) {
                0 => { t.push_str(".*"); if let Value::Object(o) = cur { if !o.is_empty() { let k = r.below(o.len() as u64) as usize; if let Some(x) = o.values().nth(k) { cur = x; } } } }
                1 | 2 => { t.push_str("[*]"); if let Value::Array(a) = cur { if !a.is_empty() { cur = &a[r.below(a.len() as u64) as usize]; } } }
                3 if depth < 2 => {
                    let lit = if lits.is_empty() { "1".to_string() } else { r.pick(lits).clone() };
                    let op = *r.pick(&["==", "!=", "<", "<=", ">", ">="]);
                    let inner = steps(r, cur, depth + 1, lits);
                    match r.below(5) {
                        0 => t.push_str(&format!("?(@{} {} {})", inner, op, lit)),
                        1 => t.push_str(&format!("?({} {} @{})", lit, op, inner)),
                        2 => t.push_str(&format!("?(exists(@{}))", inner)),
                        3 => t.push_str(&format!("?(@{} {} {} && @ {} $)", inner, op, lit, r.pick(&["==", "!="]))),
                        _ => t.push_str(&format!("?(@{} {} {} || @{} {} $[0])", inner, op, lit, inner, op)),
                    }
                }
                _ => match cur {
                    Value::Array(a) => {
                        let n = a.len() as i64;
                        let one = |r: &mut Rng| -> String { match r.below(8) { 6 => format!("{} to {}", -1 - r.below(3) as i64, r.range(0, n + 1)), 7 => format!("last-{} to {}", n + r.below(3) as i64, *r.pick(&["last", "0", "1"])), 0 => "last".into(), 1 => format!("last-{}", r.below(3)), 2 => format!("last+{}", r.below(2)), 3 => format!("{}", r.range(-1, n + 1)), 4 => format!("{} to {}", r.range(-1, n), r.range(0, n + 1)), _ => format!("{} to last", r.range(0, n.max(1))) } };
                        let k = 1 + r.below(2);
                        let idx: Vec<String> = (0..k).map(|_| one(r)).collect();
                        t.push_str(&format!("[{}]", idx.join(", ")));
                        if !a.is_empty() { cur = &a[r.below(a.len() as u64) as usize]; }
                    }
                    Value::Object(o) => {
                        if o.is_empty() || r.chance(1, 6) { t.push_str(".zzz"); } else {
                            let k = o.keys().nth(r.below(o.len() as u64) as usize).unwrap();
                            t.push_str(&keyname(r, k));
                            if let Some(x) = o.get(k) { cur = x; }
                            // lax `[*]` / `.*` right after a member step (on whatever the member is)
                            if r.chance(1, 5) { t.push_str(if r.chance(2, 3) { "[*]" } else { ".*" }); }
                        }
                    }
                    _ => { t.push_str(*r.pick(&[".a", "[0]", "[*]", ".*", "[last]"])); }
                },
            }
        }
        t
    }
    let mut lits = vec![];
    scalars(v, &mut lits);
    lits.truncate(24);
    if r.chance(1, 6) {
        let lit = if lits.is_empty() { "1".to_string() } else { r.pick(&lits).clone() };
        let op = *r.pick(&["==", "!=", "<", "<=", ">", ">="]);
        return match r.below(3) { 0 => format!("${} {} {}", steps(r, v, 1, &lits), op, lit), 1 => format!("{} {} ${}", lit, op, steps(r, v, 1, &lits)), _ => format!("${} {} {} && $ {} $", steps(r, v, 1, &lits), op, lit, r.pick(&["==", "!="])) };
    }
    format!("${}", steps(r, v, 0, &lits))
}
