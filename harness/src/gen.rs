//! Structured generators of documents (DESIGN.md 4.2).
use crate::rng::Rng;
use jsonb::{Number, Value};
use std::borrow::Cow;
use std::collections::BTreeMap;

pub const INTS: &[i64] = &[
    0, 1, -1, 2, 5, 10, 127, 128, -128, -129, 255, 256, 32767, 32768, -32768, -32769, 65535, 65536,
    2147483647, 2147483648, -2147483648, -2147483649, 4294967295, 4294967296,
    9007199254740991, 9007199254740992, 9007199254740993, -9007199254740992, -9007199254740993,
    i64::MAX, i64::MAX - 1, i64::MIN, i64::MIN + 1, 3720453, -42,
];
pub const UINTS: &[u64] = &[
    0, 1, 2, 5, 10, 127, 128, 255, 256, 65535, 65536, 4294967295, 4294967296, 9007199254740991,
    9007199254740992, 9007199254740993, 9007199254740994, 9223372036854775807, 9223372036854775808,
    9223372036854775809, 18446744073709551615, 18446744073709551614, 18014398509481985, 3720453,
];
pub const FLOAT_BITS: &[u64] = &[
    0x0000000000000000, // +0.0
    0x8000000000000000, // -0.0
    0x3ff0000000000000, // 1.0
    0xbff0000000000000, // -1.0
    0x3ff8000000000000, // 1.5
    0x3fb999999999999a, // 0.1
    0x4024000000000000, // 10.0
    0x4340000000000000, // 2^53
    0x4340000000000001, // 2^53 + 2
    0x433fffffffffffff, // 2^53 - 1
    0x43e0000000000000, // 2^63
    0x43f0000000000000, // 2^64
    0xc3e0000000000000, // -2^63
    0x4341c37937e08000, // 1e16
    0x3e7ad7f29abcaf48, // 1e-7
    0x0000000000000001, // min subnormal
    0x0010000000000000, // min normal
    0x7fefffffffffffff, // f64::MAX
    0xffefffffffffffff, // -f64::MAX
    0x405edd2f1a9fbe77, // 123.456
    0xc0934a456d5cfaad, // -1234.5678
    0x7e37e43c8800759c, // 1e300
    0x4005bf0a8b145769, // e
];
pub const NONFINITE_BITS: &[u64] = &[
    0x7ff0000000000000, // +inf
    0xfff0000000000000, // -inf
    0x7ff8000000000000, // canonical NaN
    0xfff8000000000000, // negative NaN
    0x7ff0000000000001, // signalling NaN
    0x7ff8000000000123, // NaN with payload
];

pub const STRINGS: &[&str] = &[
    "", "a", "b", "ab", "abc", "A", "B", "aB", "hello world", "é", "日本", "😀", "\u{0}", "\u{1}",
    "\u{1f}", "\u{8}\u{c}\n\r\t", "\"", "\\", "/", "a\"b\\c", "\u{7f}", "\u{2028}\u{2029}", "\\uD800",
    "true", "TRUE", "false", "False", "null", "12", "-5", "1.5", "+7", " 3", "a\u{1}\u{5}", "a\u{1}",
    "k", "key", "Key", "KEY", "abcd", "ab\u{0}", "\u{10ffff}", "\u{80}", "\u{7ff}\u{800}\u{ffff}",
    "18446744073709551615", "-9223372036854775808", "1e3", "inf", "NaN", "0xy", "abc0xy", "12345678",
];
pub const KEYS: &[&str] = &[
    "", "a", "A", "b", "B", "ab", "aB", "Ab", "AB", "abc", "k", "key", "Key", "KEY", "é", "É", "日", "😀",
    "a\u{0}", "a\u{1}\u{5}", "a\u{1}", "\u{1}", "0", "1", "-1", "a b", "a.b", "\"q\"", "\\", "k1", "k2",
    "k10", "z", "zz", "name", "Name", "phones", "type", "number", "\u{7f}", "\u{2028}",
];

#[derive(Clone)]
pub struct DocCfg {
    pub max_depth: u32,
    pub max_fanout: u64,
    pub nonfinite: bool,
    pub long_strings: bool,
}

impl DocCfg {
    pub fn quick() -> Self {
        DocCfg { max_depth: 5, max_fanout: 6, nonfinite: true, long_strings: true }
    }
    pub fn thorough() -> Self {
        DocCfg { max_depth: 12, max_fanout: 8, nonfinite: true, long_strings: true }
    }
    pub fn finite(mut self) -> Self {
        self.nonfinite = false;
        self
    }
}

pub fn gen_number(r: &mut Rng, nonfinite: bool) -> Number {
    match r.below(12) {
        0 | 1 => Number::Int64(*r.pick(INTS)),
        2 | 3 => Number::UInt64(*r.pick(UINTS)),
        4 | 5 => Number::Float64(f64::from_bits(*r.pick(FLOAT_BITS))),
        6 => {
            if nonfinite {
                Number::Float64(f64::from_bits(*r.pick(NONFINITE_BITS)))
            } else {
                Number::Float64(f64::from_bits(*r.pick(FLOAT_BITS)))
            }
        }
        7 => Number::Int64(r.next() as i64 >> r.below(64)),
        8 => Number::UInt64(r.next() >> r.below(64)),
        9 => {
            // random bit pattern; remap non-finite ones if not allowed
            let b = r.next();
            let f = f64::from_bits(b);
            if !nonfinite && !f.is_finite() {
                Number::Float64(f64::from_bits(b & 0xbfffffffffffffff))
            } else {
                Number::Float64(f)
            }
        }
        10 => Number::Float64((r.range(-2000, 2000) as f64) / 8.0),
        _ => Number::UInt64(r.below(300)),
    }
}

pub fn gen_string(r: &mut Rng, long: bool) -> String {
    match r.below(10) {
        0..=6 => r.pick(STRINGS).to_string(),
        7 => {
            let a = *r.pick(STRINGS);
            let b = *r.pick(STRINGS);
            format!("{}{}", a, b)
        }
        8 => {
            let n = r.below(6);
            (0..n).map(|_| (b'a' + r.below(4) as u8) as char).collect()
        }
        _ => {
            if long && r.chance(1, 4) {
                let n = 250 + r.below(80);
                (0..n).map(|i| (b'a' + ((i + r.below(3)) % 26) as u8) as char).collect()
            } else {
                let n = r.below(5);
                (0..n)
                    .map(|_| char::from_u32(*r.pick(&[0x41u32, 0x7f, 0x80, 0xe9, 0x7ff, 0x800, 0x2028, 0xffff, 0x10000, 0x1f600, 0x1, 0x1f, 0x22, 0x5c])).unwrap())
                    .collect()
            }
        }
    }
}

pub fn gen_key(r: &mut Rng) -> String {
    match r.below(8) {
        0..=5 => r.pick(KEYS).to_string(),
        6 => format!("{}{}", r.pick(KEYS), r.pick(KEYS)),
        _ => {
            let n = 1 + r.below(3);
            (0..n).map(|_| (b'a' + r.below(3) as u8) as char).collect()
        }
    }
}

pub fn gen_scalar(r: &mut Rng, cfg: &DocCfg) -> Value<'static> {
    match r.below(9) {
        0 => Value::Null,
        1 => Value::Bool(true),
        2 => Value::Bool(false),
        3..=5 => Value::Number(gen_number(r, cfg.nonfinite)),
        _ => Value::String(Cow::Owned(gen_string(r, cfg.long_strings))),
    }
}

/// small documents at the edges of the layout: empty keys with payload-free values, empty
/// strings alone in nested arrays, empty containers before later siblings, minimal sizes
/// small documents of every kind, used as a complete matrix (all ordered pairs) by the two-document ops
pub const SMALL_DOCS: &[&str] = &[
    "[]", "{}", "null", "true", "false", "0", "1", "1.0", "-1", "\"\"", "\"a\"", "[null]", "[[]]", "[{}]", "[1]", "[1.0]",
    r#"{"a":[]}"#, r#"{"a":{}}"#, "[1,2]", "[2,1]", "[1,2,3]", r#"{"a":1}"#, r#"{"a":1,"b":2}"#, r#"{"b":2}"#, r#"{"a":1.0}"#,
    r#"{"a":2,"b":1}"#, r#"{"a":1,"c":0}"#, r#"{"a":[1],"b":1}"#, r#"[{"a":1},{"b":2}]"#, r#"[{"b":2},{"a":1}]"#, "[[1],[2]]", "[[1,2]]", "[[2],[1]]", r#"["a",null,true,false]"#, r#"[null,true,false,""]"#, r#"{"":[],"a":{}}"#,
];

pub const EDGE_DOCS: &[&str] = &[
    r#"{"":null}"#, r#"{"":true,"a":false}"#, r#"[1,{"":null}]"#, r#"{"k":{"":{"":true}}}"#, r#"{"":"","a":""}"#,
    r#"[[""]]"#, r#"{"a":[""]}"#, r#"["x",[""]]"#, r#"[1,[2,[""]]]"#, r#"[[],{}]"#, r#"[{}]"#, r#"[[]]"#, r#"[{},[]]"#,
    r#"{"a":{},"b":1}"#, r#"{"a":[],"b":1}"#, r#"[1,[],2,3]"#, r#"{"a":{"x":null},"c":7}"#, r#"{"a":[null],"b":[[]]}"#,
    r#"[null]"#, r#"[true,[5,6]]"#, r#"{"a":null,"b":{"c":1}}"#, r#"[[1],[1.0]]"#, r#"[1,1.0,1e0,100,1e2]"#,
    r#"{"a":[1,2]}"#, r#"{"a":1}"#, r#"[[1,2],[3]]"#, r#"[[3],[1,2]]"#, r#"{"ÄB":1,"äb":2}"#, r#"{"É":1}"#, r#"[-0.0,0,0.0]"#,
];

/// documents nested `depth` levels (arrays and objects alternating at random, a sibling now and then):
/// depth limits, depth-indexed tables and per-level bookkeeping only show beyond the 6..14 levels of
/// the random documents
pub fn nested_doc(r: &mut Rng, depth: usize) -> Value<'static> {
    let mut v: Value<'static> = match r.below(4) { 0 => Value::Null, 1 => Value::Number(Number::UInt64(r.below(1000))), 2 => Value::String(std::borrow::Cow::Borrowed("x")), _ => Value::Array(vec![]) };
    for lvl in 0..depth {
        v = if r.chance(1, 2) {
            let mut xs = vec![];
            if r.chance(1, 8) { xs.push(Value::Number(Number::UInt64(lvl as u64))); }
            xs.push(v);
            if r.chance(1, 8) { xs.push(Value::Bool(true)); }
            Value::Array(xs)
        } else {
            let mut m = std::collections::BTreeMap::new();
            if r.chance(1, 8) { m.insert("a".to_string(), Value::Null); }
            m.insert("k".to_string(), v);
            if r.chance(1, 8) { m.insert("z".to_string(), Value::String(std::borrow::Cow::Borrowed("s"))); }
            Value::Object(m)
        };
    }
    v
}
/// small-scope exhaustive enumeration: EVERY document with at most `max_nodes` values (containers and
/// scalars counted alike) over a small alphabet of scalars and keys.  Random generation samples the
/// space; this covers its smallest corner completely (every shape, every position of every empty
/// container and zero-length scalar).
pub fn enum_docs(max_nodes: usize) -> Vec<Value<'static>> {
    fn scalars() -> Vec<Value<'static>> {
        vec![Value::Null, Value::Bool(true), Value::Number(Number::UInt64(0)), Value::Number(Number::UInt64(1)), Value::Number(Number::Float64(1.0)),
             Value::String(Cow::Borrowed("")), Value::String(Cow::Borrowed("a"))]
    }
    const KEYS: &[&str] = &["", "a", "b"];
    // all lists of documents whose node counts sum to exactly n (n >= 0), as children of a container
    fn lists(n: usize, memo: &Vec<Vec<Value<'static>>>) -> Vec<Vec<Value<'static>>> {
        if n == 0 { return vec![vec![]]; }
        let mut out = vec![];
        for first in 1..=n {
            for head in &memo[first] {
                for tail in lists(n - first, memo) {
                    let mut l = vec![head.clone()];
                    l.extend(tail);
                    out.push(l);
                }
            }
        }
        out
    }
    // memo[k] = all documents with exactly k nodes
    let mut memo: Vec<Vec<Value<'static>>> = vec![vec![]; max_nodes + 1];
    for k in 1..=max_nodes {
        let mut docs = vec![];
        if k == 1 { docs.extend(scalars()); }
        for children in lists(k - 1, &memo) {
            docs.push(Value::Array(children.clone()));
            // objects: the children under every strictly increasing choice of keys
            let m = children.len();
            if m <= KEYS.len() {
                let mut idx: Vec<usize> = (0..m).collect();
                loop {
                    let mut o = BTreeMap::new();
                    for (i, c) in children.iter().enumerate() { o.insert(KEYS[idx[i]].to_string(), c.clone()); }
                    docs.push(Value::Object(o));
                    // next combination
                    let mut i = m;
                    while i > 0 && idx[i - 1] == KEYS.len() - m + (i - 1) { i -= 1; }
                    if i == 0 { break; }
                    idx[i - 1] += 1;
                    for j in i..m { idx[j] = idx[j - 1] + 1; }
                }
            }
        }
        memo[k] = docs;
    }
    memo.into_iter().flatten().collect()
}

pub const NEST_DEPTHS: &[usize] = &[33, 66, 100, 129, 260, 520];

pub fn gen_value(r: &mut Rng, cfg: &DocCfg, depth: u32) -> Value<'static> {
    if depth == 0 && r.chance(1, 14) {
        if let Ok(v) = jsonb::parse_value(r.pick(EDGE_DOCS).as_bytes()) { return v; }
    }
    let container_odds = if depth == 0 { 7 } else if depth >= cfg.max_depth { 0 } else { 3 };
    if r.below(10) >= container_odds {
        return gen_scalar(r, cfg);
    }
    // deliberately many empty containers and zero-length scalars before later elements
    let n = match r.below(8) {
        0 | 1 => 0,
        2 => 1,
        _ => r.below(cfg.max_fanout + 1),
    };
    if r.chance(1, 2) {
        let mut vs: Vec<Value<'static>> = Vec::new();
        for _ in 0..n {
            if r.chance(1, 6) && !vs.is_empty() {
                let i = r.below(vs.len() as u64) as usize;
                let d: Value<'static> = vs[i].clone();
                vs.push(d); // duplicates
            } else {
                vs.push(gen_value(r, cfg, depth + 1));
            }
        }
        Value::Array(vs)
    } else {
        let mut o = BTreeMap::new();
        for _ in 0..n {
            o.insert(gen_key(r), gen_value(r, cfg, depth + 1));
        }
        Value::Object(o)
    }
}

/// chain of `n` nested single-element containers around a scalar
pub fn nested(n: usize, objects: bool) -> Value<'static> {
    let mut v = Value::Number(Number::UInt64(1));
    for i in 0..n {
        if objects && i % 2 == 1 {
            let mut o = BTreeMap::new();
            o.insert("k".to_string(), v);
            v = Value::Object(o);
        } else {
            v = Value::Array(vec![v]);
        }
    }
    v
}

/// structural statistics for the evidence file
pub fn depth_of(v: &Value) -> u32 {
    match v {
        Value::Array(vs) => 1 + vs.iter().map(depth_of).max().unwrap_or(0),
        Value::Object(o) => 1 + o.values().map(depth_of).max().unwrap_or(0),
        _ => 0,
    }
}
pub fn nodes_of(v: &Value) -> u32 {
    match v {
        Value::Array(vs) => 1 + vs.iter().map(nodes_of).sum::<u32>(),
        Value::Object(o) => 1 + o.values().map(nodes_of).sum::<u32>(),
        _ => 1,
    }
}
