//! C07: chains of operations on the real code.  `chain <doc> <op>…` prints every intermediate
//! document; `chaincheck <doc> <op>…` judges each of them on the real code alone: it decodes,
//! re-encodes to the identical bytes (exact nested lengths, sorted unique keys, nothing
//! trailing), and the next byte-level function is fed exactly these bytes.
use crate::ops_access::{parse_keylist, parse_keypath};
use crate::wire::*;
use jsonb::jsonpath::parse_json_path;
use jsonb::keypath::KeyPath;

#[derive(Clone)]
pub enum Arg {
    Lit(Vec<u8>),
    SelfDoc,
    Sub(Vec<KeyPath<'static>>),
}

pub enum Op {
    Concat(Arg, bool),
    DelName(String),
    DelIdx(i32),
    DelKp(Vec<KeyPath<'static>>),
    ArrIns(i32, Arg),
    ObjIns(String, Arg, bool),
    ObjDel(Vec<String>),
    ObjPick(Vec<String>),
    Strip,
    GetIdx(usize),
    GetName(String, bool),
    GetKp(Vec<KeyPath<'static>>),
    Keys,
    Distinct,
    Inter(Arg),
    Except(Arg),
    WrapArr(Vec<Arg>),
    WrapObj(Vec<(String, Arg)>),
    SelFirst(Vec<u8>),
    SelArr(Vec<u8>),
}

fn parse_arg(s: &str) -> Option<Arg> {
    if s == "S" {
        return Some(Arg::SelfDoc);
    }
    let (h, r) = s.split_at(1);
    match h {
        "L" => Some(Arg::Lit(unhex(r)?)),
        "K" => Some(Arg::Sub(parse_keypath(r)?)),
        _ => None,
    }
}

fn utf8(h: &str) -> Option<String> {
    String::from_utf8(unhex(h)?).ok()
}

fn flag(s: &str) -> Option<bool> {
    match s { "0" => Some(false), "1" => Some(true), _ => None }
}

/// `Err(())` = the JSONPath inside does not parse (answer `bad-path`)
pub fn parse_op(tok: &str) -> Result<Option<Op>, ()> {
    let f: Vec<&str> = tok.split(':').collect();
    Ok((|| -> Option<Op> {
        Some(match f.as_slice() {
            ["cat", a, "l"] => Op::Concat(parse_arg(a)?, true),
            ["cat", a, "r"] => Op::Concat(parse_arg(a)?, false),
            ["dn", n] => Op::DelName(utf8(n)?),
            ["di", i] => Op::DelIdx(i.parse().ok()?),
            ["dk", kp] => Op::DelKp(parse_keypath(kp)?),
            ["ai", p, a] => Op::ArrIns(p.parse().ok()?, parse_arg(a)?),
            ["oi", k, a, u] => Op::ObjIns(utf8(k)?, parse_arg(a)?, flag(u)?),
            ["od", ks] => Op::ObjDel(parse_keylist(ks)?.into_iter().map(String::from_utf8).collect::<Result<_, _>>().ok()?),
            ["op", ks] => Op::ObjPick(parse_keylist(ks)?.into_iter().map(String::from_utf8).collect::<Result<_, _>>().ok()?),
            ["st"] => Op::Strip,
            ["gi", i] => Op::GetIdx(i.parse().ok()?),
            ["gn", n, ic] => Op::GetName(utf8(n)?, flag(ic)?),
            ["gk", kp] => Op::GetKp(parse_keypath(kp)?),
            ["ks"] => Op::Keys,
            ["ds"] => Op::Distinct,
            ["in", a] => Op::Inter(parse_arg(a)?),
            ["ex", a] => Op::Except(parse_arg(a)?),
            ["wa", aa] => Op::WrapArr(if *aa == "[]" { vec![] } else { aa.split('|').map(parse_arg).collect::<Option<_>>()? }),
            ["wo", kas] => Op::WrapObj(if *kas == "[]" { vec![] } else {
                kas.split('|').map(|ka| { let (k, a) = ka.split_once('=')?; Some((utf8(k)?, parse_arg(a)?)) }).collect::<Option<_>>()?
            }),
            ["sf", p] => Op::SelFirst(unhex(p)?),
            ["sa", p] => Op::SelArr(unhex(p)?),
            _ => return None,
        })
    })())
}

fn arg_of(cur: &[u8], a: &Arg) -> Option<Vec<u8>> {
    match a {
        Arg::Lit(w) => Some(w.clone()),
        Arg::SelfDoc => Some(cur.to_vec()),
        Arg::Sub(kp) => jsonb::get_by_keypath(cur, kp.iter()),
    }
}

fn refuse(buf: Vec<u8>, r: Result<(), jsonb::Error>) -> Option<Vec<u8>> {
    match r { Ok(()) => Some(buf), Err(_) => None }
}

/// `Err(())`: bad path
pub fn step(cur: &[u8], op: &Op) -> Result<Option<Vec<u8>>, ()> {
    step_into(cur, op, &[])
}

/// the same operation writing into a buffer that already holds `prefix` (as when one buffer
/// collects the rows of a column); the result is the appended part.  `Err(())` also when the
/// prior content was modified (reported by the caller)
pub fn step_into(cur: &[u8], op: &Op, prefix: &[u8]) -> Result<Option<Vec<u8>>, ()> {
    let r = step_raw(cur, op, prefix)?;
    Ok(match r {
        Some(b) if matches!(op, Op::GetIdx(_) | Op::GetName(..) | Op::GetKp(_) | Op::Keys) => Some(b),
        Some(b) => { if b.len() < prefix.len() || &b[..prefix.len()] != prefix { return Err(()); } Some(b[prefix.len()..].to_vec()) }
        None => None,
    })
}

fn step_raw(cur: &[u8], op: &Op, prefix: &[u8]) -> Result<Option<Vec<u8>>, ()> {
    let mut buf = prefix.to_vec();
    Ok(match op {
        Op::Concat(a, l) => match arg_of(cur, a) {
            Some(w) => { let r = if *l { jsonb::concat(&w, cur, &mut buf) } else { jsonb::concat(cur, &w, &mut buf) }; refuse(buf, r) }
            None => None,
        },
        Op::DelName(n) => { let r = jsonb::delete_by_name(cur, n, &mut buf); refuse(buf, r) }
        Op::DelIdx(i) => { let r = jsonb::delete_by_index(cur, *i, &mut buf); refuse(buf, r) }
        Op::DelKp(kp) => { let r = jsonb::delete_by_keypath(cur, kp.iter(), &mut buf); refuse(buf, r) }
        Op::ArrIns(p, a) => match arg_of(cur, a) {
            Some(w) => { let r = jsonb::array_insert(cur, *p, &w, &mut buf); refuse(buf, r) }
            None => None,
        },
        Op::ObjIns(k, a, u) => match arg_of(cur, a) {
            Some(w) => { let r = jsonb::object_insert(cur, k, &w, *u, &mut buf); refuse(buf, r) }
            None => None,
        },
        Op::ObjDel(ks) => { let set: std::collections::BTreeSet<&str> = ks.iter().map(|s| s.as_str()).collect(); let r = jsonb::object_delete(cur, &set, &mut buf); refuse(buf, r) }
        Op::ObjPick(ks) => { let set: std::collections::BTreeSet<&str> = ks.iter().map(|s| s.as_str()).collect(); let r = jsonb::object_pick(cur, &set, &mut buf); refuse(buf, r) }
        Op::Strip => { let r = jsonb::strip_nulls(cur, &mut buf); refuse(buf, r) }
        Op::GetIdx(i) => jsonb::get_by_index(cur, *i),
        Op::GetName(n, ic) => jsonb::get_by_name(cur, n, *ic),
        Op::GetKp(kp) => jsonb::get_by_keypath(cur, kp.iter()),
        Op::Keys => jsonb::object_keys(cur),
        Op::Distinct => { let r = jsonb::array_distinct(cur, &mut buf); refuse(buf, r) }
        Op::Inter(a) => match arg_of(cur, a) {
            Some(w) => { let r = jsonb::array_intersection(cur, &w, &mut buf); refuse(buf, r) }
            None => None,
        },
        Op::Except(a) => match arg_of(cur, a) {
            Some(w) => { let r = jsonb::array_except(cur, &w, &mut buf); refuse(buf, r) }
            None => None,
        },
        Op::WrapArr(aa) => {
            let ws: Option<Vec<Vec<u8>>> = aa.iter().map(|a| arg_of(cur, a)).collect();
            match ws {
                Some(ws) => { let r = jsonb::build_array(ws.iter().map(|w| w.as_slice()), &mut buf); refuse(buf, r) }
                None => None,
            }
        }
        Op::WrapObj(kas) => {
            let ws: Option<Vec<(String, Vec<u8>)>> = kas.iter().map(|(k, a)| arg_of(cur, a).map(|w| (k.clone(), w))).collect();
            match ws {
                Some(ws) => { let r = jsonb::build_object(ws.iter().map(|(k, w)| (k.as_str(), w.as_slice())), &mut buf); refuse(buf, r) }
                None => None,
            }
        }
        Op::SelFirst(p) | Op::SelArr(p) => {
            let jp = parse_json_path(p).map_err(|_| ())?;
            let mut offs = vec![];
            let r = if matches!(op, Op::SelFirst(_)) { jsonb::get_by_path_first(cur, jp, &mut buf, &mut offs) } else { jsonb::get_by_path_array(cur, jp, &mut buf, &mut offs) };
            match r { Ok(()) if buf.len() > prefix.len() => Some(buf), _ => None }
        }
    })
}

fn canonical(doc: &[u8]) -> Result<(), String> {
    match jsonb::from_slice(doc) {
        Ok(v) => {
            let re = v.to_vec();
            if re != doc { return Err(format!("re-encoding differs ({} vs {} bytes)", re.len(), doc.len())); }
            if !matches!(doc.first(), Some(0x20) | Some(0x40) | Some(0x80)) { return Err("not sniffed as JSONB".into()); }
            Ok(())
        }
        Err(_) => Err("does not decode".into()),
    }
}

pub fn exec(f: &[&str]) -> Option<String> {
    match f {
        ["chain", d, toks @ ..] | ["chaincheck", d, toks @ ..] => {
            let check = f[0] == "chaincheck";
            let mut cur = unhex(d)?;
            let mut ops = vec![];
            for t in toks {
                match parse_op(t) { Ok(Some(o)) => ops.push(o), Ok(None) => return None, Err(()) => return Some("bad-path".into()) }
            }
            let mut out: Vec<String> = vec![];
            for (k, op) in ops.iter().enumerate() {
                let plain = step(&cur, op);
                if check {
                    // the same step into a buffer that already holds earlier bytes: same appended
                    // bytes, prior bytes untouched
                    let pre: Vec<u8> = (0..(3 + (k % 5))).map(|i| (0xA5u8).wrapping_add((i * 37) as u8)).collect();
                    match (&plain, step_into(&cur, op, &pre)) {
                        (Ok(a), Ok(b)) => if *a != b { return Some(format!("MISMATCH class=buffer-dependent step={} op={} the result written into a non-empty buffer differs", k, toks[k])); },
                        (Err(()), _) => {}
                        (Ok(_), Err(())) => return Some(format!("MISMATCH class=buffer-clobbered step={} op={} prior buffer content was modified", k, toks[k])),
                    }
                }
                match plain {
                    Ok(Some(n)) => cur = n,
                    Ok(None) => {}
                    Err(()) => return Some("bad-path".into()),
                }
                if check {
                    if let Err(e) = canonical(&cur) {
                        return Some(format!("MISMATCH class=not-canonical step={} op={} what={} doc={}", k, toks[k], e, hex(&cur)));
                    }
                }
                out.push(hex(&cur));
            }
            if check { return Some("ok".into()); }
            Some(if out.is_empty() { "ok []".into() } else { format!("ok {}", out.join(";")) })
        }
        _ => None,
    }
}
