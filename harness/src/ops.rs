//! Execute one line-protocol request against the real crate (in-process) and print the
//! canonical result.  Panics are caught by the caller.
use crate::wire::*;
use jsonb::{Number, Value};

pub fn res_tree(r: Result<Value, jsonb::Error>) -> String {
    match r {
        Ok(v) => format!("ok {}", show_value(&v)),
        Err(_) => "err".to_string(),
    }
}

pub fn exec(line: &str) -> String {
    let f: Vec<&str> = line.trim().split(' ').collect();
    exec_fields(&f)
}

pub fn exec_fields(f0: &[&str]) -> String {
    let mut f: Vec<&str> = f0.to_vec();
    // `spec:<op>` asks the model for the spec-layer answer; the real code runs the same op
    if let Some(op) = f[0].strip_prefix("spec:") {
        f[0] = op;
    }
    // `t:<op>`: the request carries JSON text for some document arguments; the real functions
    // dispatch on their own
    if let Some(op) = f[0].strip_prefix("t:") {
        f[0] = op;
        match f.as_slice() {
            ["fromslice", h] => return match unhex(h) { Some(b) => res_tree(jsonb::from_slice(&b)), None => "bad-request".to_string() },
            ["lazyvec", h] => return match unhex(h) {
                Some(b) => match jsonb::parse_lazy_value(&b) {
                    Ok(l) => {
                        let v = l.to_vec();
                        let mut w = vec![1u8, 2];
                        l.write_to_vec(&mut w);
                        if w[2..] != v[..] { return "write_to_vec/to_vec differ".to_string(); }
                        if l.array_length() != jsonb::array_length(&v) { return "array_length differs".to_string(); }
                        if jsonb::from_slice(&v).ok().as_ref() != Some(&*l.to_value()) { return "to_value differs".to_string(); }
                        format!("ok {}", hex(&v))
                    }
                    Err(_) => "err".to_string(),
                },
                None => "bad-request".to_string(),
            },
            _ => {}
        }
    }
    if let Some(r) = crate::ops_tj::exec(f.as_slice()) {
        return r;
    }
    if let Some(r) = crate::ops_chain::exec(f.as_slice()) {
        return r;
    }
    if let Some(r) = crate::ops_deep::exec(f.as_slice()) {
        return r;
    }
    match f.as_slice() {
        ["numenc", v] => match parse_tree(v) {
            Some(Value::Number(n)) => {
                let mut b = Vec::new();
                // the writer is generic: a writer that accepts a few bytes per call must receive the same bytes
                // (write_all semantics), a slot that is too short must give an error, never a shorter number
                struct Chunky(Vec<u8>, usize);
                impl std::io::Write for Chunky {
                    fn write(&mut self, buf: &[u8]) -> std::io::Result<usize> { let k = buf.len().min(self.1); self.0.extend_from_slice(&buf[..k]); Ok(k) }
                    fn flush(&mut self) -> std::io::Result<()> { Ok(()) }
                }
                {
                    let mut reference = Vec::new();
                    if n.compact_encode(&mut reference).is_ok() {
                        for chunk in [1usize, 2, 3, 4] {
                            let mut w = Chunky(vec![], chunk);
                            match n.compact_encode(&mut w) { Ok(len) if w.0 == reference && len == reference.len() => {}, _ => return "MISMATCH a writer that takes a few bytes per call got other bytes".to_string() }
                        }
                        let mut slot = vec![0u8; reference.len().saturating_sub(1)];
                        let mut cur = std::io::Cursor::new(&mut slot[..]);
                        if n.compact_encode(&mut cur).is_ok() { return "MISMATCH encoding into a slot one byte too short reports success".to_string(); }
                    }
                }
                match n.compact_encode(&mut b) {
                    Ok(len) if len == b.len() => format!("ok {}", hex(&b)),
                    Ok(_) => "ok-len-mismatch".to_string(),
                    Err(_) => "err".to_string(),
                }
            }
            _ => "bad-request".to_string(),
        },
        ["numdec", h] => match unhex(h) {
            Some(b) => match Number::decode(&b) {
                Ok(n) => format!("ok {}", show_num(&n)),
                Err(_) => "err".to_string(),
            },
            None => "bad-request".to_string(),
        },
        ["numcmp", a, b] => match (parse_num_tok(a), parse_num_tok(b)) {
            (Some(x), Some(y)) => {
                let o = x.cmp(&y);
                if (o == std::cmp::Ordering::Equal) != (x == y) { return "cmp/eq mismatch".to_string(); }
                if x.partial_cmp(&y) != Some(o) { return "cmp/partial_cmp mismatch".to_string(); }
                show_ord(o).to_string()
            }
            _ => "bad-request".to_string(),
        },
        ["numview", a] => match parse_num_tok(a) {
            Some(x) => format!(
                "{} {} {:016x}",
                x.as_i64().map(|v| v.to_string()).unwrap_or("none".into()),
                x.as_u64().map(|v| v.to_string()).unwrap_or("none".into()),
                x.as_f64().unwrap().to_bits()
            ),
            None => "bad-request".to_string(),
        },
        // order laws evaluated on the real code alone (the model answers the constant the
        // theorems guarantee)
        ["numlaws", a, b, c] => match (parse_num_tok(a), parse_num_tok(b), parse_num_tok(c)) {
            (Some(x), Some(y), Some(z)) => {
                use std::cmp::Ordering::*;
                let v = [x, y, z];
                for p in &v { if p.cmp(p) != Equal { return format!("not reflexive: {}", show_num(p)); } }
                for p in &v { for q in &v {
                    if q.cmp(p) != p.cmp(q).reverse() { return format!("not antisymmetric: {} {}", show_num(p), show_num(q)); }
                } }
                for p in &v { for q in &v { for r in &v {
                    if p.cmp(q) != Greater && q.cmp(r) != Greater && p.cmp(r) == Greater {
                        return format!("not transitive: {} {} {}", show_num(p), show_num(q), show_num(r));
                    }
                    if p.cmp(q) == Equal && q.cmp(r) == Equal && p.cmp(r) != Equal {
                        return format!("equality not transitive: {} {} {}", show_num(p), show_num(q), show_num(r));
                    }
                } } }
                "ok".to_string()
            }
            _ => "bad-request".to_string(),
        },
        ["enc", v] | ["encspec", v] => match parse_tree(v) {
            Some(v) => format!("ok {}", hex(&v.to_vec())),
            None => "bad-request".to_string(),
        },
        ["encinto", p, v] => match (unhex(p), parse_tree(v)) {
            (Some(mut p), Some(v)) => {
                v.write_to_vec(&mut p);
                format!("ok {}", hex(&p))
            }
            _ => "bad-request".to_string(),
        },
        ["dec", h] => match unhex(h) {
            Some(b) => res_tree(jsonb::parse_jsonb(&b)),
            None => "bad-request".to_string(),
        },
        // round trip through the real encoder and decoder (oracle: the model answers with
        // the spec value `norm v`, resp. the README layout of `v`)
        ["rtdec", v] => match parse_tree(v) {
            Some(v) => {
                let b = v.to_vec();
                let r1 = jsonb::parse_jsonb(&b);
                let r2 = jsonb::from_slice(&b);
                let s1 = res_tree(r1);
                let s2 = res_tree(r2);
                if s1 == s2 { s1 } else { format!("parse_jsonb/from_slice differ: {} / {}", s1, s2) }
            }
            None => "bad-request".to_string(),
        },
        ["rtenc", v] => match parse_tree(v) {
            Some(v) => {
                let b = v.to_vec();
                match jsonb::parse_jsonb(&b) {
                    Ok(d) => format!("ok {}", hex(&d.to_vec())),
                    Err(_) => "err".to_string(),
                }
            }
            None => "bad-request".to_string(),
        },
        _ => match crate::ops_access::exec(f.as_slice()).or_else(|| crate::ops_edit::exec(f.as_slice())).or_else(|| crate::ops_order::exec(f.as_slice())).or_else(|| crate::ops_text::exec(f.as_slice())).or_else(|| crate::ops_path::exec(f.as_slice())).or_else(|| crate::ops_select::exec(f.as_slice())).or_else(|| crate::ops_serde::exec(f.as_slice())) {
            Some(r) => r,
            None => "bad-request".to_string(),
        },
    }
}
