//! serde_json bridge ops (C19)
use crate::wire::*;
use jsonb::{Number, Value};
use serde_json::Value as J;

pub fn show_sj(v: &J) -> String {
    let mut s = String::new();
    show_into(v, &mut s);
    s
}

fn show_into(v: &J, s: &mut String) {
    match v {
        J::Null => s.push('n'),
        J::Bool(true) => s.push('t'),
        J::Bool(false) => s.push('f'),
        J::Number(n) => {
            if let Some(u) = n.as_u64() { s.push_str(&format!("P{}", u)); }
            else if let Some(i) = n.as_i64() { s.push_str(&format!("M{}", i)); }
            else { s.push_str(&format!("D{:016x}", n.as_f64().unwrap().to_bits())); }
        }
        J::String(x) => { s.push('S'); s.push_str(&hex(x.as_bytes())); }
        J::Array(vs) => {
            s.push_str(&format!("A{}", vs.len()));
            for x in vs { s.push(','); show_into(x, s); }
        }
        J::Object(o) => {
            s.push_str(&format!("O{}", o.len()));
            let mut ks: Vec<&String> = o.keys().collect();
            ks.sort_by(|a, b| a.as_bytes().cmp(b.as_bytes()));
            for k in ks { s.push_str(",K"); s.push_str(&hex(k.as_bytes())); s.push(','); show_into(&o[k], s); }
        }
    }
}

fn parse_sj(toks: &[&str], pos: &mut usize) -> Option<J> {
    let t = *toks.get(*pos)?;
    *pos += 1;
    let (h, r) = t.split_at(1);
    Some(match h {
        "n" => J::Null,
        "t" => J::Bool(true),
        "f" => J::Bool(false),
        "P" => J::Number(r.parse::<u64>().ok()?.into()),
        "M" => J::Number(r.parse::<i64>().ok()?.into()),
        "D" => J::Number(serde_json::Number::from_f64(f64::from_bits(u64::from_str_radix(r, 16).ok()?))?),
        "S" => J::String(String::from_utf8(unhex(r)?).ok()?),
        "A" => { let n: usize = r.parse().ok()?; let mut v = vec![]; for _ in 0..n { v.push(parse_sj(toks, pos)?); } J::Array(v) }
        "O" => {
            let n: usize = r.parse().ok()?;
            let mut m = serde_json::Map::new();
            for _ in 0..n {
                let k = *toks.get(*pos)?; *pos += 1;
                let kb = String::from_utf8(unhex(k.strip_prefix('K')?)?).ok()?;
                let v = parse_sj(toks, pos)?;
                m.insert(kb, v);
            }
            J::Object(m)
        }
        _ => return None,
    })
}

fn finite(v: &Value) -> bool {
    match v {
        Value::Number(Number::Float64(f)) => f.is_finite(),
        Value::Array(vs) => vs.iter().all(finite),
        Value::Object(o) => o.values().all(finite),
        _ => true,
    }
}

/// serde numbers equal as the property states them: same u64, i64 or f64 (serde_json's default
/// float reader is off by one ulp at most: accepted when comparing against its own parse)
fn sj_eq(a: &J, b: &J, ulp: i128) -> bool {
    match (a, b) {
        (J::Number(x), J::Number(y)) => {
            if let (Some(p), Some(q)) = (x.as_u64(), y.as_u64()) { return p == q; }
            if let (Some(p), Some(q)) = (x.as_i64(), y.as_i64()) { return p == q; }
            if x.is_f64() && y.is_f64() {
                let (p, q) = (x.as_f64().unwrap().to_bits() as i128, y.as_f64().unwrap().to_bits() as i128);
                return (p - q).abs() <= ulp;
            }
            false
        }
        (J::Array(x), J::Array(y)) => x.len() == y.len() && x.iter().zip(y).all(|(p, q)| sj_eq(p, q, ulp)),
        (J::Object(x), J::Object(y)) => x.len() == y.len() && x.iter().all(|(k, p)| y.get(k).map_or(false, |q| sj_eq(p, q, ulp))),
        _ => a == b,
    }
}

pub fn exec(f: &[&str]) -> Option<String> {
    Some(match f {
        ["toserde", d] => match jsonb::to_serde_json(&unhex(d)?) { Ok(j) => format!("ok {}", show_sj(&j)), Err(_) => "err".into() },
        ["toserdeobj", d] => match jsonb::to_serde_json_object(&unhex(d)?) {
            Ok(Some(m)) => format!("ok {}", show_sj(&J::Object(m))),
            Ok(None) => "ok none".into(),
            Err(_) => "err".into(),
        },
        ["treeserde", v] => { let v = parse_tree(v)?; let j: J = v.into(); format!("ok {}", show_sj(&j)) }
        ["fromserde", s] => {
            let toks: Vec<&str> = s.split(',').collect();
            let mut pos = 0;
            let j = parse_sj(&toks, &mut pos)?;
            let v: Value = (&j).into();
            format!("ok {}", show_value(&v))
        }
        // the property's own statement evaluated on the real code
        ["serdecheck", d] => {
            let doc = unhex(d)?;
            let v = jsonb::from_slice(&doc).ok()?;
            if !finite(&v) { return Some("not-applicable".into()); }
            let j = match jsonb::to_serde_json(&doc) { Ok(j) => j, Err(_) => return Some("to_serde_json failed".into()) };
            let jt: J = v.clone().into();
            if !sj_eq(&j, &jt, 0) { return Some("bytes and tree convert differently".into()); }
            let text = jsonb::to_string(&doc);
            let strict: J = match crate::wire::strict_json(&text) { Ok(x) => x, Err(_) => return Some("strict parser rejects the rendering".into()) };
            // structure, strings, member sets, integer kinds against serde_json's own reading of the
            // text (its float reader can be several ulps off: loose there), floats exactly against
            // std's correctly rounded reading of every float literal of the text
            if !sj_eq(&j, &strict, 64) { return Some("conversion differs from what the strict parser reads".into()); }
            fn sj_floats(j: &J, out: &mut Vec<u64>) {
                match j {
                    J::Number(n) => if n.is_f64() { out.push(n.as_f64().unwrap().to_bits()); },
                    J::Array(a) => a.iter().for_each(|x| sj_floats(x, out)),
                    J::Object(o) => o.values().for_each(|x| sj_floats(x, out)),
                    _ => {}
                }
            }
            let mut fl = vec![]; sj_floats(&j, &mut fl);
            if crate::ops_text::float_tokens(&text) != fl { return Some("a converted float is not the (correctly rounded) double its literal in the rendering denotes".into()); }
            let back: Value = (&j).into();
            if back != v { return Some("converting back is not equal to the original".into()); }
            let back_owned: Value = j.clone().into();
            if back_owned != v || back_owned.to_vec() != back.to_vec() { return Some("the owned conversion From<serde_json::Value> differs from the borrowed one".into()); }
            let again: J = back.into();
            if !sj_eq(&again, &j, 0) { return Some("conversions are not mutually inverse".into()); }
            match (jsonb::to_serde_json_object(&doc), &j) {
                (Ok(Some(m)), J::Object(o)) => if !sj_eq(&J::Object(m), &J::Object(o.clone()), 0) { return Some("object variant disagrees".into()); },
                (Ok(None), J::Object(_)) => return Some("object variant returns nothing for an object".into()),
                (Ok(None), _) => {}
                (Ok(Some(_)), _) => return Some("object variant returns members for a non-object".into()),
                (Err(_), _) => return Some("object variant failed".into()),
            }
            "ok".into()
        }
        _ => return None,
    })
}
