//! Per-property case generation: request lines for the line protocol.
use crate::gen::*;
use crate::rng::Rng;
use crate::wire::*;
use jsonb::{Number, Value};

pub struct Out {
    pub lines: Vec<String>,
    pub stats: std::collections::BTreeMap<String, u64>,
}

impl Out {
    fn new() -> Self {
        Out { lines: vec![], stats: Default::default() }
    }
    fn push(&mut self, l: String) {
        let op = l.split(' ').next().unwrap_or("").to_string();
        *self.stats.entry(format!("op:{}", op)).or_insert(0) += 1;
        self.lines.push(l);
    }
    fn stat(&mut self, k: &str) {
        *self.stats.entry(k.to_string()).or_insert(0) += 1;
    }
    fn doc_stats(&mut self, v: &Value) {
        let d = depth_of(v);
        let n = nodes_of(v);
        self.stat(&format!("depth:{}", d.min(12)));
        self.stat(&format!("nodes:{}", match n { 0..=1 => "1", 2..=5 => "2-5", 6..=20 => "6-20", 21..=100 => "21-100", _ => ">100" }));
        self.stat(match v { Value::Array(_) => "root:array", Value::Object(_) => "root:object", _ => "root:scalar" });
    }
}

fn cfg(tier: &str) -> DocCfg {
    if tier == "thorough" { DocCfg::thorough() } else { DocCfg::quick() }
}
fn scale(tier: &str, quick: usize, thorough: usize) -> usize {
    if tier == "thorough" { thorough } else { quick }
}

pub fn all_numbers() -> Vec<Number> {
    let mut v = vec![];
    for i in INTS { v.push(Number::Int64(*i)); }
    for u in UINTS { v.push(Number::UInt64(*u)); }
    for b in FLOAT_BITS.iter().chain(NONFINITE_BITS.iter()) { v.push(Number::Float64(f64::from_bits(*b))); }
    v
}

/// valid encodings with injected faults (C10)
pub fn faults(r: &mut Rng, b: &[u8], n: usize) -> Vec<Vec<u8>> {
    let mut out = vec![];
    if b.is_empty() { return out; }
    for _ in 0..n {
        let mut x = b.to_vec();
        let k = 1 + r.below(2);
        for _ in 0..k {
            if x.is_empty() { break; }
            let pos = r.below(x.len() as u64) as usize;
            // bias towards header / entry words at the front
            let pos = if r.chance(1, 2) { pos.min(r.below(24) as usize).min(x.len() - 1) } else { pos };
            match r.below(8) {
                0 => { x.truncate(pos); }
                1 | 2 => { x[pos] ^= 1 << r.below(8); }
                3 => { x[pos] = *r.pick(&[0u8, 0xff, 0x80, 0x7f, 0x20, 0x40, 0x10, 0x50, 0x60, 0x70, 0xc0, 0xe0]); }
                4 => { x.insert(pos, r.next() as u8); }
                5 => { x.remove(pos); }
                6 => {
                    // rewrite a whole aligned word: count / type / length fields
                    let w = pos & !3;
                    if w + 4 <= x.len() {
                        let tag = *r.pick(&[0x0u32, 0x1000_0000, 0x2000_0000, 0x3000_0000, 0x4000_0000, 0x5000_0000, 0x6000_0000, 0x7000_0000, 0x8000_0000, 0xc000_0000, 0xe000_0000]);
                        let len = *r.pick(&[0u32, 1, 2, 3, 4, 8, 9, 16, 255, 0x0fff_ffff]);
                        x[w..w + 4].copy_from_slice(&(tag | len).to_be_bytes());
                    }
                }
                _ => { x.truncate(x.len() - 1); }
            }
        }
        out.push(x);
    }
    out
}

pub fn gen(prop: &str, tier: &str, seed: u64) -> Out {
    let mut o = Out::new();
    let mut r = Rng::new(seed ^ prop.bytes().fold(0u64, |a, b| a.wrapping_mul(131).wrapping_add(b as u64)));
    let c = cfg(tier);
    match prop {
        "C01" => {
            for n in all_numbers() {
                let t = show_num(&n);
                o.push(format!("numenc {}", t));
                o.push(format!("rtdec {}", t));
                o.push(format!("encspec A2,{},{}", t, t));
            }
            for _ in 0..scale(tier, 1500, 60000) {
                let v = gen_value(&mut r, &c, 0);
                o.doc_stats(&v);
                let t = show_value(&v);
                o.push(format!("enc {}", t));
                o.push(format!("encspec {}", t));
                o.push(format!("rtdec {}", t));
                o.push(format!("rtenc {}", t));
                o.push(format!("dec {}", hex(&v.to_vec())));
            }
        }
        "C18" => {
            for n in all_numbers() {
                let t = show_num(&n);
                o.push(format!("numenc {}", t));
                let mut b = Vec::new();
                n.compact_encode(&mut b).unwrap();
                o.push(format!("numdec {}", hex(&b)));
            }
            // every tag byte with every payload length 0..=9, boundary payload contents
            for tag in 0..=255u32 {
                if tag % 16 != 0 && tag > 0x70 && tag % 37 != 0 { continue; }
                for len in 0..=9usize {
                    for fill in [0u8, 0xff, 0x80, 0x7f, 0x01] {
                        let mut b = vec![tag as u8];
                        b.extend(std::iter::repeat(fill).take(len));
                        o.push(format!("numdec {}", hex(&b)));
                        if len == 0 { break; }
                    }
                }
            }
            o.push("numdec -".to_string());
            // exhaustive 16-bit payloads for the 2-byte int/uint forms (thorough), sampled otherwise
            let step = if tier == "thorough" { 1 } else { 97 };
            let mut x = 0u32;
            while x < 65536 {
                o.push(format!("numdec 40{:04x}", x));
                o.push(format!("numdec 50{:04x}", x));
                x += step;
            }
            for _ in 0..scale(tier, 3000, 200000) {
                let n = gen_number(&mut r, true);
                let t = show_num(&n);
                o.push(format!("numenc {}", t));
                o.push(format!("rtdec {}", t));
                let mut b = vec![*r.pick(&[0x00u8, 0x10, 0x20, 0x30, 0x40, 0x50, 0x60, 0x70, 0x41, 0xff])];
                let len = r.below(10);
                for _ in 0..len { b.push(r.next() as u8); }
                o.push(format!("numdec {}", hex(&b)));
            }
        }
        "C10" => {
            for _ in 0..scale(tier, 400, 12000) {
                let v = gen_value(&mut r, &c, 0);
                o.doc_stats(&v);
                let b = v.to_vec();
                o.push(format!("dec {}", hex(&b)));
                // every proper prefix (short documents) or sampled prefixes
                if b.len() <= 64 {
                    for k in 0..b.len() { o.push(format!("dec {}", hex(&b[..k]))); o.stat("fault:prefix"); }
                } else {
                    for _ in 0..16 { let k = r.below(b.len() as u64) as usize; o.push(format!("dec {}", hex(&b[..k]))); o.stat("fault:prefix"); }
                }
                for x in faults(&mut r, &b, 12) { o.push(format!("dec {}", hex(&x))); o.stat("fault:mutated"); }
            }
            for _ in 0..scale(tier, 500, 20000) {
                let n = r.below(24) as usize;
                let mut x: Vec<u8> = (0..n).map(|_| r.next() as u8).collect();
                if n >= 4 && r.chance(3, 4) {
                    x[0] = *r.pick(&[0x20u8, 0x40, 0x80]);
                    x[1] = 0; x[2] = 0; x[3] = r.below(4) as u8;
                }
                o.push(format!("dec {}", hex(&x)));
                o.stat("fault:random-bytes");
            }
        }
        "C17" => {
            for _ in 0..scale(tier, 1200, 40000) {
                let v = gen_value(&mut r, &c, 0);
                o.doc_stats(&v);
                let t = show_value(&v);
                let n = r.below(12) as usize;
                let pre: Vec<u8> = if r.chance(1, 3) { gen_value(&mut r, &c, 1).to_vec() } else { (0..n).map(|_| r.next() as u8).collect() };
                o.push(format!("encinto {} {}", hex(&pre), t));
                o.push(format!("spec:encinto {} {}", hex(&pre), t));
            }
        }
        _ => {}
    }
    o
}
