//! Per-property case generation: request lines for the line protocol.
use crate::gen::*;
use crate::rng::Rng;
use crate::wire::*;
use jsonb::{Number, Value};

pub struct Out {
    pub lines: Vec<String>,
    pub stats: std::collections::BTreeMap<String, u64>,
}

impl Out {
    fn new() -> Self {
        Out { lines: vec![], stats: Default::default() }
    }
    fn push(&mut self, l: String) {
        let op = l.split(' ').next().unwrap_or("").to_string();
        *self.stats.entry(format!("op:{}", op)).or_insert(0) += 1;
        self.lines.push(l);
    }
    fn stat(&mut self, k: &str) {
        *self.stats.entry(k.to_string()).or_insert(0) += 1;
    }
    fn doc_stats(&mut self, v: &Value) {
        let d = depth_of(v);
        let n = nodes_of(v);
        self.stat(&format!("depth:{}", d.min(12)));
        self.stat(&format!("nodes:{}", match n { 0..=1 => "1", 2..=5 => "2-5", 6..=20 => "6-20", 21..=100 => "21-100", _ => ">100" }));
        self.stat(match v { Value::Array(_) => "root:array", Value::Object(_) => "root:object", _ => "root:scalar" });
    }
}

fn cfg(tier: &str) -> DocCfg {
    if tier == "thorough" { DocCfg::thorough() } else { DocCfg::quick() }
}
fn scale(tier: &str, quick: usize, thorough: usize) -> usize {
    if tier == "thorough" { thorough } else { quick }
}

pub fn all_numbers() -> Vec<Number> {
    let mut v = vec![];
    for i in INTS { v.push(Number::Int64(*i)); }
    for u in UINTS { v.push(Number::UInt64(*u)); }
    for b in FLOAT_BITS.iter().chain(NONFINITE_BITS.iter()) { v.push(Number::Float64(f64::from_bits(*b))); }
    v
}

/// valid encodings with injected faults (C10)
pub fn faults(r: &mut Rng, b: &[u8], n: usize) -> Vec<Vec<u8>> {
    let mut out = vec![];
    if b.is_empty() { return out; }
    for _ in 0..n {
        let mut x = b.to_vec();
        let k = 1 + r.below(2);
        for _ in 0..k {
            if x.is_empty() { break; }
            let pos = r.below(x.len() as u64) as usize;
            // bias towards header / entry words at the front
            let pos = if r.chance(1, 2) { pos.min(r.below(24) as usize).min(x.len() - 1) } else { pos };
            match r.below(8) {
                0 => { x.truncate(pos); }
                1 | 2 => { x[pos] ^= 1 << r.below(8); }
                3 => { x[pos] = *r.pick(&[0u8, 0xff, 0x80, 0x7f, 0x20, 0x40, 0x10, 0x50, 0x60, 0x70, 0xc0, 0xe0]); }
                4 => { x.insert(pos, r.next() as u8); }
                5 => { x.remove(pos); }
                6 => {
                    // rewrite a whole aligned word: count / type / length fields
                    let w = pos & !3;
                    if w + 4 <= x.len() {
                        let tag = *r.pick(&[0x0u32, 0x1000_0000, 0x2000_0000, 0x3000_0000, 0x4000_0000, 0x5000_0000, 0x6000_0000, 0x7000_0000, 0x8000_0000, 0xc000_0000, 0xe000_0000]);
                        let len = *r.pick(&[0u32, 1, 2, 3, 4, 8, 9, 16, 255, 0x0fff_ffff]);
                        x[w..w + 4].copy_from_slice(&(tag | len).to_be_bytes());
                    }
                }
                _ => { x.truncate(x.len() - 1); }
            }
        }
        out.push(x);
    }
    out
}

/// layout-aware faults on the top-level container of a valid encoding: an entry's length field is
/// rewritten to another width AND its payload resized to match (so everything else stays
/// consistent), or the boundary between two adjacent object keys is moved
pub fn layout_faults(r: &mut Rng, b: &[u8], n: usize) -> Vec<Vec<u8>> {
    let mut out = vec![];
    if b.len() < 8 { return out; }
    let hdr = u32::from_be_bytes([b[0], b[1], b[2], b[3]]);
    let (ty, cnt) = (hdr & 0xe000_0000, (hdr & 0x1fff_ffff) as usize);
    let nent = match ty { 0x8000_0000 => cnt, 0x4000_0000 => 2 * cnt, 0x2000_0000 => 1, _ => return out };
    if nent == 0 || 4 + 4 * nent > b.len() { return out; }
    let words: Vec<u32> = (0..nent).map(|i| u32::from_be_bytes([b[4 + 4 * i], b[5 + 4 * i], b[6 + 4 * i], b[7 + 4 * i]])).collect();
    let lens: Vec<usize> = words.iter().map(|w| (w & 0x0fff_ffff) as usize).collect();
    let pay0 = 4 + 4 * nent;
    if pay0 + lens.iter().sum::<usize>() != b.len() { return out; }
    let offs: Vec<usize> = lens.iter().scan(pay0, |a, l| { let o = *a; *a += l; Some(o) }).collect();
    for _ in 0..n {
        let mut x = b.to_vec();
        if ty == 0x4000_0000 && cnt >= 2 && r.chance(1, 2) {
            // move the boundary between key j and key j+1 by d bytes
            let j = r.below(cnt as u64 - 1) as usize;
            let d = r.range(-2, 2);
            let (a, c) = (lens[j] as i64 + d, lens[j + 1] as i64 - d);
            if a < 0 || c < 0 || d == 0 { continue; }
            x[4 + 4 * j..8 + 4 * j].copy_from_slice(&((words[j] & 0xf000_0000) | a as u32).to_be_bytes());
            x[8 + 4 * j..12 + 4 * j].copy_from_slice(&((words[j + 1] & 0xf000_0000) | c as u32).to_be_bytes());
        } else {
            let i = r.below(nent as u64) as usize;
            let nl = *r.pick(&[0usize, 1, 2, 3, 4, 5, 7, 8, 9, 10, 15, 16, 17, 31, 32, 33, 64, 65, 129]);
            let mut pay: Vec<u8> = b[offs[i]..offs[i] + lens[i]].to_vec();
            let fill = *r.pick(&[0x00u8, 0x01, 0x7f, 0x80, 0xff, 0x61]);
            pay.resize(nl, fill);
            x[4 + 4 * i..8 + 4 * i].copy_from_slice(&((words[i] & 0xf000_0000) | nl as u32).to_be_bytes());
            x.splice(offs[i]..offs[i] + lens[i], pay);
        }
        out.push(x);
    }
    out
}

/// a second document derived from the first: mutate one leaf, drop / duplicate / reorder
/// elements, re-type a number, extend a string, nest one level, or an unrelated one
pub fn derive(r: &mut Rng, c: &DocCfg, v: &Value<'static>) -> Value<'static> {
    match r.below(10) {
        0 => v.clone(),
        1 => gen_value(r, c, 0),
        2 => Value::Array(vec![v.clone()]),
        3 => match v { Value::Array(vs) if !vs.is_empty() => vs[r.below(vs.len() as u64) as usize].clone(), Value::Object(o) if !o.is_empty() => o.values().nth(r.below(o.len() as u64) as usize).unwrap().clone(), _ => gen_scalar(r, c) },
        // two independent differences (an early value AND a later key, an element AND the length, ...)
        4 | 5 => { let m = mutate(r, c, v); mutate(r, c, &m) }
        _ => mutate(r, c, v),
    }
}

/// an object member (at any depth) that holds a non-empty array replaced by one element of that array:
/// containment's "array contains a bare scalar" rule applies at the top level only
pub fn unwrap_member(r: &mut Rng, v: &Value<'static>) -> Option<Value<'static>> {
    match v {
        Value::Object(o) => {
            let cands: Vec<&String> = o.iter().filter(|(_, x)| matches!(x, Value::Array(a) if !a.is_empty())).map(|(k, _)| k).collect();
            if !cands.is_empty() && r.chance(2, 3) {
                let k = (*r.pick(cands.as_slice())).clone();
                let mut o2 = o.clone();
                if let Some(Value::Array(a)) = o.get(&k) { let e = a[r.below(a.len() as u64) as usize].clone(); o2.insert(k, e); }
                return Some(Value::Object(o2));
            }
            for (k, x) in o.iter() { if let Some(y) = unwrap_member(r, x) { let mut o2 = o.clone(); o2.insert(k.clone(), y); return Some(Value::Object(o2)); } }
            None
        }
        Value::Array(a) => { for (i, x) in a.iter().enumerate() { if let Some(y) = unwrap_member(r, x) { let mut a2 = a.clone(); a2[i] = y; return Some(Value::Array(a2)); } } None }
        _ => None,
    }
}

pub fn retype(r: &mut Rng, n: &Number) -> Number {
    match n {
        Number::UInt64(0) | Number::Int64(0) => if r.chance(1, 2) { Number::Float64(-0.0) } else { Number::Float64(0.0) },
        Number::UInt64(u) if *u <= i64::MAX as u64 => if r.chance(1, 2) { Number::Int64(*u as i64) } else { Number::Float64(*u as f64) },
        Number::Int64(i) if *i >= 0 => if r.chance(1, 2) { Number::UInt64(*i as u64) } else { Number::Float64(*i as f64) },
        Number::Int64(i) => Number::Float64(*i as f64),
        Number::UInt64(u) => Number::Float64(*u as f64),
        Number::Float64(f) if *f == 0.0 => match r.below(3) { 0 => Number::Float64(-*f), 1 => Number::Int64(0), _ => Number::UInt64(0) },
        Number::Float64(f) => if f.fract() == 0.0 && f.abs() < 9e18 { Number::Int64(*f as i64) } else { Number::Float64(-*f) },
    }
}

pub fn mutate(r: &mut Rng, c: &DocCfg, v: &Value<'static>) -> Value<'static> {
    match v {
        Value::Array(vs) => {
            let mut vs = vs.clone();
            // an array replaced by one of its own elements (the bare-scalar rule must not apply below the top)
            if !vs.is_empty() && r.chance(1, 9) { return vs[r.below(vs.len() as u64) as usize].clone(); }
            match r.below(7) {
                0 if !vs.is_empty() => { let i = r.below(vs.len() as u64) as usize; vs.remove(i); }
                1 if !vs.is_empty() => { let i = r.below(vs.len() as u64) as usize; let x = vs[i].clone(); vs.push(x); }
                2 if vs.len() > 1 => { vs.reverse(); }
                3 => { vs.push(gen_value(r, c, 1)); }
                4 if vs.len() > 1 => { let i = r.below(vs.len() as u64) as usize; let x = vs.remove(i); vs.insert(0, x); }
                _ if !vs.is_empty() => { let i = r.below(vs.len() as u64) as usize; vs[i] = mutate(r, c, &vs[i].clone()); }
                _ => { vs.push(gen_scalar(r, c)); }
            }
            Value::Array(vs)
        }
        Value::Object(o) => {
            let mut o = o.clone();
            // a key re-spelled in the other letter case (names are matched exactly, except where a flag says otherwise)
            if !o.is_empty() && r.chance(1, 8) {
                let k = o.keys().nth(r.below(o.len() as u64) as usize).unwrap().clone();
                let k2: String = k.chars().map(|ch| if ch.is_ascii_lowercase() { ch.to_ascii_uppercase() } else { ch.to_ascii_lowercase() }).collect();
                if k2 != k && !o.contains_key(&k2) { let x = o.remove(&k).unwrap(); o.insert(k2, x); return Value::Object(o); }
            }
            match r.below(5) {
                0 if !o.is_empty() => { let k = o.keys().nth(r.below(o.len() as u64) as usize).unwrap().clone(); o.remove(&k); }
                1 => { o.insert(gen_key(r), gen_value(r, c, 1)); }
                _ if !o.is_empty() => { let k = o.keys().nth(r.below(o.len() as u64) as usize).unwrap().clone(); let x = mutate(r, c, &o[&k].clone()); o.insert(k, x); }
                _ => { o.insert(gen_key(r), gen_scalar(r, c)); }
            }
            Value::Object(o)
        }
        // the neighbouring double (one unit in the last place up or down), of either sign
        Value::Number(Number::Float64(f)) if f.is_finite() && r.chance(1, 3) => { let b = f.to_bits(); let nb = if r.chance(1, 2) { b.wrapping_add(1) } else { b.wrapping_sub(1) }; let g = f64::from_bits(nb); Value::Number(Number::Float64(if g.is_finite() { g } else { *f })) }
        Value::Number(n) => if r.chance(1, 8) { Value::Array(vec![v.clone()]) } else { Value::Number(retype(r, n)) },
        Value::String(_) if r.chance(1, 8) => Value::Array(vec![v.clone()]),
        Value::String(s) => Value::String(std::borrow::Cow::Owned(format!("{}{}", s, r.pick(&["", "a", "\u{1}", "\u{0}", "z"])))),
        Value::Bool(b) => Value::Bool(!b),
        Value::Null => gen_scalar(r, c),
    }
}

/// prior buffer content: empty, random bytes, or a document (a batch of earlier results)
pub fn gen_prefix(r: &mut Rng, c: &DocCfg) -> String {
    match r.below(4) {
        0 => "-".to_string(),
        1 => hex(&gen_value(r, c, 1).to_vec()),
        _ => { let n = 1 + r.below(12) as usize; hex(&(0..n).map(|_| r.next() as u8).collect::<Vec<u8>>()) }
    }
}

/// a key path drawn from the document: follows existing members / indices (negative ones too),
/// sometimes steps past the end, into scalars, or uses the wrong kind of step
pub fn gen_keypath(r: &mut Rng, v: &Value) -> Vec<jsonb::keypath::KeyPath<'static>> {
    use jsonb::keypath::KeyPath;
    use std::borrow::Cow;
    let mut out = vec![];
    let mut cur = v;
    for _ in 0..8 {
        if r.chance(1, 6) { break; }
        match cur {
            Value::Array(vs) => {
                let n = vs.len() as i64;
                if r.chance(1, 8) { out.push(KeyPath::Name(Cow::Owned(gen_key(r)))); break; }
                let i = match r.below(10) {
                    0 => n, 1 => n + 1, 2 => -n - 1, 3 => -n, 4 => -1,
                    5 => *r.pick(&[i32::MIN as i64, i32::MAX as i64, -2147483647]),
                    _ => if n > 0 { r.range(-n, n - 1) } else { 0 },
                };
                out.push(KeyPath::Index(i as i32));
                let idx = if i < 0 { n + i } else { i };
                if idx >= 0 && idx < n { cur = &vs[idx as usize]; } else { break; }
            }
            Value::Object(ob) => {
                if r.chance(1, 8) { out.push(KeyPath::Index(r.range(-2, 2) as i32)); break; }
                let k = if !ob.is_empty() && r.chance(5, 6) { ob.keys().nth(r.below(ob.len() as u64) as usize).unwrap().clone() } else { gen_key(r) };
                if r.chance(1, 2) { out.push(KeyPath::Name(Cow::Owned(k.clone()))); } else { out.push(KeyPath::QuotedName(Cow::Owned(k.clone()))); }
                match ob.get(&k) { Some(x) => cur = x, None => break }
            }
            _ => {
                // step past a scalar
                if r.chance(1, 2) { out.push(KeyPath::Index(0)); } else { out.push(KeyPath::Name(Cow::Owned("a".into()))); }
                break;
            }
        }
    }
    out
}

/// the request stream of a property: deep documents and the small-scope exhaustive block first, then
/// the generated stream (`gen_sub`, which other properties' streams also draw from)
/// one double per binade of the whole exponent range (2^e, and 1.5 * 2^e where it exists), both signs for a subset:
/// the exact integer/float comparison shifts by the exponent, so every binade is a separate case
pub fn binade_floats() -> Vec<f64> {
    let mut v = vec![];
    for e in -1074i32..=1023 {
        let x = if e >= -1022 { f64::from_bits(((e + 1023) as u64) << 52) } else { f64::from_bits(1u64 << (e + 1074)) };
        v.push(x);
        if e >= -1073 { v.push(x * 1.5); }
        if e % 3 == 0 || (-70..=70).contains(&e) { v.push(-x); }
    }
    v
}

pub fn gen(prop: &str, tier: &str, seed: u64) -> Out {
    let mut r = Rng::new(seed ^ 0x5ca1ab1e ^ prop.bytes().fold(0u64, |a, b| a.wrapping_mul(131).wrapping_add(b as u64)));
    let mut o = Out::new();
    nested_lines(prop, &mut r, &mut o);
    small_scope_lines(prop, tier, &mut r, &mut o);
    let mut rest = gen_sub(prop, tier, seed);
    o.lines.append(&mut rest.lines);
    rest.lines = o.lines;
    rest
}

pub fn gen_sub(prop: &str, tier: &str, seed: u64) -> Out {
    let mut o = Out::new();
    let mut r = Rng::new(seed ^ prop.bytes().fold(0u64, |a, b| a.wrapping_mul(131).wrapping_add(b as u64)));
    let c = cfg(tier);
    match prop {
        "C01" => {
            for n in all_numbers() {
                let t = show_num(&n);
                o.push(format!("numenc {}", t));
                o.push(format!("rtdec {}", t));
                o.push(format!("encspec A2,{},{}", t, t));
            }
            for _ in 0..scale(tier, 1500, 60000) {
                let v = gen_value(&mut r, &c, 0);
                o.doc_stats(&v);
                let t = show_value(&v);
                o.push(format!("enc {}", t));
                o.push(format!("encspec {}", t));
                o.push(format!("rtdec {}", t));
                o.push(format!("rtenc {}", t));
                o.push(format!("dec {}", hex(&v.to_vec())));
            }
            // wide containers: counts around 2^8, 2^15, 2^16 and beyond (an entry word per element, two per member;
            // any bound or width smaller than the header's 29-bit count shows here), at the top and nested.  They go
            // through the round-trip ORACLES (real encoder and decoder against the specification value) only: the
            // implementation-level model decoder indexes a list and is quadratic in the count, as is the tree
            // parser of the driver on objects, so objects stay moderate
            {
                let mut wide: Vec<Value<'static>> = vec![];
                for n in [255usize, 256, 257, 32767, 32768, 32769, 65535, 65536, 65537, 70001] {
                    wide.push(Value::Array(vec![Value::Null; n]));
                    if n > 300 && n % 2 == 1 {
                        wide.push(Value::Array((0..n).map(|i| match i % 4 { 0 => Value::Number(Number::UInt64(i as u64)), 1 => Value::Bool(i % 8 == 1), 2 => Value::String(format!("s{}", i % 10).into()), _ => Value::Null }).collect()));
                    }
                }
                let mut m = std::collections::BTreeMap::new();
                m.insert("w".to_string(), Value::Array(vec![Value::Bool(true); 65537]));
                m.insert("z".to_string(), Value::Null);
                wide.push(Value::Array(vec![Value::Object(m), Value::Number(Number::UInt64(7))]));
                for v in wide {
                    let t = show_value(&v);
                    o.push(format!("rtdec {}", t));
                    o.push(format!("rtenc {}", t));
                    o.stat("doc:wide");
                }
                for n in [255usize, 257, 2049] {
                    let mut m = std::collections::BTreeMap::new();
                    for i in 0..n { m.insert(format!("k{:05}", i), if i % 3 == 0 { Value::Null } else { Value::Number(Number::Int64(-(i as i64))) }); }
                    let v = Value::Object(m);
                    o.push(format!("rtdec {}", show_value(&v)));
                    o.push(format!("dec {}", hex(&v.to_vec())));
                    o.stat("doc:wide");
                }
            }
        }
        "C18" => {
            for n in all_numbers() {
                let t = show_num(&n);
                o.push(format!("numenc {}", t));
                let mut b = Vec::new();
                n.compact_encode(&mut b).unwrap();
                o.push(format!("numdec {}", hex(&b)));
            }
            // every tag byte with every payload length 0..=9, boundary payload contents
            for tag in 0..=255u32 {
                if tag % 16 != 0 && tag > 0x70 && tag % 37 != 0 { continue; }
                for len in 0..=9usize {
                    for fill in [0u8, 0xff, 0x80, 0x7f, 0x01] {
                        let mut b = vec![tag as u8];
                        b.extend(std::iter::repeat(fill).take(len));
                        o.push(format!("numdec {}", hex(&b)));
                        if len == 0 { break; }
                    }
                }
            }
            o.push("numdec -".to_string());
            // exhaustive 16-bit payloads for the 2-byte int/uint forms (thorough), sampled otherwise
            let step = if tier == "thorough" { 1 } else { 97 };
            let mut x = 0u32;
            while x < 65536 {
                o.push(format!("numdec 40{:04x}", x));
                o.push(format!("numdec 50{:04x}", x));
                x += step;
            }
            // complete matrix over a core set (both zeros in all three representations, +-1, the ends of the
            // ranges, 2^53 and 2^63 neighbours, NaN, infinities): every ordered pair, in every tier
            {
                let core: Vec<Number> = vec![Number::Int64(0), Number::UInt64(0), Number::Float64(0.0), Number::Float64(-0.0), Number::Int64(1), Number::UInt64(1), Number::Float64(1.0),
                    Number::Int64(-1), Number::Float64(-1.0), Number::Float64(0.5), Number::Float64(-0.5), Number::Float64(1.5), Number::Int64(2), Number::UInt64(2),
                    Number::Int64(i64::MIN), Number::Int64(i64::MAX), Number::UInt64(i64::MAX as u64), Number::UInt64(i64::MAX as u64 + 1), Number::UInt64(u64::MAX),
                    Number::Float64(9223372036854775808.0), Number::Float64(-9223372036854775808.0), Number::Float64(18446744073709551616.0), Number::Float64(9007199254740992.0),
                    Number::Float64(1.0e19), Number::Float64(18446744073709549568.0), Number::UInt64(10000000000000000000), Number::UInt64(10000000000000000001),
                    Number::UInt64(9007199254740992), Number::UInt64(9007199254740993), Number::Int64(-9007199254740993), Number::Float64(f64::NAN), Number::Float64(f64::INFINITY),
                    Number::Float64(f64::NEG_INFINITY), Number::Float64(f64::MIN_POSITIVE), Number::Float64(5e-324), Number::Float64(-5e-324), Number::Float64(f64::MAX), Number::Float64(f64::MIN)];
                for a in &core { for b in &core {
                    o.push(format!("numcmp {} {}", show_num(a), show_num(b)));
                    o.push(format!("spec:numcmp {} {}", show_num(a), show_num(b)));
                } }
            }
            // every binade of the double range against a few integers, both orders (the exact integer/float
            // comparison shifts by the exponent: each binade is a case of its own)
            for f in binade_floats() {
                for i in [Number::Int64(0), Number::Int64(1), Number::Int64(-1), Number::UInt64(u64::MAX), Number::Int64(i64::MIN)] {
                    o.push(format!("numcmp {} {}", show_num(&i), show_num(&Number::Float64(f))));
                    o.push(format!("numcmp {} {}", show_num(&Number::Float64(f)), show_num(&i)));
                }
            }
            // the views of a stored number through the public casts: exact or absent, never another value
            for n in all_numbers().iter().chain([Number::Float64(9223372036854775808.0), Number::Float64(-9223372036854775808.0), Number::Float64(18446744073709551616.0), Number::Float64(9223372036854774784.0), Number::Float64(2.0), Number::Float64(-3.0), Number::Float64(0.5), Number::UInt64(9223372036854775808), Number::UInt64(9223372036854775809)].iter()) {
                o.push(format!("numcast {}", show_num(n)));
                let d = hex(&Value::Number(n.clone()).to_vec());
                for op in ["asi64", "asu64", "toi64", "tou64"] { o.push(format!("{} {}", op, d)); }
                for op in ["asf64", "tof64", "isi64", "isu64", "isf64"] { o.push(format!("t:{} {}", op, d)); }
            }
            // ordering: all pairs of boundary numbers, neighbours of each float, random triples
            let nums = all_numbers();
            let stride = if tier == "thorough" { 1 } else { 3 };
            for (i, a) in nums.iter().enumerate() {
                o.push(format!("numview {}", show_num(a)));
                for (j, b) in nums.iter().enumerate() {
                    if (i + j) % stride != 0 { continue; }
                    o.push(format!("numcmp {} {}", show_num(a), show_num(b)));
                    o.push(format!("spec:numcmp {} {}", show_num(a), show_num(b)));
                }
            }
            for _ in 0..scale(tier, 2000, 100000) {
                let a = gen_number(&mut r, true);
                // a number near `a` in another representation
                let b = match r.below(4) {
                    0 => retype(&mut r, &a),
                    1 => match &a { Number::Float64(f) => { let t = f.trunc(); if t.abs() < 1.8e19 && t >= 0.0 { Number::UInt64((t as u64).wrapping_add(r.below(3)).wrapping_sub(1)) } else if t.abs() < 9e18 { Number::Int64((t as i64).wrapping_add(r.range(-1, 1))) } else { gen_number(&mut r, true) } }
                                    Number::UInt64(u) => Number::Float64(f64::from_bits((*u as f64).to_bits().wrapping_add(r.below(3)).wrapping_sub(1))),
                                    Number::Int64(i) => Number::Float64(f64::from_bits((*i as f64).to_bits().wrapping_add(r.below(3)).wrapping_sub(1))) },
                    _ => gen_number(&mut r, true),
                };
                let c2 = if r.chance(1, 2) { retype(&mut r, &b) } else { gen_number(&mut r, true) };
                o.push(format!("numcmp {} {}", show_num(&a), show_num(&b)));
                o.push(format!("spec:numcmp {} {}", show_num(&a), show_num(&b)));
                o.push(format!("numlaws {} {} {}", show_num(&a), show_num(&b), show_num(&c2)));
                o.push(format!("numview {}", show_num(&b)));
            }
            for _ in 0..scale(tier, 3000, 200000) {
                let n = gen_number(&mut r, true);
                let t = show_num(&n);
                o.push(format!("numenc {}", t));
                o.push(format!("rtdec {}", t));
                let mut b = vec![*r.pick(&[0x00u8, 0x10, 0x20, 0x30, 0x40, 0x50, 0x60, 0x70, 0x41, 0xff])];
                let len = r.below(10);
                for _ in 0..len { b.push(r.next() as u8); }
                o.push(format!("numdec {}", hex(&b)));
            }
        }
        "C10" => {
            for _ in 0..scale(tier, 400, 12000) {
                let v = gen_value(&mut r, &c, 0);
                o.doc_stats(&v);
                let b = v.to_vec();
                o.push(format!("dec {}", hex(&b)));
                // every proper prefix (short documents) or sampled prefixes
                if b.len() <= 64 {
                    for k in 0..b.len() { o.push(format!("dec {}", hex(&b[..k]))); o.stat("fault:prefix"); }
                } else {
                    for _ in 0..16 { let k = r.below(b.len() as u64) as usize; o.push(format!("dec {}", hex(&b[..k]))); o.stat("fault:prefix"); }
                }
                for x in faults(&mut r, &b, 12) { o.push(format!("dec {}", hex(&x))); o.push(format!("t:fromslice {}", hex(&x))); o.stat("fault:mutated"); }
                for x in layout_faults(&mut r, &b, 6) { o.push(format!("dec {}", hex(&x))); o.push(format!("t:fromslice {}", hex(&x))); o.stat("fault:layout"); }
                // proper prefixes through from_slice: a prefix of a valid encoding is never a document
                if b.len() <= 64 { for k in 1..b.len() { o.push(format!("t:fromslice {}", hex(&b[..k]))); o.push(format!("fsreject {}", hex(&b[..k]))); } }
            }
            // text fallback: JSON text (not starting with a space) through from_slice, with the
            // intended value; scalars whose bytes 4..8 look like an entry word included
            for _ in 0..scale(tier, 400, 12000) {
                let v = if r.chance(1, 3) { gen_scalar(&mut r, &c) } else { gen_value(&mut r, &c, 0) };
                if crate::gen_text::has_nan(&v) { continue; }
                let want = show_value(&crate::gen_text::denoted(&v));
                for st in [crate::gen_text::Style::Strict, crate::gen_text::Style::Lenient] {
                    let mut t = String::new();
                    crate::gen_text::render_json(&mut r, &v, st, &mut t);
                    let t = t.trim_start_matches(' ');
                    o.push(format!("fsexpect {} {}", hex(t.as_bytes()), want));
                    o.push(format!("t:fromslice {}", hex(t.as_bytes())));
                    o.stat("text-fallback");
                }
            }
            // root scalars whose payload is itself JSON text, every proper prefix
            for t in ["2024", "12", "true", "null", "[1]", "{}", "\"x\"", "1e5", "-7", "0"] {
                for v in [Value::String(std::borrow::Cow::Borrowed(t)), Value::Bool(false), Value::Bool(true), Value::Null, Value::Number(Number::UInt64(0))] {
                    let b = v.to_vec();
                    for k in 1..b.len() { o.push(format!("fsreject {}", hex(&b[..k]))); o.push(format!("t:fromslice {}", hex(&b[..k]))); }
                }
            }
            for t in ["12345678", "3.14159265", "-1234567", "\"NoOKay\"", "\"abc0xy\"", "[12]", "[1,2]", "{\"a\":1}", "1234", "12340000", "\"\\u0041bc@@@@\"", "1e5", "true", "null", "\t1", "\n[1]", "[[[[1]]]]", "{}", "[]", "0"] {
                let pv = jsonb::parse_value(t.as_bytes()).unwrap();
                o.push(format!("fsexpect {} {}", hex(t.as_bytes()), show_value(&pv)));
            }
            // flat documents of numbers and of multi-byte keys: every entry resized / key boundaries moved
            for _ in 0..scale(tier, 150, 4000) {
                let v = if r.chance(1, 2) {
                    Value::Array((0..1 + r.below(4)).map(|_| Value::Number(gen_number(&mut r, true))).collect())
                } else {
                    let mut m = std::collections::BTreeMap::new();
                    for _ in 0..2 + r.below(3) { m.insert(r.pick(&["é", "a", "中", "文", "x", "€", "ab", "😀", "ñu", "", "zß"]).to_string(), gen_scalar(&mut r, &c)); }
                    Value::Object(m)
                };
                let b = v.to_vec();
                for x in layout_faults(&mut r, &b, 10) { o.push(format!("dec {}", hex(&x))); o.stat("fault:layout"); }
            }
            for _ in 0..scale(tier, 500, 20000) {
                let n = r.below(24) as usize;
                let mut x: Vec<u8> = (0..n).map(|_| r.next() as u8).collect();
                if n >= 4 && r.chance(3, 4) {
                    x[0] = *r.pick(&[0x20u8, 0x40, 0x80]);
                    x[1] = 0; x[2] = 0; x[3] = r.below(4) as u8;
                }
                o.push(format!("dec {}", hex(&x)));
                o.stat("fault:random-bytes");
            }
        }
        "C05" => {
            for _ in 0..scale(tier, 500, 15000) {
                let v = gen_value(&mut r, &c, 0);
                o.doc_stats(&v);
                let d = hex(&v.to_vec());
                let mut both = |o: &mut Out, l: String| { o.push(format!("spec:{}", l)); o.push(l); };
                for op in ["arrlen", "keys", "each", "vals", "typeof", "asnull", "asbool", "asnum", "asstr", "asi64", "asu64", "isarr", "isobj"] {
                    both(&mut o, format!("{} {}", op, d));
                }
                for op in ["tobool", "toi64", "tou64"] { o.push(format!("{} {}", op, d)); }
                for op in ["isnull", "isbool", "isnum", "isstr", "isi64", "isu64", "isf64", "asf64", "tof64"] { o.push(format!("t:{} {}", op, d)); }
                o.push(format!("t:caststr {} {}", d, crate::ops_text::fmt_table(&jsonb::from_slice(&v.to_vec()).unwrap_or(Value::Null))));
                both(&mut o, format!("travstr {} eq:-", d));
                match &v {
                    Value::Array(vs) => {
                        for i in 0..vs.len() + 2 { both(&mut o, format!("getidx {} {}", d, i)); }
                        both(&mut o, format!("getidx {} {}", d, r.next() >> r.below(64)));
                        // indices that alias small or negative ones after a narrowing cast
                        let k = r.below(vs.len() as u64 + 1);
                        for big in [(1u64 << 32) + k, (1u64 << 31) + k, u64::MAX - k, (1u64 << 32) - 1 - k, (1u64 << 63) + k, (1u64 << 16) + k] {
                            both(&mut o, format!("getidx {} {}", d, big));
                        }
                    }
                    _ => { both(&mut o, format!("getidx {} {}", d, r.below(3))); }
                }
                // names: every key, case variants, prefixes, pool keys
                let mut names: Vec<String> = vec![];
                if let Value::Object(ob) = &v {
                    for k in ob.keys() {
                        names.push(k.clone());
                        names.push(k.to_uppercase());
                        names.push(k.to_lowercase());
                        if !k.is_empty() { let mut e = k.len() - 1; while !k.is_char_boundary(e) { e -= 1; } names.push(k[..e].to_string()); }
                        names.push(format!("{}a", k));
                    }
                }
                for _ in 0..3 { names.push(gen_key(&mut r)); }
                for n in &names {
                    both(&mut o, format!("getname {} {} 0", d, hex(n.as_bytes())));
                    both(&mut o, format!("getname {} {} 1", d, hex(n.as_bytes())));
                }
                // key paths drawn from the document: depth up to document depth + 1
                for _ in 0..6 {
                    let kp = gen_keypath(&mut r, &v);
                    both(&mut o, format!("getkp {} {}", d, crate::ops_access::show_keypath(&kp)));
                }
                // key existence
                let mut ks: Vec<Vec<u8>> = names.iter().take(4).map(|s| s.as_bytes().to_vec()).collect();
                if let Value::Array(vs) = &v { for x in vs.iter().take(3) { if let Value::String(s) = x { ks.push(s.as_bytes().to_vec()); } } }
                if r.chance(1, 8) { ks.push(vec![0xff]); }
                for n in 0..=ks.len().min(3) {
                    let sel: Vec<String> = (0..n).map(|_| { let k: &Vec<u8> = r.pick(ks.as_slice()); hex(k) }).collect();
                    let arg = if sel.is_empty() { "[]".to_string() } else { sel.join(";") };
                    both(&mut o, format!("existsall {} {}", d, arg));
                    both(&mut o, format!("existsany {} {}", d, arg));
                }
                // string traversal
                let probe = gen_string(&mut r, false);
                both(&mut o, format!("travstr {} eq:{}", d, hex(probe.as_bytes())));
                both(&mut o, format!("travstr {} has:{:02x}", d, *r.pick(&[0x61u8, 0x41, 0x00, 0x22, 0xc3, 0x6b, 0x7a])));
                both(&mut o, format!("travstr {} len:{}", d, r.below(6)));
            }
            for s in STRINGS.iter().chain(["1e5", ".5", "5.", "-.5e-3", "e5", ".", "+inf", "-Infinity", "nAn", "1e", "1e+", "0x10", "1_000", "١٢", " 1", "1 ", "+0", "-0", "00012", "9223372036854775807", "9223372036854775808", "-9223372036854775809", "18446744073709551616", "1e400", "-1e400", "4.9e-324", "2.4e-324", "2.5e-324"].iter()) {
                o.push(format!("strf64 {}", hex(s.as_bytes())));
                let dv = Value::String(std::borrow::Cow::Owned(s.to_string())).to_vec();
                for op in ["tobool", "toi64", "tou64"] { o.push(format!("{} {}", op, hex(&dv))); }
                o.push(format!("t:tof64 {}", hex(&dv)));
                o.push(format!("t:caststr {} -", hex(&dv)));
            }
            // member lookup ignoring ASCII case, at the edges of the letter ranges: for every ASCII byte b the name
            // `a b 0` against the key `a (b xor 0x20) 0` — equal ignoring case exactly when b is a letter (`@ [ \ ] ^ _`
            // and the backtick, `{ | } ~` and DEL are one bit away from letters' neighbours), both flags, and with an exact
            // match present as well
            for b in 0u8..0x80 {
                let (nb, kb) = (b, b ^ 0x20);
                let name = vec![b'a', nb, b'0'];
                let key = String::from_utf8(vec![b'a', kb, b'0']).unwrap();
                for with_exact in [false, true] {
                    let mut m = std::collections::BTreeMap::new();
                    m.insert(key.clone(), Value::Number(Number::UInt64(1)));
                    m.insert("k".to_string(), Value::Number(Number::UInt64(2)));
                    if with_exact { m.insert(String::from_utf8(name.clone()).unwrap(), Value::Number(Number::UInt64(3))); }
                    let v = Value::Object(m);
                    let d = hex(&v.to_vec());
                    for flag in [0, 1] {
                        o.push(format!("spec:getname {} {} {}", d, hex(&name), flag));
                        o.push(format!("getname {} {} {}", d, hex(&name), flag));
                    }
                    o.push(format!("tj {} getname {} {} 1", b, d, hex(&name)));
                }
            }
            // scalar roots of every kind through every cast (the generated documents are mostly containers)
            for _ in 0..scale(tier, 300, 6000) {
                let v = gen_scalar(&mut r, &c);
                let d = hex(&v.to_vec());
                for op in ["isnull", "isbool", "isnum", "isstr", "isi64", "isu64", "isf64", "asf64", "tof64"] { o.push(format!("t:{} {}", op, d)); }
                o.push(format!("t:caststr {} {}", d, crate::ops_text::fmt_table(&jsonb::from_slice(&v.to_vec()).unwrap_or(Value::Null))));
                for op in ["asnum", "asi64", "asu64", "asstr", "asbool", "asnull", "tobool", "toi64", "tou64"] { o.push(format!("{} {}", op, d)); }
            }
        }
        "C06" | "C13" => {
            let sets = prop == "C13";
            // complete matrix of small documents of every kind (an empty container against every other kind,
            // objects against arrays, scalars), into empty and non-empty buffers
            {
                let docs: Vec<Vec<u8>> = SMALL_DOCS.iter().map(|t| jsonb::parse_value(t.as_bytes()).unwrap().to_vec()).collect();
                for da in &docs { for db in &docs {
                    let (ha, hb) = (hex(da), hex(db));
                    let pre = if r.chance(1, 2) { "-".to_string() } else { gen_prefix(&mut r, &c) };
                    // the same pair with JSON text in either position (the text branches are separate code)
                    let (ta, tb) = (hex(jsonb::to_string(da).as_bytes()), hex(jsonb::to_string(db).as_bytes()));
                    if sets {
                        for opn in ["inter", "except"] { o.push(format!("t:{} {} {} {}", opn, pre, ta, hb)); o.push(format!("t:{} {} {} {}", opn, pre, ha, tb)); o.push(format!("t:{} {} {} {}", opn, pre, ta, tb)); }
                        o.push(format!("t:overlap {} {}", ta, tb)); o.push(format!("t:overlap {} {}", ha, tb));
                    } else {
                        o.push(format!("t:concat {} {} {}", pre, ta, hb)); o.push(format!("t:concat {} {} {}", pre, ha, tb)); o.push(format!("t:concat {} {} {}", pre, ta, tb));
                    }
                    if sets {
                        for opn in ["inter", "except"] { o.push(format!("spec:{} {} {} {}", opn, pre, ha, hb)); o.push(format!("{} {} {} {}", opn, pre, ha, hb)); }
                        o.push(format!("spec:overlap {} {}", ha, hb)); o.push(format!("overlap {} {}", ha, hb));
                    } else {
                        o.push(format!("spec:concat {} {} {}", pre, ha, hb)); o.push(format!("concat {} {} {}", pre, ha, hb));
                        for pos in [0, -1, 1] { o.push(format!("spec:arrins {} {} {} {}", pre, ha, pos, hb)); o.push(format!("arrins {} {} {} {}", pre, ha, pos, hb)); }
                        o.push(format!("spec:objins {} {} 61 {} 1", pre, ha, hb)); o.push(format!("objins {} {} 61 {} 1", pre, ha, hb));
                    }
                } }
            }
            // one-document set function on text: the same number in several encodings inside one array, edge documents
            if sets {
                for t in SMALL_DOCS.iter().chain(EDGE_DOCS.iter()).chain(["[1,1.0,1]", "[{\"k\":2},{\"k\":2.0}]", "[0,0.0,-0.0,0e0]", "[100,1e2,100.0]", "[[1],[1.0],[1]]", "[\"a\",\"a\",1,1]"].iter()) {
                    let x = hex(t.as_bytes());
                    o.push(format!("t:distinct - {}", x)); o.push(format!("t:distinct 0102 {}", x)); o.push(format!("tj 5 distinct - {}", hex(&jsonb::parse_value(t.as_bytes()).unwrap().to_vec())));
                }
            }
            // wide containers (more than 32 members: sorts, maps and builders change strategy with size):
            // two objects with shared and private keys, arrays with repeated elements in shuffled order
            for _ in 0..scale(tier, 12, 200) {
                let n = 17 + r.below(30) as usize;
                let mut lo = std::collections::BTreeMap::new();
                let mut ro = std::collections::BTreeMap::new();
                for i in 0..n {
                    let k = format!("k{:02}", i);
                    if !r.chance(1, 5) { lo.insert(k.clone(), Value::String(std::borrow::Cow::Owned(format!("L{}", i)))); }
                    if !r.chance(1, 5) { ro.insert(k, Value::String(std::borrow::Cow::Owned(format!("R{}", i)))); }
                }
                let (l, rr) = (Value::Object(lo.clone()), Value::Object(ro.clone()));
                let (hl, hr) = (hex(&l.to_vec()), hex(&rr.to_vec()));
                let pre = gen_prefix(&mut r, &c);
                let mut xs: Vec<Value> = (0..n).map(|i| Value::Number(Number::UInt64((i % 7) as u64))).collect();
                let mut ys: Vec<Value> = xs.iter().rev().cloned().chain((0..5).map(|i| Value::Number(Number::UInt64(100 + i)))).collect();
                for i in (1..ys.len()).rev() { let j = r.below(i as u64 + 1) as usize; ys.swap(i, j); }
                for i in (1..xs.len()).rev() { let j = r.below(i as u64 + 1) as usize; xs.swap(i, j); }
                let (hx, hy) = (hex(&Value::Array(xs).to_vec()), hex(&Value::Array(ys).to_vec()));
                if sets {
                    for (a, b) in [(&hx, &hy), (&hy, &hx), (&hl, &hr)] {
                        for opn in ["inter", "except"] { o.push(format!("spec:{} {} {} {}", opn, pre, a, b)); o.push(format!("{} {} {} {}", opn, pre, a, b)); }
                        o.push(format!("spec:overlap {} {}", a, b)); o.push(format!("overlap {} {}", a, b));
                    }
                    o.push(format!("spec:distinct {} {}", pre, hx)); o.push(format!("distinct {} {}", pre, hx));
                } else {
                    for (a, b) in [(&hl, &hr), (&hr, &hl), (&hx, &hy), (&hl, &hx)] { o.push(format!("spec:concat {} {} {}", pre, a, b)); o.push(format!("concat {} {} {}", pre, a, b)); }
                    let keys: Vec<String> = lo.keys().filter(|_| r.chance(1, 2)).map(|k| hex(k.as_bytes())).chain(["zz", "a", "k"].iter().map(|k| hex(k.as_bytes()))).collect();
                    for opn in ["objdel", "objpick"] { o.push(format!("spec:{} {} {} {}", opn, pre, hl, keys.join(";"))); o.push(format!("{} {} {} {}", opn, pre, hl, keys.join(";"))); }
                    o.push(format!("spec:objins {} {} {} {} 1", pre, hl, hex(b"k05"), hr)); o.push(format!("objins {} {} {} {} 1", pre, hl, hex(b"k05"), hr));
                }
            }
            for _ in 0..scale(tier, 500, 15000) {
                let v = gen_value(&mut r, &c, 0);
                let w = derive(&mut r, &c, &v);
                o.doc_stats(&v);
                let d = hex(&v.to_vec());
                let e = hex(&w.to_vec());
                let pre = gen_prefix(&mut r, &c);
                let mut both = |o: &mut Out, l: String| { o.push(format!("spec:{}", l)); o.push(l); };
                if sets {
                    if let Value::Array(xs) = &v {
                        // first list strictly shorter than the second, common elements in another order
                        let mut ys: Vec<Value> = xs.iter().cloned().chain((0..1 + r.below(3)).map(|_| gen_scalar(&mut r, &c))).collect();
                        for i in (1..ys.len()).rev() { let j = r.below(i as u64 + 1) as usize; ys.swap(i, j); }
                        let hy = hex(&Value::Array(ys).to_vec());
                        both(&mut o, format!("inter {} {} {}", pre, d, hy));
                        both(&mut o, format!("except {} {} {}", pre, d, hy));
                        both(&mut o, format!("inter {} {} {}", pre, hy, d));
                    }
                    {
                        // the first list repeats an element (scalar, object or array) that IS the second operand:
                        // a non-array counts as a one-element list, so exactly one occurrence is matched
                        let e0 = match r.below(4) { 0 => gen_scalar(&mut r, &c), 1 => { let mut m = std::collections::BTreeMap::new(); for _ in 0..r.below(3) { m.insert(gen_key(&mut r), gen_scalar(&mut r, &c)); } Value::Object(m) }, 2 => Value::Array((0..r.below(3)).map(|_| gen_scalar(&mut r, &c)).collect()), _ => w.clone() };
                        let mut xs: Vec<Value> = vec![e0.clone(), gen_scalar(&mut r, &c), e0.clone()];
                        if r.chance(1, 2) { xs.push(e0.clone()); }
                        if r.chance(1, 2) { xs.insert(0, gen_scalar(&mut r, &c)); }
                        let hx = hex(&Value::Array(xs).to_vec());
                        let he = hex(&e0.to_vec());
                        let hee = hex(&Value::Array(vec![e0.clone(), e0.clone()]).to_vec());
                        for snd in [&he, &hee] {
                            both(&mut o, format!("inter {} {} {}", pre, hx, snd));
                            both(&mut o, format!("except {} {} {}", pre, hx, snd));
                            both(&mut o, format!("overlap {} {}", hx, snd));
                            both(&mut o, format!("inter {} {} {}", pre, snd, hx));
                            both(&mut o, format!("except {} {} {}", pre, snd, hx));
                        }
                    }
                    both(&mut o, format!("distinct {} {}", pre, d));
                    both(&mut o, format!("inter {} {} {}", pre, d, e));
                    both(&mut o, format!("except {} {} {}", pre, d, e));
                    both(&mut o, format!("inter {} {} {}", pre, e, d));
                    both(&mut o, format!("except {} {} {}", pre, e, d));
                    both(&mut o, format!("overlap {} {}", d, e));
                    both(&mut o, format!("overlap {} {}", e, d));
                    both(&mut o, format!("inter {} {} {}", pre, d, d));
                    // the same questions with JSON text in either position (text branch, mixed dispatch)
                    if !crate::gen_text::has_nan(&v) && !crate::gen_text::has_nan(&w) && r.chance(1, 2) {
                        let (mut tv, mut tw) = (String::new(), String::new());
                        crate::gen_text::render_json(&mut r, &v, crate::gen_text::Style::Strict, &mut tv);
                        crate::gen_text::render_json(&mut r, &w, crate::gen_text::Style::Strict, &mut tw);
                        let (tv, tw) = (hex(tv.trim_start_matches(' ').as_bytes()), hex(tw.trim_start_matches(' ').as_bytes()));
                        // the JSONB side must be the encoding OF THE TEXT (non-negative integers read unsigned)
                        let dv = hex(&jsonb::parse_value(&unhex(&tv).unwrap()).unwrap().to_vec());
                        let dw = hex(&jsonb::parse_value(&unhex(&tw).unwrap()).unwrap().to_vec());
                        o.push(format!("t:distinct {} {}", pre, tv));
                        for (a, b) in [(&tv, &tw), (&tv, &dw), (&dv, &tw), (&tw, &dv)] {
                            o.push(format!("t:inter {} {} {}", pre, a, b));
                            o.push(format!("t:except {} {} {}", pre, a, b));
                            o.push(format!("t:overlap {} {}", a, b));
                        }
                        for opn in ["distinct", "inter", "except", "overlap"] {
                            if opn == "distinct" { o.push(format!("tj {} {} {} {}", r.next() % 1000000, opn, pre, dv)); }
                            else if opn == "overlap" { o.push(format!("tj {} {} {} {}", r.next() % 1000000, opn, dv, dw)); }
                            else { o.push(format!("tj {} {} {} {} {}", r.next() % 1000000, opn, pre, dv, dw)); }
                        }
                    }
                    continue;
                }
                both(&mut o, format!("concat {} {} {}", pre, d, e));
                both(&mut o, format!("concat {} {} {}", pre, e, d));
                both(&mut o, format!("strip {} {}", pre, d));
                let mut names: Vec<String> = vec![gen_key(&mut r), gen_string(&mut r, false)];
                if let Value::Object(ob) = &v { for k in ob.keys().take(3) { names.push(k.clone()); } }
                if let Value::Array(vs) = &v { for x in vs.iter().take(3) { if let Value::String(s) = x { names.push(s.to_string()); } } }
                for n in &names { both(&mut o, format!("delname {} {} {}", pre, d, hex(n.as_bytes()))); }
                let len = match &v { Value::Array(vs) => vs.len() as i64, _ => 1 };
                for i in [0, len - 1, len, len + 1, -1, -len, -len - 1, i32::MIN as i64, i32::MAX as i64, r.range(-len - 2, len + 2)] {
                    both(&mut o, format!("delidx {} {} {}", pre, d, i));
                    both(&mut o, format!("arrins {} {} {} {}", pre, d, i, e));
                }
                // the text branch of the same editors (tree implementation) on the text of the document
                let txt: Option<String> = if crate::gen_text::has_nan(&v) { None } else { let mut t = String::new(); crate::gen_text::render_json(&mut r, &v, crate::gen_text::Style::Strict, &mut t); Some(hex(t.trim_start_matches(' ').as_bytes())) };
                for _ in 0..5 {
                    let kp = gen_keypath(&mut r, &v);
                    both(&mut o, format!("delkp {} {} {}", pre, d, crate::ops_access::show_keypath(&kp)));
                    if let Some(t) = &txt { o.push(format!("t:delkp {} {} {}", pre, t, crate::ops_access::show_keypath(&kp))); }
                }
                if let Some(t) = &txt {
                    // every index from -len-1 to len as a one-step key path, and as a step below the root
                    for i in -len - 1..=len { o.push(format!("t:delkp {} {} i{}", pre, t, i)); o.push(format!("t:delidx {} {} {}", pre, t, i)); }
                    o.push(format!("t:strip {} {}", pre, t));
                    for n in names.iter().take(2) { o.push(format!("t:delname {} {} {}", pre, t, hex(n.as_bytes()))); }
                    o.push(format!("tj {} strip {} {}", r.next() % 1000000, pre, d));
                    let kp = gen_keypath(&mut r, &v);
                    o.push(format!("tj {} delkp {} {} {}", r.next() % 1000000, pre, d, crate::ops_access::show_keypath(&kp)));
                }
                for n in &names {
                    both(&mut o, format!("objins {} {} {} {} 0", pre, d, hex(n.as_bytes()), e));
                    both(&mut o, format!("objins {} {} {} {} 1", pre, d, hex(n.as_bytes()), e));
                }
                for n in 0..=names.len().min(3) {
                    let sel: Vec<String> = (0..n).map(|_| hex(r.pick(names.as_slice()).as_bytes())).collect();
                    let arg = if sel.is_empty() { "[]".to_string() } else { sel.join(";") };
                    both(&mut o, format!("objdel {} {} {}", pre, d, arg));
                    both(&mut o, format!("objpick {} {} {}", pre, d, arg));
                }
                // build from parts: sorted, unsorted and repeated keys
                let parts: Vec<Value> = (0..r.below(5)).map(|_| gen_value(&mut r, &c, 1)).collect();
                let docs: Vec<String> = parts.iter().map(|p| hex(&p.to_vec())).collect();
                both(&mut o, format!("barr {} {}", pre, if docs.is_empty() { "[]".to_string() } else { docs.join(";") }));
                let kvs: Vec<String> = docs.iter().map(|dd| format!("{}:{}", hex(r.pick(&["b", "a", "", "é", "a", "k", "ab"]).as_bytes()), dd)).collect();
                both(&mut o, format!("bobj {} {}", pre, if kvs.is_empty() { "[]".to_string() } else { kvs.join(";") }));
                if r.chance(1, 25) {
                    // many parts, few distinct keys, not in order: the LAST part of each key must win
                    let n = 33 + r.below(40) as usize;
                    let keys = ["b", "a", "c", "", "é"];
                    let nk = 2 + r.below(3) as usize;
                    let kvs: Vec<String> = (0..n).map(|i| format!("{}:{}", hex(keys[i % nk].as_bytes()), hex(&Value::Number(Number::UInt64(i as u64)).to_vec()))).collect();
                    both(&mut o, format!("bobj {} {}", pre, kvs.join(";")));
                }
            }
        }
        "C04" | "C12" | "C14" => {
            // complete matrix of small documents of every kind (empty containers against every kind, nested
            // empties, permuted and re-typed elements), JSONB and text
            {
                let docs: Vec<(Vec<u8>, &str)> = SMALL_DOCS.iter().map(|t| (jsonb::parse_value(t.as_bytes()).unwrap().to_vec(), *t)).collect();
                for (da, ta) in &docs { for (db, tb) in &docs {
                    let (ha, hb) = (hex(da), hex(db));
                    match prop {
                        "C04" => { o.push(format!("spec:cmp {} {}", ha, hb)); o.push(format!("cmp {} {}", ha, hb)); o.push(format!("t:cmp {} {}", ha, hex(tb.as_bytes()))); o.push(format!("t:cmp {} {}", hex(ta.as_bytes()), hb)); }
                        "C12" => { o.push(format!("spec:contains {} {}", ha, hb)); o.push(format!("contains {} {}", ha, hb)); o.push(format!("t:contains {} {}", ha, hex(tb.as_bytes()))); o.push(format!("t:contains {} {}", hex(ta.as_bytes()), hb)); }
                        _ => { o.push(format!("keyorder {} {}", ha, hb)); }
                    }
                } }
            }
            // every binade of the double range against the integers 0, 1, -1 (C04: compare against the specification;
            // C14: compare against the order of the keys)
            if prop != "C12" {
                for f in binade_floats() {
                    let hf = hex(&Value::Number(Number::Float64(f)).to_vec());
                    for i in [0i64, 1, -1] {
                        let hi = hex(&Value::Number(Number::Int64(i)).to_vec());
                        if prop == "C04" {
                            o.push(format!("spec:cmp {} {}", hi, hf)); o.push(format!("cmp {} {}", hi, hf)); o.push(format!("cmp {} {}", hf, hi));
                        } else {
                            o.push(format!("keyorder {} {}", hi, hf)); o.push(format!("keyorder {} {}", hf, hi));
                        }
                    }
                }
            }
            // object members holding arrays against the same object with one element in the member's place,
            // in every representation (the bare-scalar rule must not fire below the top level)
            if prop == "C12" {
                for _ in 0..scale(tier, 250, 6000) {
                    let a0 = gen_value(&mut r, &c, 0);
                    let a = if matches!(a0, Value::Object(_)) && r.chance(1, 2) { a0 } else { let mut m = std::collections::BTreeMap::new(); m.insert(gen_key(&mut r), Value::Array((0..1 + r.below(3)).map(|_| gen_scalar(&mut r, &c)).collect())); if r.chance(1, 2) { m.insert(gen_key(&mut r), a0); } Value::Object(m) };
                    let b = match unwrap_member(&mut r, &a) { Some(b) => b, None => continue };
                    if crate::gen_text::has_nan(&a) || crate::gen_text::has_nan(&b) { continue; }
                    let (ha, hb) = (hex(&a.to_vec()), hex(&b.to_vec()));
                    o.push(format!("spec:contains {} {}", ha, hb)); o.push(format!("contains {} {}", ha, hb));
                    let mut ta = String::new(); let mut tb = String::new();
                    crate::gen_text::render_json(&mut r, &a, crate::gen_text::Style::Strict, &mut ta);
                    crate::gen_text::render_json(&mut r, &b, crate::gen_text::Style::Strict, &mut tb);
                    let (ta, tb) = (hex(ta.trim_start_matches(' ').as_bytes()), hex(tb.trim_start_matches(' ').as_bytes()));
                    o.push(format!("t:contains {} {}", ta, tb)); o.push(format!("t:contains {} {}", ta, hb)); o.push(format!("t:contains {} {}", ha, tb));
                    o.push(format!("tj {} contains {} {}", r.next() % 1000000, ha, hb));
                }
            }
            // every ordered pair of a core set of numbers (both zeros in every representation, NaN of either
            // sign, infinities, 2^53 neighbours), bare and as a member of an array and of an object
            if prop != "C14" {
                let nums: Vec<Number> = vec![Number::UInt64(0), Number::Float64(0.0), Number::Float64(-0.0), Number::UInt64(1), Number::Float64(1.0), Number::Int64(-1), Number::Float64(-1.0),
                    Number::Float64(f64::NAN), Number::Float64(f64::from_bits(0xfff8000000000000)), Number::Float64(f64::INFINITY), Number::Float64(f64::NEG_INFINITY),
                    Number::UInt64(9007199254740992), Number::UInt64(9007199254740993), Number::Float64(9007199254740992.0), Number::Int64(i64::MIN), Number::UInt64(u64::MAX), Number::Float64(18446744073709551616.0),
                    // the binade [2^63, 2^64): integers and doubles interleave there (u64 beyond i64::MAX, -2^63)
                    Number::Float64(9223372036854775808.0), Number::Float64(-9223372036854775808.0), Number::Float64(1.0e19), Number::Float64(18446744073709549568.0),
                    Number::UInt64(9223372036854775808), Number::UInt64(9223372036854775809), Number::Int64(i64::MAX), Number::UInt64(10000000000000000000), Number::UInt64(10000000000000000001)];
                for x in &nums { for y in &nums {
                    for wrap in 0..3 {
                        let w = |n: &Number| -> Value<'static> { let v = Value::Number(n.clone()); match wrap { 0 => v, 1 => Value::Array(vec![Value::Null, v]), _ => { let mut m = std::collections::BTreeMap::new(); m.insert("k".to_string(), v); m.insert("z".to_string(), Value::Bool(true)); Value::Object(m) } } };
                        let (ha, hb) = (hex(&w(x).to_vec()), hex(&w(y).to_vec()));
                        let opn = if prop == "C04" { "cmp" } else { "contains" };
                        o.push(format!("spec:{} {} {}", opn, ha, hb)); o.push(format!("{} {} {}", opn, ha, hb));
                    }
                } }
            }
            for _ in 0..scale(tier, 700, 20000) {
                let a = gen_value(&mut r, &c, 0);
                let b = derive(&mut r, &c, &a);
                let cc = if r.chance(1, 2) { derive(&mut r, &c, &b) } else { derive(&mut r, &c, &a) };
                o.doc_stats(&a);
                let (ha, hb, hc) = (hex(&a.to_vec()), hex(&b.to_vec()), hex(&cc.to_vec()));
                let mut both = |o: &mut Out, l: String| { o.push(format!("spec:{}", l)); o.push(l); };
                // the same questions with JSON text in either argument position (tree branch of the function)
                if (prop == "C04" || prop == "C12") && !crate::gen_text::has_nan(&a) && !crate::gen_text::has_nan(&b) && r.chance(1, 2) {
                    let opn = if prop == "C04" { "cmp" } else { "contains" };
                    let mut ta = String::new(); let mut tb = String::new();
                    crate::gen_text::render_json(&mut r, &a, crate::gen_text::Style::Strict, &mut ta);
                    crate::gen_text::render_json(&mut r, &b, crate::gen_text::Style::Strict, &mut tb);
                    let (ta, tb) = (hex(ta.trim_start_matches(' ').as_bytes()), hex(tb.trim_start_matches(' ').as_bytes()));
                    o.push(format!("t:{} {} {}", opn, ta, tb));
                    o.push(format!("t:{} {} {}", opn, tb, ta));
                    o.push(format!("t:{} {} {}", opn, ta, hb));
                    o.push(format!("t:{} {} {}", opn, ha, tb));
                    o.push(format!("tj {} {} {} {}", r.next() % 1000000, opn, ha, hb));
                    o.push(format!("tj {} {} {} {}", r.next() % 1000000, opn, hb, ha));
                }
                match prop {
                    "C04" => {
                        both(&mut o, format!("cmp {} {}", ha, hb));
                        both(&mut o, format!("cmp {} {}", hb, hc));
                        both(&mut o, format!("cmp {} {}", ha, ha));
                        o.push(format!("cmplaws {} {} {}", ha, hb, hc));
                    }
                    "C12" => {
                        both(&mut o, format!("contains {} {}", ha, hb));
                        both(&mut o, format!("contains {} {}", hb, ha));
                        both(&mut o, format!("contains {} {}", ha, hc));
                        both(&mut o, format!("contains {} {}", hc, hb));
                        o.push(format!("containslaws {} {} {}", ha, hb, hc));
                    }
                    _ => {
                        let pre = gen_prefix(&mut r, &c);
                        o.push(format!("cmpkey {} {}", pre, ha));
                        o.push(format!("keyorder {} {}", ha, hb));
                        o.push(format!("keyorder {} {}", hb, hc));
                        o.push(format!("keyorder {} {}", ha, ha));
                    }
                }
            }
        }
        "C03" => {
            let fc = c.clone().finite();
            for _ in 0..scale(tier, 1500, 40000) {
                let v = gen_value(&mut r, &fc, 0);
                o.doc_stats(&v);
                let d = hex(&v.to_vec());
                let f = crate::ops_text::fmt_table(&v);
                o.push(format!("tostr {} {}", d, f));
                o.push(format!("topretty {} {}", d, f));
                o.push(format!("tostrcheck {} {}", d, f));
            }
            // every single byte 0..=0x7f and some multi-byte characters as a string and as a key
            for b in 0u32..=0x7f {
                let s = char::from_u32(b).unwrap().to_string();
                let v = Value::String(std::borrow::Cow::Owned(format!("a{}b", s)));
                o.push(format!("tostr {} -", hex(&v.to_vec())));
                o.push(format!("tostrcheck {} -", hex(&v.to_vec())));
                let mut m = std::collections::BTreeMap::new();
                m.insert(s.clone(), Value::Array(vec![Value::String(std::borrow::Cow::Owned(s))]));
                let ov = Value::Object(m);
                o.push(format!("topretty {} -", hex(&ov.to_vec())));
                o.push(format!("tostrcheck {} -", hex(&ov.to_vec())));
            }
        }
        "C02" => {
            use crate::gen_text::*;
            let fc = c.clone();
            for _ in 0..scale(tier, 1200, 40000) {
                let v = gen_value(&mut r, &fc, 0);
                if has_nan(&v) { continue; }
                o.doc_stats(&v);
                let want = show_value(&denoted(&v));
                for st in [Style::Strict, Style::Lenient] {
                    let mut t = String::new();
                    render_json(&mut r, &v, st, &mut t);
                    o.push(format!("jparse {}", hex(t.as_bytes())));
                    o.push(format!("jexpect {} {}", hex(t.as_bytes()), want));
                    if st == Style::Strict { o.push(format!("spec:jparse {}", hex(t.as_bytes()))); o.stat("text:strict"); } else { o.stat("text:lenient"); }
                    for _ in 0..3 {
                        let x = corrupt(&mut r, t.as_bytes());
                        o.push(format!("jparse {}", hex(&x)));
                        o.push(format!("spec:jparse {}", hex(&x)));
                        o.stat("text:corrupted");
                    }
                }
            }
            // duplicate keys, by construction: the last one wins — adjacent or not, three times, nested, inside arrays,
            // keys that coincide only after escape decoding, values of every kind, and with the relaxed spacing
            {
                let vals = ["1", "2", "null", "true", "\"s\"", "[]", "{}", "[1,2]", "{\"z\":0}", "-0.5"];
                let keys: [(&str, &str); 4] = [("\"a\"", "\"a\""), ("\"a\"", "\"\\u0061\""), ("\"\"", "\"\""), ("\"k\\n\"", "\"k\\u000a\"")];
                let mut texts: Vec<String> = vec![];
                for (i, x) in vals.iter().enumerate() { for (j, y) in vals.iter().enumerate() {
                    if i == j { continue; }
                    let (k1, k2) = keys[(i + j) % keys.len()];
                    texts.push(format!("{{{}:{},{}:{}}}", k1, x, k2, y));
                    if (i + j) % 3 == 0 { texts.push(format!("{{{}:{},\"b\":7,{}:{}}}", k1, x, k2, y)); }
                    if (i + j) % 4 == 0 { texts.push(format!("{{\"0\":0,{}:{},\"b\":7,{}:{},\"zz\":[]}}", k1, x, k2, y)); }
                    if (i + j) % 5 == 0 { texts.push(format!("{{{}:{},{}:{},{}:{}}}", k1, x, k2, y, k1, vals[(i + 1) % vals.len()])); }
                    if (i + j) % 6 == 0 { texts.push(format!("[{{\"o\":{{{}:{},{}:{}}}}},{{{}:{} , {}:{}}}]", k1, x, k2, y, k2, y, k1, x)); }
                    if (i + j) % 7 == 0 { texts.push(format!(" {{ {} : {} ,\n{} :\t{} }} ", k1, x, k2, y)); }
                } }
                for t in texts {
                    let h = hex(t.as_bytes());
                    o.push(format!("jparse {}", h)); o.push(format!("spec:jparse {}", h));
                    o.stat("text:duplicate-keys");
                }
            }
            // texts malformed by construction: a strict rendering with one structural damage that no
            // documented relaxation covers
            for _ in 0..scale(tier, 600, 20000) {
                let v = gen_value(&mut r, &fc, 0);
                if has_nan(&v) || !matches!(v, Value::Array(_) | Value::Object(_)) { continue; }
                let mut t = String::new();
                render_json(&mut r, &v, Style::Strict, &mut t);
                let b = t.as_bytes();
                // structural positions outside strings
                let mut pos_close = vec![]; let mut pos_colon = vec![]; let mut pos_comma = vec![];
                let (mut in_str, mut esc) = (false, false);
                for (i, c) in b.iter().enumerate() {
                    if in_str { if esc { esc = false; } else if *c == b'\\' { esc = true; } else if *c == b'"' { in_str = false; } continue; }
                    match c { b'"' => in_str = true, b']' | b'}' => pos_close.push(i), b':' => pos_colon.push(i), b',' => pos_comma.push(i), _ => {} }
                }
                let mut bad: Vec<Vec<u8>> = vec![];
                if !pos_close.is_empty() {
                    let i = *r.pick(&pos_close);
                    // trailing comma: only if something precedes the closer
                    let prev = b[..i].iter().rev().find(|c| !c.is_ascii_whitespace());
                    if prev.is_some() && !matches!(prev, Some(b'[') | Some(b'{') | Some(b',')) { let mut x = b.to_vec(); x.insert(i, b','); bad.push(x); }
                    let mut x = b.to_vec(); x.remove(i); bad.push(x);                    // missing closer
                    let mut x = b.to_vec(); x[i] = if b[i] == b']' { b'}' } else { b']' }; bad.push(x);   // wrong closer
                }
                if !pos_colon.is_empty() { let i = *r.pick(&pos_colon); let mut x = b.to_vec(); x.insert(i, b':'); bad.push(x); let mut x = b.to_vec(); x[i] = b','; bad.push(x); }
                if !pos_comma.is_empty() { let i = *r.pick(&pos_comma); let mut x = b.to_vec(); x.insert(i, b','); bad.push(x); let mut x = b.to_vec(); x[i] = b' '; bad.push(x); }
                { let mut x = b.to_vec(); x.extend_from_slice(b" x"); bad.push(x); }
                for x in bad { o.push(format!("jreject {}", hex(&x))); o.push(format!("jparse {}", hex(&x))); o.stat("text:malformed-by-construction"); }
            }
            for t in ["[1,]", "{\"a\":1,}", "[{\"a\":{\"b\":null,}}]", "01", "1.", ".5", "+1", "\"\\x\"", "nul", "", " ", "1 2", "[1 2]", "-", "1e", "\"\\u004\"", "\"abc", "\"\\uD83D\\uDE0\"", "{\"a\":1,,}", "[,]", "{,}", "{\"a\"}", "{1:2}", "[1}", "tru", "--1", "1e+", "0x10", "'a'"] {
                o.push(format!("jreject {}", hex(t.as_bytes())));
            }
            // decimal spellings: 1..19 significant digits, with / without fraction and exponent; the
            // reference is std's correctly rounded str::parse (and the exact big-Nat model in Lean)
            for _ in 0..scale(tier, 2500, 80000) {
                let nd = 1 + r.below(19) as usize;
                let mut digits: String = (0..nd).map(|i| if i == 0 { (b'1' + r.below(9) as u8) as char } else { (b'0' + r.below(10) as u8) as char }).collect();
                if r.chance(1, 3) { digits = format!("9007199254740{}", &digits[..nd.min(4)]); }
                let point = r.below(digits.len() as u64 + 1) as usize;
                let mut t = String::new();
                if r.chance(1, 4) { t.push('-'); }
                if point == 0 { t.push_str("0."); t.push_str(&digits); }
                else if point == digits.len() { t.push_str(&digits); if r.chance(1, 2) { t.push_str(".0"); } }
                else { t.push_str(&digits[..point]); t.push('.'); t.push_str(&digits[point..]); }
                if r.chance(1, 3) { t.push_str(&format!("{}{}", r.pick(&["e", "E", "e+", "e-"]), r.below(30))); }
                let is_float = t.contains('.') || t.contains('e') || t.contains('E');
                if is_float {
                    if let Ok(f) = t.parse::<f64>() {
                        if f.is_finite() { o.push(format!("jexpect {} {}", hex(t.as_bytes()), show_value(&Value::Number(Number::Float64(f))))); }
                    }
                }
                o.push(format!("jparse {}", hex(t.as_bytes())));
                o.stat("text:decimal");
                // shortest repr of a double around the 2^53 digit-string boundary
                let f = f64::from_bits(0x3ff0_0000_0000_0000 + (r.next() >> 12)) * [1.0, 10.0, 100.0, 1000.0, 1e-3, 1e5, 1e15][r.below(7) as usize];
                let t2 = format!("{:?}", f);
                o.push(format!("jexpect {} {}", hex(t2.as_bytes()), show_value(&Value::Number(Number::Float64(f)))));
                o.push(format!("jparse {}", hex(t2.as_bytes())));
            }
            // every combination of a first escape and a following escape around the surrogate ranges
            for hi in ["D7FF", "D800", "D83D", "DBFF", "DC00", "DFFF", "E000", "0041"] {
                for lo in ["0000", "0041", "D7FF", "D800", "DBFF", "DC00", "DC0E", "DFFF", "E000", "E00E", "FFFF"] {
                    for (a, b) in [(format!("\\u{}", hi), format!("\\u{}", lo)), (format!("\\u{{{}}}", hi), format!("\\u{{{}}}", lo)), (format!("\\u{}", hi), format!("\\u{{{}}}", lo)), (format!("\\u{}", hi.to_lowercase()), format!("x\\u{}", lo))] {
                        let t = format!("\"{}{}\"", a, b);
                        o.push(format!("jparse {}", hex(t.as_bytes())));
                        o.push(format!("spec:jparse {}", hex(t.as_bytes())));
                        let t = format!("{{\"{}{}\":1,\"k\":[\"{}\"]}}", a, b, a);
                        o.push(format!("jparse {}", hex(t.as_bytes())));
                        o.stat("text:escape-pairs");
                    }
                }
            }
            let tricky: &[&[u8]] = &[b"\"\\u", b"\"\\uD800\\u", b"\"\\u{12", b"\"\\ud800A\"", b"\"\\uD800\\u0041\"", b"\"\\uDC00\"", b"\"\\uD83D\\uDE00\"", b"\"\\u{D83D}\\u{DE00}\"",
                b"-0", b"-", b"01", b"1.", b".5", b"1e", b"1e+", b"1E400", b"-1e400", b"1e-400", b"18446744073709551615", b"18446744073709551616", b"-9223372036854775808", b"-9223372036854775809",
                b"0.1e1", b"123456789012345678901234567890", b"2.2250738585072011e-308", b"4.9e-324", b"2.4703282292062327e-324", b"2.4703282292062328e-324", b"9007199254740993", b"9007199254740993.0",
                b"[1,]", b"[,1]", b"{\"a\":1,}", b"{\"a\" 1}", b"{a:1}", b"{\"a\":1 \"b\":2}", b"nul", b"truee", b"[1 2]", b"\x0c1", b"\\n1\\t", b"\\x0C[\\r]", b"\\x0c1", b"\"\x01\"", b"\"\xff\"", b"\"\xc3\"", b"{\"a\":1,\"a\":2}", b"", b" ", b"[", b"]", b"{\"", b"\"\\", b"\"\\x\""];
            for t in tricky {
                for k in 0..=t.len() {
                    o.push(format!("jparse {}", hex(&t[..k]))); o.push(format!("spec:jparse {}", hex(&t[..k])));
                    // … and with the string closed right there
                    let mut c = t[..k].to_vec(); c.push(b'"');
                    o.push(format!("jparse {}", hex(&c)));
                    let mut c2 = b"{\"k\":".to_vec(); c2.extend_from_slice(&c); c2.push(b'}');
                    o.push(format!("jparse {}", hex(&c2)));
                }
            }
            for t in ["\"\\u\"", "{\"k\":\"\\u\"}", "\"\\u{1234\"", "\"\\uD83D\\u\"", "\"\\uD83D\\u{1234\"", "\"\\u{\"", "\"\\uD83D\\\"", "{\"\\u\":1}"] {
                o.push(format!("jparse {}", hex(t.as_bytes()))); o.push(format!("jreject {}", hex(t.as_bytes())));
            }
            // every non-hex look-alike in every digit position of a \\u escape (plain, braced, and as the low half of a pair)
            for bad in ["+", "-", " ", "g", "G", ":", "/", "@", "`", "_", "x", ".", "\u{e9}"] {
                for pos in 0..4 {
                    let mut d: Vec<String> = "0041".chars().map(|ch| ch.to_string()).collect();
                    d[pos] = bad.to_string();
                    let h: String = d.concat();
                    for t in [format!("\"\\u{}\"", h), format!("\"\\u{{{}}}\"", h), format!("\"\\uD83D\\u{}\"", h), format!("{{\"\\u{}\":1}}", h)] {
                        o.push(format!("jparse {}", hex(t.as_bytes()))); o.push(format!("jreject {}", hex(t.as_bytes())));
                    }
                }
            }
            // escaped white space near the end of the text
            for body in ["{\"a\":1}", "[1,2]", "7", "\"s\"", "null"] {
                for wsx in ["\\n", "\\r", "\\t", "\\x0C", "\n", " ", "\x0c"] {
                    let b = body.as_bytes();
                    let want = show_value(&jsonb::parse_value(b).unwrap());
                    let t1 = format!("{}{}", body, wsx);
                    o.push(format!("jexpect {} {}", hex(t1.as_bytes()), want)); o.push(format!("jparse {}", hex(t1.as_bytes())));
                    if b.len() > 1 { let t2 = format!("{}{}{}", &body[..body.len() - 1], wsx, &body[body.len() - 1..]); if body.ends_with(']') || body.ends_with('}') { o.push(format!("jexpect {} {}", hex(t2.as_bytes()), want)); o.push(format!("jparse {}", hex(t2.as_bytes()))); } }
                    let t3 = format!("{}{}", wsx, body);
                    o.push(format!("jexpect {} {}", hex(t3.as_bytes()), want));
                }
            }
            // unpaired surrogates in either hex case, plain and braced
            for e in ["\\udead", "\\uDEAD", "\\ud800", "\\uD800\\u00e9", "\\u{dead}", "\\ud83d\\ude00", "\\uD83D\\uDE00", "\\ud800\\udc00x", "\\uDbFf"] {
                let t = format!("\"{}\"", e);
                o.push(format!("jparse {}", hex(t.as_bytes()))); o.push(format!("spec:jparse {}", hex(t.as_bytes())));
                let t = format!("{{\"{}\":1}}", e);
                o.push(format!("jparse {}", hex(t.as_bytes())));
            }
            for _ in 0..scale(tier, 1500, 50000) {
                let s = soup(&mut r, &["{", "}", "[", "]", ",", ":", "\"", "\\", "u", "1", "0", "-", ".", "e", "t", "true", "null", "false", " ", "\\n", "a", "\"a\"", "\\u00", "D8", "{}", "[]"], 10);
                o.push(format!("jparse {}", hex(s.as_bytes())));
                o.push(format!("spec:jparse {}", hex(s.as_bytes())));
                o.stat("text:soup");
            }
        }
        "C09" => {
            use crate::gen_text::*;
            for _ in 0..scale(tier, 3000, 80000) {
                let (t, canon) = gen_jsonpath(&mut r);
                o.push(format!("jpparse {}", hex(t.as_bytes())));
                o.push(format!("jpexpect {} {}", hex(t.as_bytes()), canon));
                // truncations / corruptions of accepted text
                let x = corrupt(&mut r, t.as_bytes());
                o.push(format!("jpparse {}", hex(&x)));
                if r.chance(1, 4) { let k = r.below(t.len() as u64 + 1) as usize; o.push(format!("jpparse {}", hex(&t.as_bytes()[..k.min(t.len())]))); }
                let p = gen_plain_jsonpath(&mut r);
                o.push(format!("jproundtrip {}", hex(p.as_bytes())));
                o.push(format!("jproundtrip {}", hex(t.as_bytes())));
                o.push(format!("jpparse {}", hex(p.as_bytes())));
            }
            for _ in 0..scale(tier, 2000, 60000) {
                let s = soup(&mut r, PATH_TOKENS, 8);
                o.push(format!("jpparse {}", hex(s.as_bytes())));
            }
            for t in ["$.\"abc", "$.\"", "$?(@ == \"\")", "$?(@ == 1.5)", "$?(@ == -1.5)", "$?(@ > 1e3)", "$[last+-2147483648]", "$[last-2147483648]", "$[last - 2147483649]", "$[2147483648]", "$.a + 3", "-$.a", "5 + 5", "$.\"a\\u", "$.a\\u00"] {
                o.push(format!("jpparse {}", hex(t.as_bytes())));
                o.push(format!("jproundtrip {}", hex(t.as_bytes())));
            }
            // escapes in unquoted and quoted names, every truncation; explicit parentheses on the right
            for t in ["$.a\\u{123", "$.a\\u{1234}", "$.b\\u{62}c", "$.\\u{1}", "$.a\\u0062c", "$.\"\\u0041\\u{42}\"", "$.\"x\\u{1F600}\".k\\u00e9", "$.a\\", "$.a\\u", "$?(@.a\\u{12} == 1)",
                      "$.a ? (@.x == 1 && (@.y == 2 && @.z == 3))", "$.a ? (@.x == 1 || (@.y == 2 || @.z == 3))", "$.a ? ((@.x == 1 || @.y == 2) || @.z == 3)", "$.a ? (@.x == 1 && (@.y == 2 || @.z == 3) && @.w == 4)",
                      "$.a <> 1", "$.a<>1", "$?(@.p <> 10).t", "$.a >= 1", "$.a <= 1", "$.a != 1", "$.a == 1", "$.a < 1", "$.a > 1"] {
                for k in 0..=t.len() { if t.is_char_boundary(k) { o.push(format!("jpparse {}", hex(&t.as_bytes()[..k]))); } }
                o.push(format!("jproundtrip {}", hex(t.as_bytes())));
            }
        }
        "C16" => {
            use crate::gen_text::*;
            for _ in 0..scale(tier, 3000, 80000) {
                let (t, canon) = gen_keypath_text(&mut r);
                o.push(format!("kpparse {}", hex(t.as_bytes())));
                o.push(format!("kpexpect {} {}", hex(t.as_bytes()), canon));
                o.push(format!("kproundtrip {}", hex(t.as_bytes())));
                let x = corrupt(&mut r, t.as_bytes());
                o.push(format!("kpparse {}", hex(&x)));
                let k = r.below(t.len() as u64 + 1) as usize;
                if t.is_char_boundary(k) { o.push(format!("kpparse {}", hex(&t.as_bytes()[..k]))); }
            }
            for _ in 0..scale(tier, 1500, 40000) {
                let s = soup(&mut r, &["{", "}", ",", "\"", "\\", "a", "1", "-", " ", "\\u00", "u", "+", "12", "\"b\"", "\t", "é"], 8);
                o.push(format!("kpparse {}", hex(s.as_bytes())));
            }
            for t in ["{a\\u{123", "{a\\u{1234}}", "{0,b\\u{62}}", "{\\u{1}}", "{a\\u{12}", "{a\\u0062c,\"\\u0041\\u{42}\"}", "{\"x\\u{1F600}\",k\\u00e9}", "{a\\", "{a\\u", "{a\\u00", "{\"\\u{"] {
                for k in 0..=t.len() { if t.is_char_boundary(k) { o.push(format!("kpparse {}", hex(&t.as_bytes()[..k]))); } }
                o.push(format!("kproundtrip {}", hex(t.as_bytes())));
            }
            for t in ["{a,2147483648}", "{2147483648}", "{99999999999,x}", "{4294967296abc}", "{-2147483649}", "{00000000001}", "{+1}", "{ +0 ,\ta }", "{+2147483647}", "{-0}", "{1a}", "{a1,1}", "{\"1\",1,a}"] {
                o.push(format!("kpparse {}", hex(t.as_bytes())));
                o.push(format!("kproundtrip {}", hex(t.as_bytes())));
            }
            // quoted names ending in escaped backslashes (the closing quote is NOT escaped) and in an escaped quote (it is)
            for t in ["{\"C:\\\\\"}", "{\"a\\\\\",\"}", "{\"\\\\\"}", "{\"\\\\\\\\\"}", "{\"x\\\\\\\"\"}", "{\"a\\\\\",b}", "{\"a\\\\\" , \"b\\\\\"}"] {
                o.push(format!("kpparse {}", hex(t.as_bytes())));
                o.push(format!("kproundtrip {}", hex(t.as_bytes())));
                let jp = format!("$.{}", &t[1..t.len() - 1]);
                o.push(format!("jpparse {}", hex(jp.as_bytes())));
            }
            for t in ["{\"a}", "{\"a,b}", "{\"\n\ny}", "{\"ab}", "{\"}", "{\"a\"", "{\"a\" ,", "{\"a\\\"}"] {
                o.push(format!("kpparse {}", hex(t.as_bytes())));
                o.push(format!("kpreject {}", hex(t.as_bytes())));
            }
            for t in ["{\"abc", "{\"\"}", "{", "}", "{}", " { } ", "{a", "{1,}", "{,}", "{-}", "{+1}", "{2147483648}", "{-2147483649}", "{a\\", "{\"a\\\"}", "{a,\"b\",-2}x"] {
                o.push(format!("kpparse {}", hex(t.as_bytes())));
            }
        }
        "C08" | "C15" => {
            use crate::gen_text::*;
            for _ in 0..scale(tier, 1200, 30000) {
                let v = gen_value(&mut r, &c, 0);
                o.doc_stats(&v);
                let d = hex(&v.to_vec());
                for _ in 0..3 {
                    let path = if r.chance(4, 5) { gen_doc_path(&mut r, &v) } else { gen_jsonpath(&mut r).0 };
                    let ph = hex(path.as_bytes());
                    if prop == "C15" {
                        o.push(format!("modes {} {}", d, ph));
                        if r.chance(1, 3) { let pre = gen_prefix(&mut r, &c); let opn = *r.pick(&["getpath", "getpathfirst", "getpatharray"]); o.push(format!("tj {} {} {} {} {}", r.next() % 1000000, opn, pre, d, ph)); }
                        if r.chance(1, 3) { let opn = *r.pick(&["pathexists", "pathmatch"]); o.push(format!("tj {} {} {} {}", r.next() % 1000000, opn, d, ph)); }
                        let pre = gen_prefix(&mut r, &c);
                        let m = *r.pick(&["first", "array", "all", "mixed"]);
                        o.push(format!("select {} {} {} {}", m, pre, d, ph));
                        o.push(format!("spec:select {} {} {} {}", m, pre, d, ph));
                        continue;
                    }
                    let pre = gen_prefix(&mut r, &c);
                    for m in ["all", "first", "array", "mixed"] {
                        o.push(format!("select {} {} {} {}", m, pre, d, ph));
                        o.push(format!("spec:select {} {} {} {}", m, pre, d, ph));
                    }
                    o.push(format!("pexists {} {}", d, ph)); o.push(format!("spec:pexists {} {}", d, ph));
                    o.push(format!("pmatch {} {}", d, ph)); o.push(format!("spec:pmatch {} {}", d, ph));
                    o.push(format!("getpath {} {} {}", pre, d, ph));
                    o.push(format!("pathexists {} {}", d, ph));
                    o.push(format!("getpathfirst {} {} {}", pre, d, ph));
                    o.push(format!("getpatharray {} {} {}", pre, d, ph));
                    o.push(format!("pathmatch {} {}", d, ph));
                }
            }
            // chained filters (a candidate that passes the first filter and fails a later one, before one that passes
            // all), filters reading the root, and one Selector reused over several equally long documents
            {
                let docs = ["[{\"a\":1,\"b\":1},{\"a\":1,\"b\":2}]", "[{\"a\":1,\"b\":2},{\"a\":1,\"b\":1}]", "[{\"a\":2,\"b\":2},{\"a\":1,\"b\":1},{\"a\":1,\"b\":2}]",
                    "{\"x\":[{\"a\":1,\"b\":1},{\"a\":1,\"b\":2}],\"lim\":2}", "{\"x\":[{\"a\":1,\"b\":1},{\"a\":1,\"b\":2}],\"lim\":1}", "[1,2,3,4]", "[4,3,2,1]", "{\"items\":[1,5,9],\"limit\":6}", "{\"items\":[1,5,9],\"limit\":2}", "{\"items\":[1,5,9],\"limit\":0}"];
                let paths = ["$[*]?(@.a == 1)?(@.b == 2)", "$[*]?(@.a == 1)?(@.b == 1)", "$[*]?(@.a == 1)?(@.b == 3)", "$.x[*]?(@.a == 1)?(@.b == 2)", "$.x[*]?(@.a == 1)?(@.b == $.lim)", "$[*]?(@ > 1)?(@ > 2)?(@ > 3)",
                    "$[*]?(@ < 4)?(@ < 3)?(@ < 2)", "$[*]?(@.a == 1).b?(@ == 2)", "$[*]?(exists(@.a))?(@.b == 2)", "$[*]?(@.a == 1 && @.b == 2)", "$.items[*]?(@ < $.limit)", "$.items[*]?(@ > $.limit)?(@ < 9)", "$.items[0] < $.limit"];
                let enc: Vec<String> = docs.iter().map(|t| hex(&jsonb::parse_value(t.as_bytes()).unwrap().to_vec())).collect();
                for path in paths {
                    let ph = hex(path.as_bytes());
                    for d in &enc {
                        if prop == "C15" { o.push(format!("modes {} {}", d, ph)); }
                        for m in ["all", "first", "array", "mixed"] { o.push(format!("select {} - {} {}", m, d, ph)); o.push(format!("spec:select {} - {} {}", m, d, ph)); }
                        o.push(format!("pexists {} {}", d, ph)); o.push(format!("spec:pexists {} {}", d, ph));
                        o.push(format!("pathexists {} {}", d, ph));
                        o.push(format!("getpathfirst - {} {}", d, ph));
                    }
                    for m in ["all", "first", "array", "mixed"] { o.push(format!("selreuse {} {} {}", m, ph, enc.join(" "))); }
                }
            }
            // scalar roots, empty containers, the repaired cases
            for (doc, path) in [("5", "$ > 1"), ("5", "$?(@ > 1)"), ("5", "$[*]?(@ > 1)"), ("[5]", "$[*]?(@ > 1)"), ("5", "$"), ("\"a\"", "$[*]"), ("[]", "$[*]"), ("{}", "$.*"), ("[1,2,3]", "$[last + 2147483647]"), ("[1,2,3]", "$[last - 2147483648 to last]"), ("{\"a\":1}", "$?(@.a + 1)"), ("{\"a\":1}", "$.a + 3"), ("[1,[2,3]]", "$[*][*]"), ("null", "$ == null"), ("[1,2]", "$[0, 0, last]"), ("{\"a\":{\"b\":[1,2]}}", "$.a?(exists(@.b?(@[*] > 1)))")] {
                let v = jsonb::parse_value(doc.as_bytes()).unwrap();
                let d = hex(&v.to_vec()); let ph = hex(path.as_bytes());
                if prop == "C15" { o.push(format!("modes {} {}", d, ph)); continue; }
                for m in ["all", "first", "array", "mixed"] { o.push(format!("select {} - {} {}", m, d, ph)); o.push(format!("spec:select {} - {} {}", m, d, ph)); }
                o.push(format!("pmatch {} {}", d, ph)); o.push(format!("spec:pmatch {} {}", d, ph));
                o.push(format!("pexists {} {}", d, ph)); o.push(format!("spec:pexists {} {}", d, ph));
            }
        }
        "C11" => {
            // every document function, every other argument, all 2^k text/JSONB choices: take the
            // request streams of the other properties and wrap each doc-taking op
            for sub in ["C05", "C06", "C13", "C04", "C12", "C14", "C03", "C08"] {
                let o2 = gen_sub(sub, tier, seed ^ 0x11);
                for l in o2.lines {
                    if l.starts_with("t:") || l.starts_with("tj ") || l.starts_with("spec:") || l.starts_with("select ") || l.starts_with("pexists") || l.starts_with("pmatch") || l.starts_with("cmplaws") || l.starts_with("containslaws") || l.starts_with("keyorder") || l.starts_with("tostrcheck") || l.starts_with("strf64") || l.starts_with("barr") || l.starts_with("bobj") || l.starts_with("selreuse") { continue; }
                    if r.chance(if tier == "thorough" { 2 } else { 1 }, 6) {
                        o.push(format!("tj {} {}", r.next() % 1000000, l));
                    }
                    // correspondence of the text branches: the model dispatches like the code
                    if r.chance(1, 8) {
                        let fields: Vec<&str> = l.split(' ').collect();
                        const MODELLED: &[&str] = &["arrlen", "getidx", "getname", "getkp", "keys", "typeof", "asnull", "asbool", "asnum", "asstr", "existsall", "contains", "cmp", "concat", "arrins", "objins", "distinct", "inter", "except", "overlap", "objdel", "objpick", "travstr", "delname", "delidx", "strip", "toserde", "cmpkey", "pathexists", "getpath",
                            "existsany", "each", "vals", "isarr", "isobj", "asi64", "asu64", "tobool", "toi64", "tou64", "delkp", "getpathfirst", "getpatharray", "pathmatch", "toserdeobj"];
                        if !MODELLED.contains(&fields[0]) { continue; }
                        if let Some(pos) = crate::ops_tj::doc_positions(fields[0]) {
                            let mut fs: Vec<String> = fields.iter().map(|s| s.to_string()).collect();
                            let mask = 1 + r.below((1u64 << pos.len()) - 1);
                            let mut ok = true;
                            for (k, p) in pos.iter().enumerate() {
                                if mask & (1 << k) == 0 { continue; }
                                let raw = unhex(fields[*p]).unwrap_or_default();
                                match jsonb::from_slice(&raw).ok() {
                                    Some(v) if !crate::gen_text::has_nan(&v) => {
                                        let mut t = String::new();
                                        let st = if r.chance(1, 3) { crate::gen_text::Style::Lenient } else { crate::gen_text::Style::Strict };
                                        crate::gen_text::render_json(&mut r, &v, st, &mut t);
                                        let t = if r.chance(1, 10) { crate::gen_text::corrupt(&mut r, t.as_bytes()) } else { t.trim_start_matches(' ').as_bytes().to_vec() };
                                        // the claim excludes text starting with a space (read as a scalar header)
                                        let t: Vec<u8> = t.iter().copied().skip_while(|b| *b == b' ').collect();
                                        fs[*p] = hex(&t);
                                    }
                                    _ => { ok = false; }
                                }
                            }
                            if ok { o.push(format!("t:{}", fs.join(" "))); }
                        }
                    }
                }
            }
            for _ in 0..scale(tier, 300, 8000) {
                let v = gen_value(&mut r, &c, 0);
                if crate::gen_text::has_nan(&v) { continue; }
                let mut t = String::new();
                crate::gen_text::render_json(&mut r, &v, crate::gen_text::Style::Lenient, &mut t);
                o.push(format!("t:lazyvec {}", hex(t.trim_start_matches(' ').as_bytes())));
                o.push(format!("t:lazyvec {}", hex(&v.to_vec())));
                o.push(format!("t:fromslice {}", hex(t.trim_start_matches(' ').as_bytes())));
            }
            // dedicated pairs for the two-document functions: every text/binary combination on
            // documents related by the derivations (dropped / reordered / re-typed / unwrapped members)
            for _ in 0..scale(tier, 250, 8000) {
                let a = gen_value(&mut r, &c, 0);
                let b = derive(&mut r, &c, &a);
                if crate::gen_text::has_nan(&a) || crate::gen_text::has_nan(&b) { continue; }
                let (mut ta, mut tb) = (String::new(), String::new());
                crate::gen_text::render_json(&mut r, &a, crate::gen_text::Style::Strict, &mut ta);
                crate::gen_text::render_json(&mut r, &b, crate::gen_text::Style::Strict, &mut tb);
                let (ta, tb) = (ta.trim_start_matches(' ').to_string(), tb.trim_start_matches(' ').to_string());
                let (ha, hb) = (hex(&jsonb::parse_value(ta.as_bytes()).unwrap().to_vec()), hex(&jsonb::parse_value(tb.as_bytes()).unwrap().to_vec()));
                let (xa, xb) = (hex(ta.as_bytes()), hex(tb.as_bytes()));
                let pre = gen_prefix(&mut r, &c);
                for (p, q) in [(&xa, &xb), (&xa, &hb), (&ha, &xb), (&xb, &xa), (&xb, &ha), (&hb, &xa)] {
                    o.push(format!("t:contains {} {}", p, q));
                    o.push(format!("t:cmp {} {}", p, q));
                    o.push(format!("t:overlap {} {}", p, q));
                    o.push(format!("t:inter {} {} {}", pre, p, q));
                    o.push(format!("t:except {} {} {}", pre, p, q));
                    o.push(format!("t:concat {} {} {}", pre, p, q));
                }
                for opn in ["contains", "cmp", "overlap"] { o.push(format!("tj {} {} {} {}", r.next() % 1000000, opn, ha, hb)); o.push(format!("tj {} {} {} {}", r.next() % 1000000, opn, hb, ha)); }
                for opn in ["inter", "except", "concat"] { o.push(format!("tj {} {} {} {} {}", r.next() % 1000000, opn, pre, ha, hb)); }
                o.push(format!("t:distinct {} {}", pre, xa));
                o.push(format!("tj {} distinct {} {}", r.next() % 1000000, pre, ha));
            }
            // scalar texts in every spelling through every single-document function: the text itself
            // and the encoding of the text must answer alike (tjtext), and the model of the whole
            // function must agree with the code (t:)
            for t in ["-0", "-0 ", "-0\n", "0", "-0.0", "0.0", "0e0", "1.0", "1e2", "100", "-1", "1e400", "18446744073709551615", "9223372036854775808", "-9223372036854775808", "9007199254740993",
                      "{\"balance\":-0}", "[-0]", "{\"a\":[-0,-0.0,0,0.0]}", "[1e2,100,1.0,1]", "{\"a\":{\"b\":-0}}",
                      "true", "true ", "false\n", "null", "null\t", "\"true\"", "\"12\"", "\"-0\"", "\"1e2\"", "\"\"", "\" \"", "[]", "{}", "[1]", "{\"a\":1}", "\n[1]", "\t{\"a\":[1,2]}"] {
                let x = hex(t.as_bytes());
                for opn in ["arrlen", "keys", "typeof", "asnull", "asbool", "asnum", "asstr", "asi64", "asu64", "isarr", "isobj", "tobool", "toi64", "tou64", "each", "vals", "toserde", "toserdeobj"] {
                    o.push(format!("tjtext {} {}", opn, x));
                    o.push(format!("t:{} {}", opn, x));
                }
                for opn in ["isnull", "isbool", "isnum", "isstr", "isi64", "isu64", "isf64", "asf64", "tof64"] {
                    o.push(format!("tjtext {} {}", opn, x));
                    o.push(format!("t:{} {}", opn, x));
                }
                if let Ok(pv) = jsonb::parse_value(t.as_bytes()) {
                    let f = crate::ops_text::fmt_table(&pv);
                    o.push(format!("tjtext caststr {} {}", x, f));
                    o.push(format!("t:caststr {} {}", x, f));
                }
            }
            for _ in 0..scale(tier, 150, 4000) {
                let v = gen_scalar(&mut r, &c);
                if crate::gen_text::has_nan(&v) { continue; }
                let mut t = String::new();
                let st = if r.chance(1, 3) { crate::gen_text::Style::Lenient } else { crate::gen_text::Style::Strict };
                crate::gen_text::render_json(&mut r, &v, st, &mut t);
                let t = t.trim_start_matches(' ');
                let pv = match jsonb::parse_value(t.as_bytes()) { Ok(pv) => pv, Err(_) => continue };
                let x = hex(t.as_bytes());
                for opn in ["isnull", "isbool", "isnum", "isstr", "isi64", "isu64", "isf64", "asf64", "tof64", "asi64", "asu64", "asnum", "tobool", "toi64", "tou64"] {
                    o.push(format!("tjtext {} {}", opn, x));
                    o.push(format!("t:{} {}", opn, x));
                }
                let f = crate::ops_text::fmt_table(&pv);
                o.push(format!("tjtext caststr {} {}", x, f));
                o.push(format!("t:caststr {} {}", x, f));
            }
            for (t, d) in [("-0", "toserde"), ("\"\\ud800\"", "toserde"), ("\t1", "typeof"), ("\n[1]", "typeof"), ("[12345678]", "contains"), ("\"abc0xy\"", "asstr"), ("12345678", "asu64")] {
                let v = jsonb::parse_value(t.as_bytes()).unwrap();
                if d == "contains" { o.push(format!("tj 1 contains {} {}", hex(&v.to_vec()), hex(&jsonb::parse_value(b"12345678").unwrap().to_vec()))); }
                else { o.push(format!("tj 1 {} {}", d, hex(&v.to_vec()))); }
                o.push(format!("t:{} {}", if d == "contains" { "asnum" } else if d == "asu64" { "asnum" } else { d }, hex(t.as_bytes())));
            }
        }
        "C07" => {
            // chains: arguments are chosen from the CURRENT document, which the generator tracks
            // by running the real code (only to choose arguments; the comparison is separate)
            use crate::ops_chain::{parse_op, step};
            let small = DocCfg { max_depth: 2, max_fanout: 3, nonfinite: false, long_strings: false };
            let fc = c.clone().finite();
            // short fixed chains over small documents: every pair through the two-document operations
            {
                let docs = ["[]", "{}", "null", "true", "[true,null,\"x\"]", "[false,\"x\"]", "[null,true,false,\"\"]", "[1,1.0,\"1\"]", "{\"a\":1}", "{\"a\":2,\"b\":1}", "[[],{}]", "[{\"a\":1},[1]]"];
                for a in docs { for b in docs {
                    let (ha, hb) = (hex(&jsonb::parse_value(a.as_bytes()).unwrap().to_vec()), hex(&jsonb::parse_value(b.as_bytes()).unwrap().to_vec()));
                    for tok in [format!("in:L{}", hb), format!("ex:L{}", hb), format!("cat:L{}:r", hb), format!("cat:L{}:l", hb), format!("ai:0:L{}", hb), format!("wa:S|L{}", hb)] {
                        let line = format!("{} {} ds", ha, tok);
                        o.push(format!("chain {}", line)); o.push(format!("spec:chain {}", line)); o.push(format!("chaincheck {}", line));
                    }
                } }
            }
            for _ in 0..scale(tier, 1500, 30000) {
                let v0 = if r.chance(1, 12) { gen_scalar(&mut r, &fc) } else if r.chance(1, 10) { jsonb::parse_value(r.pick(SMALL_DOCS).as_bytes()).unwrap() } else { gen_value(&mut r, &fc, 0) };
                o.doc_stats(&v0);
                let start = v0.to_vec();
                let mut cur = start.clone();
                let mut toks: Vec<String> = vec![];
                let len = 1 + r.below(if tier == "thorough" { 16 } else { 10 });
                for _ in 0..len {
                    let v = match jsonb::from_slice(&cur) { Ok(v) => v, Err(_) => break };
                    if cur.len() > 20000 { break; }
                    let arg = |r: &mut Rng, want_obj: Option<bool>| -> String {
                        match r.below(5) {
                            0 => "S".to_string(),
                            1 | 2 => format!("K{}", crate::ops_access::show_keypath(&gen_keypath(r, &v))),
                            _ if r.chance(1, 4) => format!("L{}", hex(&jsonb::parse_value(r.pick(SMALL_DOCS).as_bytes()).unwrap().to_vec())),
                            _ => {
                                let w = match want_obj {
                                    Some(true) => { let mut m = std::collections::BTreeMap::new(); for _ in 0..r.below(4) { m.insert(gen_key(r), gen_value(r, &small, 1)); } Value::Object(m) }
                                    Some(false) => Value::Array((0..r.below(4)).map(|_| gen_value(r, &small, 1)).collect()),
                                    None => gen_value(r, &small, 0),
                                };
                                format!("L{}", hex(&w.to_vec()))
                            }
                        }
                    };
                    let keys: Vec<String> = match &v { Value::Object(ob) => ob.keys().cloned().collect(), _ => vec![] };
                    let some_key = |r: &mut Rng| -> String { if !keys.is_empty() && r.chance(4, 5) { keys[r.below(keys.len() as u64) as usize].clone() } else { gen_key(r) } };
                    let keylist = |r: &mut Rng| -> String { let n = r.below(4); if n == 0 { "[]".to_string() } else { (0..n).map(|_| hex(some_key(r).as_bytes())).collect::<Vec<_>>().join(";") } };
                    let n = match &v { Value::Array(a) => a.len() as i64, _ => 1 };
                    let idx = |r: &mut Rng| -> i64 { match r.below(8) { 0 => n, 1 => -n - 1, 2 => -n, 3 => *r.pick(&[i32::MIN as i64, i32::MAX as i64]), _ => if n > 0 { r.range(-n, n) } else { 0 } } };
                    let is_obj = matches!(v, Value::Object(_));
                    let is_arr = matches!(v, Value::Array(_));
                    let tok = match r.below(26) {
                        0 | 1 => { let want = if r.chance(1, 3) { *r.pick(&[None, Some(true), Some(false)]) } else if is_obj { Some(true) } else if is_arr { Some(false) } else { None }; format!("cat:{}:{}", arg(&mut r, want), if r.chance(1, 2) { "l" } else { "r" }) }
                        2 => format!("dn:{}", hex(some_key(&mut r).as_bytes())),
                        3 => format!("di:{}", idx(&mut r)),
                        4 | 5 => format!("dk:{}", crate::ops_access::show_keypath(&gen_keypath(&mut r, &v))),
                        6 | 7 => format!("ai:{}:{}", idx(&mut r), arg(&mut r, None)),
                        8 | 9 => format!("oi:{}:{}:{}", hex(some_key(&mut r).as_bytes()), arg(&mut r, None), r.below(2)),
                        10 => format!("od:{}", keylist(&mut r)),
                        11 => format!("op:{}", keylist(&mut r)),
                        12 => "st".to_string(),
                        13 => format!("gi:{}", if n > 0 { r.below(n as u64 + 1) } else { 0 }),
                        14 => format!("gn:{}:{}", hex(some_key(&mut r).as_bytes()), r.below(2)),
                        15 => format!("gk:{}", crate::ops_access::show_keypath(&gen_keypath(&mut r, &v))),
                        16 => if r.chance(1, 2) { "ks".to_string() } else { "ds".to_string() },
                        17 => format!("{}:{}", if r.chance(1, 2) { "in" } else { "ex" }, arg(&mut r, Some(false))),
                        18 => { let k = r.below(4); if k == 0 { "wa:[]".to_string() } else { format!("wa:{}", (0..k).map(|_| arg(&mut r, None)).collect::<Vec<_>>().join("|")) } }
                        19 => { let k = r.below(4); if k == 0 { "wo:[]".to_string() } else { format!("wo:{}", (0..k).map(|_| format!("{}={}", hex(gen_key(&mut r).as_bytes()), arg(&mut r, None))).collect::<Vec<_>>().join("|")) } }
                        20 | 22 | 23 => format!("sf:{}", hex(crate::gen_text::gen_doc_path(&mut r, &v).as_bytes())),
                        _ => format!("sa:{}", hex(crate::gen_text::gen_doc_path(&mut r, &v).as_bytes())),
                    };
                    o.stat(&format!("chainop:{}", tok.split(':').next().unwrap_or("")));
                    let next = match parse_op(&tok) {
                        Ok(Some(op)) => match std::panic::catch_unwind(std::panic::AssertUnwindSafe(|| step(&cur, &op))) { Ok(Ok(Some(n))) => { o.stat("chainstep:changed"); Some(n) } Ok(Ok(None)) => { o.stat("chainstep:refused"); None } _ => None },
                        _ => None,
                    };
                    toks.push(tok);
                    if let Some(nx) = next { cur = nx; }
                }
                o.stat(&format!("chainlen:{}", toks.len()));
                let line = format!("{} {}", hex(&start), toks.join(" "));
                o.push(format!("chain {}", line));
                o.push(format!("spec:chain {}", line));
                o.push(format!("chaincheck {}", line));
            }
        }
        "C20" => {
            // deep nesting, each case in a child process (a stack overflow kills only the child)
            let recursive = ["parse", "fromslice", "fromslicetext", "encode", "drop", "tostring", "topretty", "compare", "contains", "cmpkey", "strip", "toserde", "delkp"];
            let iterative = ["travstr", "getpath", "getkp", "parsepath"];
            let small: &[usize] = &[1, 2, 3, 10, 50, 100, 255, 256, 257, 1000, 3000];
            let big: &[usize] = if tier == "thorough" { &[10000, 30000, 100000, 300000] } else { &[10000, 100000] };
            for shape in ["arr", "obj"] {
                for api in recursive.iter().chain(iterative.iter()) {
                    for n in small.iter().chain(big.iter()) {
                        if *api == "parsepath" && *n > 3000 { continue; }
                        o.push(format!("deep {} {} {}", api, shape, n));
                        o.stat(if *n >= 10000 { "deep:>=10000" } else { "deep:<10000" });
                    }
                }
            }
            // every binade of the double range against extreme and small integers: no shift may overflow
            for f in binade_floats() {
                for i in [Number::Int64(0), Number::Int64(1), Number::UInt64(u64::MAX), Number::Int64(i64::MIN)] {
                    o.push(format!("numcmp {} {}", show_num(&i), show_num(&Number::Float64(f))));
                }
                let (hf, hi) = (hex(&Value::Array(vec![Value::Number(Number::Float64(f))]).to_vec()), hex(&Value::Array(vec![Value::Number(Number::Int64(1))]).to_vec()));
                o.push(format!("cmp {} {}", hi, hf));
            }
            // extreme integer arguments on ordinary documents
            let mut both = |o: &mut Out, l: String| { o.push(format!("spec:{}", l)); o.push(l); };
            for _ in 0..scale(tier, 150, 4000) {
                let v = match r.below(4) { 0 => gen_scalar(&mut r, &c), 1 => gen_value(&mut r, &c, 0), _ => Value::Array((0..r.below(5)).map(|_| gen_value(&mut r, &c, 2)).collect()) };
                let d = hex(&v.to_vec());
                let n = match &v { Value::Array(a) => a.len() as i64, _ => 1 };
                let e = hex(&gen_value(&mut r, &c, 2).to_vec());
                let pre = gen_prefix(&mut r, &c);
                for i in [i32::MIN as i64, i32::MIN as i64 + 1, -n - 1, -n, -1, 0, n - 1, n, n + 1, i32::MAX as i64 - 1, i32::MAX as i64] {
                    if i < i32::MIN as i64 || i > i32::MAX as i64 { continue; }
                    both(&mut o, format!("delidx {} {} {}", pre, d, i));
                    both(&mut o, format!("arrins {} {} {} {}", pre, d, i, e));
                    both(&mut o, format!("delkp {} {} i{}", pre, d, i));
                    both(&mut o, format!("getkp {} i{}", d, i));
                    both(&mut o, format!("delkp {} {} i0,i{}", pre, d, i));
                    if i >= 0 { both(&mut o, format!("getidx {} {}", d, i)); }
                    for big in [u64::MAX, u64::MAX / 2, 1u64 << 62, (1u64 << 62) - 1, (1u64 << 32) + i.unsigned_abs(), 1u64 << 63] { both(&mut o, format!("getidx {} {}", d, big)); }
                    o.stat("extreme:int-args");
                }
                for p in ["$[2147483647]", "$[last - 2147483647]", "$[last + 2147483647]", "$[0 to 2147483647]", "$[last - 2147483647 to last + 2147483647]",
                          "$[2147483646 to 2147483647]", "$[last - 2147483648]", "$[*][last + 2147483647]", "$[2147483648]", "$[-2147483648]", "$[last - 0, last + 0, 0]"] {
                    for m in ["all", "first", "array", "mixed"] {
                        both(&mut o, format!("select {} {} {} {}", m, pre, d, hex(p.as_bytes())));
                    }
                    o.stat("extreme:path-index");
                }
            }
            // the same extreme arguments on JSON-TEXT documents (the text branches do their own index arithmetic),
            // every array length 0..4, every extreme index, flat and one level down
            for n in 0..5usize {
                let t = format!("[{}]", (0..n).map(|i| i.to_string()).collect::<Vec<_>>().join(","));
                let tn = format!("[[{}]]", (0..n).map(|i| i.to_string()).collect::<Vec<_>>().join(","));
                let to = format!("{{\"a\":{}}}", t);
                for i in [i32::MIN as i64, i32::MIN as i64 + 1, i32::MIN as i64 + n as i64, -(n as i64) - 1, -(n as i64), -1, 0, n as i64, n as i64 + 1, i32::MAX as i64 - n as i64, i32::MAX as i64 - n as i64 + 1, i32::MAX as i64 - 1, i32::MAX as i64] {
                    if i < i32::MIN as i64 || i > i32::MAX as i64 { continue; }
                    let x = hex(t.as_bytes());
                    o.push(format!("t:getkp {} i{}", x, i));
                    o.push(format!("t:delkp - {} i{}", x, i));
                    o.push(format!("t:delidx - {} {}", x, i));
                    o.push(format!("t:arrins - {} {} {}", x, i, hex(b"null")));
                    o.push(format!("t:getkp {} i0,i{}", hex(tn.as_bytes()), i));
                    o.push(format!("t:delkp - {} i0,i{}", hex(tn.as_bytes()), i));
                    o.push(format!("t:getkp {} n61,i{}", hex(to.as_bytes()), i));
                    o.push(format!("t:delkp - {} n61,i{}", hex(to.as_bytes()), i));
                    o.push(format!("tjtext getkp {} i{}", x, i));
                }
            }
            // the extreme indices through the parsers and the printers as well (parse, print, parse again)
            for p in ["$[2147483647]", "$[-2147483648]", "$[last-2147483648]", "$[last - 2147483647]", "$[last+2147483647]", "$[-2147483648 to 2147483647]", "$[last-2147483648 to last+2147483647]",
                      "$[2147483648]", "$[-2147483649]", "$[last-2147483649]", "$?(@ == -9223372036854775808)", "$?(@ == 18446744073709551615)", "$?(@ == 18446744073709551616)", "$?(@ == 1e400)"] {
                o.push(format!("jpparse {}", hex(p.as_bytes())));
                o.push(format!("jproundtrip {}", hex(p.as_bytes())));
            }
            for p in ["{2147483647}", "{-2147483648}", "{2147483648}", "{-2147483649}", "{a,-2147483648,2147483647}"] {
                o.push(format!("kpparse {}", hex(p.as_bytes())));
                o.push(format!("kproundtrip {}", hex(p.as_bytes())));
            }
        }
        "C19" => {
            let fc = c.clone().finite();
            for _ in 0..scale(tier, 1500, 40000) {
                let v = gen_value(&mut r, &fc, 0);
                o.doc_stats(&v);
                let d = hex(&v.to_vec());
                o.push(format!("toserde {}", d));
                o.push(format!("spec:toserde {}", d));
                o.push(format!("toserdeobj {}", d));
                o.push(format!("treeserde {}", show_value(&v)));
                o.push(format!("serdecheck {}", d));
                let j: serde_json::Value = v.clone().into();
                o.push(format!("fromserde {}", crate::ops_serde::show_sj(&j)));
            }
            // JSON text input (both functions sniff): the text and the encoding of the text must convert alike
            for t in ["{\"big\":[1,1e999]}", "42", "{\"a\":1}", "[1,-1e999]", "[7]", "1e999", "{\"k\":[]}",
                      "{\"balance\":-0}", "[-0]", "{\"a\":[-0,-0.0,0,0.0]}", "-0", "{\"a\":{\"b\":-0}}", "{}", "[]", "{\"k\":18446744073709551615}", "{\"k\":-9223372036854775808}", "{\"k\":1e2}", "\n{\"k\":[1]}"] {
                let x = hex(t.as_bytes());
                for opn in ["toserde", "toserdeobj"] { o.push(format!("tjtext {} {}", opn, x)); o.push(format!("t:{} {}", opn, x)); }
            }
            for _ in 0..scale(tier, 200, 5000) {
                let v = gen_value(&mut r, &fc, 0);
                let mut t = String::new();
                crate::gen_text::render_json(&mut r, &v, crate::gen_text::Style::Strict, &mut t);
                let x = hex(t.trim_start_matches(' ').as_bytes());
                for opn in ["toserde", "toserdeobj"] { o.push(format!("tjtext {} {}", opn, x)); o.push(format!("t:{} {}", opn, x)); }
            }
            // non-finite numbers are refused by the byte walker (error, not a panic)
            for b in NONFINITE_BITS { let v = Value::Array(vec![Value::Number(Number::Float64(f64::from_bits(*b)))]); o.push(format!("toserde {}", hex(&v.to_vec()))); }
        }
        "C17" => {
            for _ in 0..scale(tier, 1200, 40000) {
                let v = gen_value(&mut r, &c, 0);
                o.doc_stats(&v);
                let t = show_value(&v);
                let n = r.below(12) as usize;
                let pre: Vec<u8> = if r.chance(1, 3) { gen_value(&mut r, &c, 1).to_vec() } else { (0..n).map(|_| r.next() as u8).collect() };
                o.push(format!("encinto {} {}", hex(&pre), t));
                o.push(format!("spec:encinto {} {}", hex(&pre), t));
            }
            // the builders given an item that is not JSONB (empty, too short, JSON text, an unknown header tag) in
            // every position, into empty and non-empty buffers: an error, and the buffer as it was
            {
                let good = [hex(&Value::Number(Number::UInt64(1)).to_vec()), hex(&Value::Array(vec![Value::Null]).to_vec())];
                let bad = ["", "200000", "7b2261223a317d", "e000000100000000", "00000000"];
                for pre in ["-", "0102", "80000001000000002000000020000001"] {
                    for b in bad {
                        for pos in 0..3 {
                            let mut items: Vec<String> = vec![good[0].clone(), good[1].clone()];
                            items.insert(pos, b.to_string());
                            o.push(format!("barr {} {}", pre, items.join(";")));
                            let kvs: Vec<String> = items.iter().enumerate().map(|(i, d)| format!("{}:{}", hex(["b", "a", "c"][i].as_bytes()), d)).collect();
                            o.push(format!("bobj {} {}", pre, kvs.join(";")));
                        }
                    }
                }
            }
            // LazyValue (raw JSONB and parsed text) written into a non-empty buffer
            for t in SMALL_DOCS.iter().chain(EDGE_DOCS.iter()) {
                let v = jsonb::parse_value(t.as_bytes()).unwrap();
                o.push(format!("t:lazyvec {}", hex(t.as_bytes())));
                o.push(format!("t:lazyvec {}", hex(&v.to_vec())));
            }
            // every other buffer-writing function, with non-empty prior content: the oracle
            // (spec answer) does not depend on the prefix, so agreement = "only appends"
            for sub in ["C06", "C13"] {
                let o2 = gen_sub(sub, tier, seed ^ 0x17);
                for l in o2.lines {
                    let mut it = l.split(' ');
                    let _op = it.next();
                    if let Some(pre) = it.next() { if pre != "-" && r.chance(1, 4) { o.push(l.clone()); } }
                }
            }
            // the modes oracle (batches appended into buffers filled by earlier calls, predicate paths in between)
            {
                let o2 = gen_sub("C15", tier, seed ^ 0x17);
                for l in o2.lines { if l.starts_with("modes ") && r.chance(1, 2) { o.push(l.clone()); } }
            }
            // the same editors with JSON-text arguments (their text branch writes the buffer itself)
            {
                let o2 = gen_sub("C06", tier, seed ^ 0x171);
                for l in o2.lines {
                    let f: Vec<&str> = l.split(' ').collect();
                    let docpos: &[usize] = match f[0] { "concat" => &[2, 3], "delname" | "delidx" | "delkp" | "strip" | "objdel" | "objpick" | "distinct" => &[2], "arrins" | "objins" => &[2, 4], _ => &[] };
                    if docpos.is_empty() || f[1] == "-" || !r.chance(1, 6) { continue; }
                    let mut fs: Vec<String> = f.iter().map(|x| x.to_string()).collect();
                    let mask = 1 + r.below((1u64 << docpos.len()) - 1);
                    let mut ok = true;
                    for (k, p) in docpos.iter().enumerate() {
                        if mask & (1 << k) == 0 { continue; }
                        let raw = unhex(f[*p]).unwrap_or_default();
                        match jsonb::from_slice(&raw).ok() {
                            Some(v) if !crate::gen_text::has_nan(&v) => { let mut t = String::new(); crate::gen_text::render_json(&mut r, &v, crate::gen_text::Style::Strict, &mut t); fs[*p] = hex(t.trim_start_matches(' ').as_bytes()); }
                            _ => ok = false,
                        }
                    }
                    if ok { o.push(format!("t:{}", fs.join(" "))); }
                }
            }
            // selector writers (data holds earlier results, the offsets vector may be fresh) and the
            // comparable-key writer
            for sub in ["C08", "C14"] {
                let o2 = gen_sub(sub, tier, seed ^ 0x17);
                for l in o2.lines {
                    let f: Vec<&str> = l.split(' ').collect();
                    let keep = match f[0] {
                        "select" | "spec:select" => f.len() > 2 && f[2] != "-",
                        "getpath" | "getpathfirst" | "getpatharray" | "cmpkey" => f.len() > 1 && f[1] != "-",
                        _ => false,
                    };
                    if keep && r.chance(1, 3) { o.push(l.clone()); }
                }
            }
        }
        _ => {}
    }
    o
}

/// documents nested far deeper than the random ones (33 .. 520 levels), through the recursive and
/// the per-level code of each property's functions.  Only requests answered by the byte-level
/// implementation model or by an oracle on the real code: the specification functions of the driver
/// (`spec:` ops, encodeSpec) are written for proofs and take time exponential in the depth.
fn nested_lines(prop: &str, r: &mut Rng, o: &mut Out) {
    if prop == "C14" {
        // the depth byte saturates at 255: the key bytes themselves beyond that depth (no order claim there)
        for depth in [254usize, 255, 256, 300] { let v = nested_doc(r, depth); o.push(format!("cmpkey - {}", hex(&v.to_vec()))); }
    }
    let depths: &[usize] = if prop == "C14" { &[10, 25, 31] } else { NEST_DEPTHS };
    for &depth in depths {
        let v = nested_doc(r, depth);
        let w = nested_doc(r, depth);
        let (d, e) = (hex(&v.to_vec()), hex(&w.to_vec()));
        let t = show_value(&v);
        match prop {
            "C01" => { o.push(format!("enc {}", t)); o.push(format!("dec {}", d)); }
            "C03" => { for op in ["tostr", "topretty"] { o.push(format!("{} {} -", op, d)); } }
            "C04" => { o.push(format!("cmp {} {}", d, e)); o.push(format!("cmp {} {}", d, d)); o.push(format!("cmp {} {}", e, d)); }
            "C05" => { for op in ["typeof", "keys", "vals", "arrlen"] { o.push(format!("{} {}", op, d)); } o.push(format!("getidx {} 0", d)); o.push(format!("travstr {} eq:78", d)); o.push(format!("travstr {} eq:6b", d)); }
            "C06" => { o.push(format!("strip - {}", d)); o.push(format!("concat - {} {}", d, e)); o.push(format!("delkp - {} i0", d)); }
            "C10" => { o.push(format!("dec {}", d)); o.push(format!("t:fromslice {}", d)); o.push(format!("dec {}", &d[..d.len() - 2])); }
            "C12" => { o.push(format!("contains {} {}", d, d)); o.push(format!("contains {} {}", d, e)); o.push(format!("containslaws {} {} {}", d, e, d)); }
            "C14" => { o.push(format!("cmpkey - {}", d)); o.push(format!("keyorder {} {}", d, e)); o.push(format!("keyorder {} {}", d, d)); }
            "C17" => { o.push(format!("encinto 0102 {}", t)); }
            "C19" => { o.push(format!("toserde {}", d)); o.push(format!("toserdeobj {}", d)); o.push(format!("serdecheck {}", d)); o.push(format!("tjtext toserde {}", hex(jsonb::to_string(&v.to_vec()).as_bytes()))); o.push(format!("tjtext toserdeobj {}", hex(jsonb::to_string(&v.to_vec()).as_bytes()))); }
            "C08" => { for p in ["$", "$.k", "$[0]", "$[*]", "$.*", "$.k.k", "$?(exists(@.k))"] { let ph = hex(p.as_bytes()); o.push(format!("select all - {} {}", d, ph)); o.push(format!("getpath - {} {}", d, ph)); } }
            "C11" => { o.push(format!("tj 7 toserde {}", d)); o.push(format!("tj 7 tostr {} -", d)); o.push(format!("tj 7 cmp {} {}", d, e)); o.push(format!("tj 7 contains {} {}", d, d)); o.push(format!("tj 7 strip - {}", d)); o.push(format!("tj 7 typeof {}", d)); }
            _ => {}
        }
    }
}

/// small-scope exhaustive requests: every document with at most 4 values over a 7-scalar, 3-key
/// alphabet (6435 documents) through the one-document functions, every ordered pair of the documents
/// with at most 2 values (45 documents) through the two-document functions, every document with at
/// most 3 values (513) against a fixed list of paths and through every proper prefix of its encoding
fn small_scope_lines(prop: &str, tier: &str, r: &mut Rng, o: &mut Out) {
    let _ = tier;
    let both = |o: &mut Out, l: String| { o.push(format!("spec:{}", l)); o.push(l); };
    let d4 = || enum_docs(4);
    let d3 = || enum_docs(3);
    let d2 = || enum_docs(2);
    match prop {
        "C01" => for v in d4() { let t = show_value(&v); o.push(format!("enc {}", t)); o.push(format!("encspec {}", t)); o.push(format!("rtdec {}", t)); o.push(format!("dec {}", hex(&v.to_vec()))); },
        "C03" => for v in d4() { let d = hex(&v.to_vec()); let f = crate::ops_text::fmt_table(&v); o.push(format!("tostr {} {}", d, f)); o.push(format!("topretty {} {}", d, f)); o.push(format!("tostrcheck {} {}", d, f)); },
        "C05" => for v in d4() {
            let d = hex(&v.to_vec());
            if crate::props::count_nodes(&v) > 3 { for op in ["keys", "vals", "typeof"] { o.push(format!("{} {}", op, d)); } o.push(format!("getidx {} 1", d)); o.push(format!("getkp {} i-1,n61", d)); continue; }
            for op in ["arrlen", "keys", "each", "vals", "typeof"] { both(o, format!("{} {}", op, d)); }
            for i in 0..3 { both(o, format!("getidx {} {}", d, i)); }
            for n in ["-", "61", "41"] { both(o, format!("getname {} {} 0", d, n)); both(o, format!("getname {} {} 1", d, n)); }
            for kp in ["i0", "i-1", "n61", "q-", "i1,i0", "n61,i0", "i0,n61"] { both(o, format!("getkp {} {}", d, kp)); }
            both(o, format!("existsall {} 61", d)); both(o, format!("existsany {} -;62", d));
            both(o, format!("travstr {} eq:61", d)); both(o, format!("travstr {} eq:-", d));
        },
        "C06" => {
            for v in d3() {
                let d = hex(&v.to_vec());
                both(o, format!("strip - {}", d));
                for i in [-2, -1, 0, 1] { both(o, format!("delidx - {} {}", d, i)); both(o, format!("arrins 0a {} {} 2000000000000000", d, i)); }
                for n in ["61", "-"] { both(o, format!("delname - {} {}", d, n)); both(o, format!("objins - {} {} 2000000000000000 0", d, n)); both(o, format!("objins 0b {} {} 2000000000000000 1", d, n)); }
                for kp in ["i0", "i-1", "n61", "i0,i0", "n61,n61", "i0,n61"] { both(o, format!("delkp - {} {}", d, kp)); }
                both(o, format!("objdel - {} 61", d)); both(o, format!("objpick - {} 61;-", d)); both(o, format!("objpick 0c {} []", d));
            }
            let ds = d2();
            for a in &ds { for b in &ds { both(o, format!("concat - {} {}", hex(&a.to_vec()), hex(&b.to_vec()))); } }
        }
        "C13" => {
            for v in d3() { both(o, format!("distinct - {}", hex(&v.to_vec()))); }
            let ds = d2();
            for a in &ds { for b in &ds {
                let (ha, hb) = (hex(&a.to_vec()), hex(&b.to_vec()));
                both(o, format!("inter - {} {}", ha, hb)); both(o, format!("except - {} {}", ha, hb)); both(o, format!("overlap {} {}", ha, hb));
            } }
        }
        "C04" | "C12" | "C14" => {
            let ds = d2();
            for a in &ds { for b in &ds {
                let (ha, hb) = (hex(&a.to_vec()), hex(&b.to_vec()));
                match prop { "C04" => both(o, format!("cmp {} {}", ha, hb)), "C12" => both(o, format!("contains {} {}", ha, hb)), _ => o.push(format!("keyorder {} {}", ha, hb)) }
            } }
            if prop == "C14" { for v in d3() { o.push(format!("cmpkey - {}", hex(&v.to_vec()))); } }
            // one side with three values: nested containers against flat ones
            if prop != "C14" { let d3s = d3(); for a in d3s.iter() { if !r.chance(1, 4) { continue; } for b in ds.iter() { if !r.chance(1, 4) { continue; }
                let (ha, hb) = (hex(&a.to_vec()), hex(&b.to_vec()));
                let opn = if prop == "C04" { "cmp" } else { "contains" };
                both(o, format!("{} {} {}", opn, ha, hb)); both(o, format!("{} {} {}", opn, hb, ha));
            } } }
        }
        "C08" | "C15" => for v in d3() {
            let d = hex(&v.to_vec());
            for p in ["$", "$.a", "$[0]", "$[*]", "$.*", "$[last]", "$[0 to 1]", "$?(@ == 1)", "$.a[*]", "$[*].a", "$ == 1", "$.*[*]", "$[*]?(exists(@.a))"] {
                let ph = hex(p.as_bytes());
                if prop == "C15" { o.push(format!("modes {} {}", d, ph)); } else { both(o, format!("select all - {} {}", d, ph)); o.push(format!("getpath - {} {}", d, ph)); }
            }
        },
        "C10" => {
            // text that only the fallback reads: strings whose closing quote falls inside or right after an escape,
            // truncated and re-closed escapes, at the top level, as a value and as a key
            for t in ["\"\\u\"", "{\"k\":\"v\\u\"}", "\"\\u{1234\"", "\"\\ud83d\\u\"", "\"\\ud83d\\u{de00\"", "\"\\u{\"", "{\"\\u\":1}", "[\"\\u00\"]", "\"\\\"", "\"a\\", "[1,\"\\uD83D\"]", "\"\\u004\"", "{\"a\":\"\\u{41\"}"] {
                o.push(format!("t:fromslice {}", hex(t.as_bytes())));
                for k in 1..t.len() { if t.is_char_boundary(k) { o.push(format!("t:fromslice {}", hex(&t.as_bytes()[..k]))); } }
            }
            for v in d3() { let b = v.to_vec(); for k in 0..b.len() { o.push(format!("dec {}", hex(&b[..k]))); o.push(format!("fsreject {}", hex(&b[..k]))); } o.push(format!("dec {}", hex(&b))); }
        }
        "C10x" => for v in d3() { let b = v.to_vec(); for k in 0..b.len() { o.push(format!("dec {}", hex(&b[..k]))); o.push(format!("fsreject {}", hex(&b[..k]))); } o.push(format!("dec {}", hex(&b))); },
        "C11" => for v in d3() { let t = hex(jsonb::to_string(&v.to_vec()).as_bytes()); for op in ["arrlen", "keys", "typeof", "toserde", "each", "vals", "asnum", "asstr"] { o.push(format!("tjtext {} {}", op, t)); } },
        "C14x" => {}
        "C17" => for v in d3() { o.push(format!("encinto 0102 {}", show_value(&v))); o.push(format!("spec:encinto 0102 {}", show_value(&v))); },
        "C19" => for v in d4() { let d = hex(&v.to_vec()); o.push(format!("toserde {}", d)); o.push(format!("spec:toserde {}", d)); o.push(format!("toserdeobj {}", d)); o.push(format!("serdecheck {}", d)); },
        _ => {}
    }
}

pub fn count_nodes(v: &Value) -> usize {
    match v { Value::Array(a) => 1 + a.iter().map(count_nodes).sum::<usize>(), Value::Object(o) => 1 + o.values().map(count_nodes).sum::<usize>(), _ => 1 }
}
