//! Line-protocol syntax: hex strings and the tagged prefix syntax of trees (mirror of
//! lean/JsonbModel/Driver/Wire.lean).  The tree printer walks the Rust `Value` itself; it
//! never goes through jsonb's encoder.
use jsonb::{Number, Value};
use std::borrow::Cow;
use std::collections::BTreeMap;

pub fn hex(b: &[u8]) -> String {
    if b.is_empty() {
        return "-".to_string();
    }
    let mut s = String::with_capacity(b.len() * 2);
    for x in b {
        s.push_str(&format!("{:02x}", x));
    }
    s
}

pub fn unhex(s: &str) -> Option<Vec<u8>> {
    if s == "-" || s.is_empty() {
        return Some(vec![]);
    }
    let c = s.as_bytes();
    if c.len() % 2 != 0 {
        return None;
    }
    let mut out = Vec::with_capacity(c.len() / 2);
    for i in (0..c.len()).step_by(2) {
        let h = (c[i] as char).to_digit(16)?;
        let l = (c[i + 1] as char).to_digit(16)?;
        out.push((h * 16 + l) as u8);
    }
    Some(out)
}

pub fn show_num(n: &Number) -> String {
    match n {
        Number::Int64(i) => format!("I{}", i),
        Number::UInt64(u) => format!("U{}", u),
        Number::Float64(f) => format!("D{:016x}", f.to_bits()),
    }
}

pub fn show_value(v: &Value) -> String {
    let mut s = String::new();
    show_into(v, &mut s);
    s
}

fn show_into(v: &Value, s: &mut String) {
    match v {
        Value::Null => s.push('N'),
        Value::Bool(true) => s.push('T'),
        Value::Bool(false) => s.push('F'),
        Value::Number(n) => s.push_str(&show_num(n)),
        Value::String(x) => {
            s.push('S');
            s.push_str(&hex(x.as_bytes()));
        }
        Value::Array(vs) => {
            s.push_str(&format!("A{}", vs.len()));
            for x in vs {
                s.push(',');
                show_into(x, s);
            }
        }
        Value::Object(o) => {
            s.push_str(&format!("O{}", o.len()));
            for (k, x) in o {
                s.push_str(",K");
                s.push_str(&hex(k.as_bytes()));
                s.push(',');
                show_into(x, s);
            }
        }
    }
}

pub fn parse_num_tok(t: &str) -> Option<Number> {
    let (h, r) = t.split_at(1);
    match h {
        "I" => r.parse::<i64>().ok().map(Number::Int64),
        "U" => r.parse::<u64>().ok().map(Number::UInt64),
        "D" => u64::from_str_radix(r, 16).ok().map(|b| Number::Float64(f64::from_bits(b))),
        _ => None,
    }
}

/// Parse a tree; objects are built through `BTreeMap` (so keys given out of order or twice
/// end up sorted, last wins — the harness only sends sorted unique keys).
pub fn parse_tree(s: &str) -> Option<Value<'static>> {
    let toks: Vec<&str> = s.split(',').collect();
    let mut pos = 0;
    let v = parse_at(&toks, &mut pos)?;
    if pos == toks.len() {
        Some(v)
    } else {
        None
    }
}

fn parse_at(toks: &[&str], pos: &mut usize) -> Option<Value<'static>> {
    let t = *toks.get(*pos)?;
    *pos += 1;
    if t.is_empty() {
        return None;
    }
    let (h, r) = t.split_at(1);
    match h {
        "N" if r.is_empty() => Some(Value::Null),
        "T" if r.is_empty() => Some(Value::Bool(true)),
        "F" if r.is_empty() => Some(Value::Bool(false)),
        "S" => {
            let b = unhex(r)?;
            Some(Value::String(Cow::Owned(String::from_utf8(b).ok()?)))
        }
        "A" => {
            let n: usize = r.parse().ok()?;
            let mut vs = Vec::with_capacity(n.min(1 << 16));
            for _ in 0..n {
                vs.push(parse_at(toks, pos)?);
            }
            Some(Value::Array(vs))
        }
        "O" => {
            let n: usize = r.parse().ok()?;
            let mut o = BTreeMap::new();
            for _ in 0..n {
                let k = *toks.get(*pos)?;
                *pos += 1;
                let kb = unhex(k.strip_prefix('K')?)?;
                let v = parse_at(toks, pos)?;
                o.insert(String::from_utf8(kb).ok()?, v);
            }
            Some(Value::Object(o))
        }
        _ => parse_num_tok(t).map(Value::Number),
    }
}

pub fn show_ord(o: std::cmp::Ordering) -> &'static str {
    match o {
        std::cmp::Ordering::Less => "lt",
        std::cmp::Ordering::Equal => "eq",
        std::cmp::Ordering::Greater => "gt",
    }
}

/// serde_json as the independent strict parser, without its recursion limit of 128 levels (a
/// deeper document is not ill-formed JSON)
pub fn strict_json(text: &str) -> Result<serde_json::Value, serde_json::Error> {
    use serde::Deserialize;
    let mut de = serde_json::Deserializer::from_str(text);
    de.disable_recursion_limit();
    let v = serde_json::Value::deserialize(&mut de)?;
    de.end()?;
    Ok(v)
}
