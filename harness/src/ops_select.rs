//! JSONPath evaluation ops (C08, C15, C17, C07)
use crate::wire::*;
use jsonb::jsonpath::{parse_json_path, Mode, Selector};
use jsonb::Error;

fn mode_of(s: &str) -> Option<Mode> {
    Some(match s { "first" => Mode::First, "array" => Mode::Array, "all" => Mode::All, "mixed" => Mode::Mixed, _ => return None })
}

fn show_sel(pre: &[u8], data: &[u8], offs: &[u64], r: Result<(), Error>) -> String {
    match r {
        Ok(()) => {
            let o = if offs.is_empty() { "[]".to_string() } else { offs.iter().map(|x| x.to_string()).collect::<Vec<_>>().join(",") };
            if data.starts_with(pre) { format!("ok {} {}", hex(&data[pre.len()..]), o) } else { format!("ok-prefix-clobbered {} {}", hex(data), o) }
        }
        Err(Error::InvalidJsonPathPredicate) => "err:InvalidJsonPathPredicate".into(),
        Err(_) => if data == pre { "err".into() } else { "err-dirty".into() },
    }
}

fn show_bool(r: Result<bool, Error>) -> String {
    match r {
        Ok(b) => format!("ok {}", if b { "true" } else { "false" }),
        Err(Error::InvalidJsonPathPredicate) => "err:InvalidJsonPathPredicate".into(),
        Err(_) => "err".into(),
    }
}

/// items of an All-mode result, cut at the reported offsets
fn items(data: &[u8], offs: &[u64]) -> Option<Vec<Vec<u8>>> {
    let mut out = vec![];
    let mut start = 0usize;
    for o in offs {
        let e = *o as usize;
        if e < start || e > data.len() { return None; }
        out.push(data[start..e].to_vec());
        start = e;
    }
    if start != data.len() { return None; }
    Some(out)
}

pub fn exec(f: &[&str]) -> Option<String> {
    Some(match f {
        ["select", m, p, d, path] => {
            let pathb = unhex(path)?;
            let jp = match parse_json_path(&pathb) { Ok(j) => j, Err(_) => return Some("bad-path".into()) };
            let pre = unhex(p)?; let doc = unhex(d)?;
            let mut data = pre.clone(); let mut offs = vec![];
            let sel = Selector::new(jp, mode_of(m)?);
            let r = sel.select(&doc, &mut data, &mut offs);
            show_sel(&pre, &data, &offs, r)
        }
        // one Selector applied to several documents in turn, in a REUSED buffer (same address, and the same
        // length when the encodings are equally long): every answer must be the one a fresh Selector gives
        ["selreuse", m, path, docs @ ..] => {
            let pathb = unhex(path)?;
            mode_of(m)?;
            let sel = match parse_json_path(&pathb) { Ok(j) => Selector::new(j, mode_of(m)?), Err(_) => return Some("bad-path".into()) };
            let mut buf: Vec<u8> = Vec::with_capacity(docs.iter().map(|d| d.len()).max().unwrap_or(0));
            for round in 0..2 {
                for d in docs.iter() {
                    let doc = unhex(d)?;
                    buf.clear(); buf.extend_from_slice(&doc);
                    let (mut data, mut offs) = (vec![], vec![]);
                    let r = sel.select(&buf, &mut data, &mut offs);
                    let got = show_sel(&[], &data, &offs, r);
                    let e1 = show_bool(sel.exists(&buf));
                    let fresh = Selector::new(parse_json_path(&pathb).ok()?, mode_of(m)?);
                    let (mut data2, mut offs2) = (vec![], vec![]);
                    let r2 = fresh.select(&doc, &mut data2, &mut offs2);
                    let want = show_sel(&[], &data2, &offs2, r2);
                    let e2 = show_bool(Selector::new(parse_json_path(&pathb).ok()?, mode_of(m)?).exists(&doc));
                    if got != want || e1 != e2 { return Some(format!("MISMATCH round {} doc {}: reused selector {} / {} fresh {} / {}", round, d, got, e1, want, e2)); }
                }
            }
            "ok".into()
        }
        ["pexists", d, path] => {
            let pathb = unhex(path)?;
            let jp = match parse_json_path(&pathb) { Ok(j) => j, Err(_) => return Some("bad-path".into()) };
            let doc = unhex(d)?;
            show_bool(Selector::new(jp, Mode::Mixed).exists(&doc))
        }
        ["pmatch", d, path] => {
            let pathb = unhex(path)?;
            let jp = match parse_json_path(&pathb) { Ok(j) => j, Err(_) => return Some("bad-path".into()) };
            let doc = unhex(d)?;
            show_bool(Selector::new(jp, Mode::First).predicate_match(&doc))
        }
        ["getpath", p, d, path] | ["getpathfirst", p, d, path] | ["getpatharray", p, d, path] => {
            let pathb = unhex(path)?;
            let jp = match parse_json_path(&pathb) { Ok(j) => j, Err(_) => return Some("bad-path".into()) };
            let pre = unhex(p)?; let doc = unhex(d)?;
            let mut data = pre.clone(); let mut offs = vec![];
            let r = match f[0] {
                "getpath" => jsonb::get_by_path(&doc, jp, &mut data, &mut offs),
                "getpathfirst" => jsonb::get_by_path_first(&doc, jp, &mut data, &mut offs),
                _ => jsonb::get_by_path_array(&doc, jp, &mut data, &mut offs),
            };
            show_sel(&pre, &data, &offs, r)
        }
        ["pathexists", d, path] => {
            let pathb = unhex(path)?;
            let jp = match parse_json_path(&pathb) { Ok(j) => j, Err(_) => return Some("bad-path".into()) };
            show_bool(jsonb::path_exists(&unhex(d)?, jp))
        }
        ["pathmatch", d, path] => {
            let pathb = unhex(path)?;
            let jp = match parse_json_path(&pathb) { Ok(j) => j, Err(_) => return Some("bad-path".into()) };
            // which error an input that is neither JSONB nor valid JSON text gets is nobody's business
            let doc = unhex(d)?;
            let r = jsonb::path_match(&doc, jp);
            let sniffed = matches!(doc.first(), Some(0x20) | Some(0x40) | Some(0x80));
            if r.is_err() && !sniffed && jsonb::parse_value(&doc).is_err() { "err".into() } else { show_bool(r) }
        }
        // mutual consistency of the four modes, existence and the predicate check (C15),
        // evaluated on the real code alone
        ["modes", d, path] => {
            let pathb = unhex(path)?;
            let doc = unhex(d)?;
            let run = |m: Mode| -> Result<(Vec<u8>, Vec<u64>), Error> {
                let jp = parse_json_path(&pathb).map_err(|_| Error::InvalidJsonPath)?;
                let (mut data, mut offs) = (vec![], vec![]);
                Selector::new(jp, m).select(&doc, &mut data, &mut offs)?;
                Ok((data, offs))
            };
            let jp = match parse_json_path(&pathb) { Ok(j) => j, Err(_) => return Some("bad-path".into()) };
            let is_pred = jp.is_predicate();
            let (all, first, array, mixed) = (run(Mode::All), run(Mode::First), run(Mode::Array), run(Mode::Mixed));
            let exists = Selector::new(jp.clone(), Mode::Mixed).exists(&doc);
            let pmatch = Selector::new(jp.clone(), Mode::First).predicate_match(&doc);
            // the convenience functions must agree with the selector API
            let conv = |which: u8| -> Result<(Vec<u8>, Vec<u64>), Error> {
                let jp = parse_json_path(&pathb).map_err(|_| Error::InvalidJsonPath)?;
                let (mut data, mut offs) = (vec![], vec![]);
                match which { 0 => jsonb::get_by_path(&doc, jp, &mut data, &mut offs)?, 1 => jsonb::get_by_path_first(&doc, jp, &mut data, &mut offs)?, _ => jsonb::get_by_path_array(&doc, jp, &mut data, &mut offs)? };
                Ok((data, offs))
            };
            let same = |a: &Result<(Vec<u8>, Vec<u64>), Error>, b: &Result<(Vec<u8>, Vec<u64>), Error>| match (a, b) { (Ok(x), Ok(y)) => x == y, (Err(_), Err(_)) => true, _ => false };
            // a batch: the same selection appended into buffers that already hold an earlier result
            // (data and offsets in lockstep, and data with a fresh offsets vector): the prior bytes
            // stay, the appended bytes are those of the empty-buffer run, offsets are positions in
            // that same buffer
            for (n, alone) in [("all", &all), ("first", &first), ("array", &array), ("mixed", &mixed)] {
                if let Ok((d0, o0)) = alone {
                    for fresh_offsets in [false, true] {
                        let jp2 = match parse_json_path(&pathb) { Ok(j) => j, Err(_) => continue };
                        let (mut data, mut offs) = (d0.clone(), if fresh_offsets { vec![] } else { o0.clone() });
                        data.extend_from_slice(&[0xAA, 0xBB, 0xCC]);
                        let base = data.len();
                        let keep = offs.len();
                        let m = match n { "all" => Mode::All, "first" => Mode::First, "array" => Mode::Array, _ => Mode::Mixed };
                        if Selector::new(jp2, m).select(&doc, &mut data, &mut offs).is_err() { return Some(format!("batch: mode {} fails on a non-empty buffer", n)); }
                        if data[..base - 3] != d0[..] || data[base - 3..base] != [0xAA, 0xBB, 0xCC] { return Some(format!("batch: mode {} modified bytes already in the buffer", n)); }
                        if data[base..] != d0[..] { return Some(format!("batch: mode {} appends different bytes into a non-empty buffer", n)); }
                        let want: Vec<u64> = o0.iter().map(|x| x + base as u64).collect();
                        if offs[..keep] != o0[..keep.min(o0.len())] || offs[keep..] != want[..] { return Some(format!("batch: mode {} reports offsets that are not positions in the buffer (fresh offsets vector: {})", n, fresh_offsets)); }
                    }
                }
            }
            // the same document as JSON text (the functions sniff the representation themselves)
            if let Ok(v) = jsonb::from_slice(&doc) {
                if !crate::gen_text::has_nan(&v) {
                    let text = jsonb::to_string(&doc);
                    if jsonb::parse_value(text.as_bytes()).map(|pv| pv.to_vec() == doc).unwrap_or(false) {
                        let tb = text.as_bytes();
                        let convt = |which: u8| -> Result<(Vec<u8>, Vec<u64>), Error> {
                            let jp = parse_json_path(&pathb).map_err(|_| Error::InvalidJsonPath)?;
                            let (mut data, mut offs) = (vec![], vec![]);
                            match which { 0 => jsonb::get_by_path(tb, jp, &mut data, &mut offs)?, 1 => jsonb::get_by_path_first(tb, jp, &mut data, &mut offs)?, _ => jsonb::get_by_path_array(tb, jp, &mut data, &mut offs)? };
                            Ok((data, offs))
                        };
                        for w in 0..3u8 { if !same(&convt(w), &conv(w)) { return Some(format!("text form: get_by_path variant {} differs from the JSONB form", w)); } }
                        let (pe_t, pe_b) = (jsonb::path_exists(tb, jp.clone()), jsonb::path_exists(&doc, jp.clone()));
                        if pe_t.is_ok() != pe_b.is_ok() || pe_t.ok() != pe_b.ok() { return Some("text form: path_exists differs from the JSONB form".into()); }
                        let (pm_t, pm_b) = (jsonb::path_match(tb, jp.clone()), jsonb::path_match(&doc, jp.clone()));
                        if pm_t.is_ok() != pm_b.is_ok() || pm_t.ok() != pm_b.ok() { return Some("text form: path_match differs from the JSONB form".into()); }
                    }
                }
            }
            if !same(&conv(0), &mixed) { return Some("get_by_path differs from Mode::Mixed".into()); }
            if !same(&conv(1), &first) { return Some("get_by_path_first differs from Mode::First".into()); }
            if !same(&conv(2), &array) { return Some("get_by_path_array differs from Mode::Array".into()); }
            match (all, first, array, mixed) {
                (Ok(all), Ok(first), Ok(array), Ok(mixed)) => {
                    if is_pred {
                        let b = match pmatch { Ok(b) => b, Err(_) => return Some("predicate: path_match failed".into()) };
                        let want = jsonb::Value::Bool(b).to_vec();
                        for (n, r) in [("all", &all), ("first", &first), ("array", &array), ("mixed", &mixed)] {
                            if r.0 != want { return Some(format!("predicate: mode {} does not return the boolean of path_match", n)); }
                        }
                        if exists.ok() != Some(true) { return Some("predicate: exists is not true".into()); }
                        if jsonb::path_match(&doc, jp.clone()).ok() != Some(b) { return Some("path_match differs from predicate_match".into()); }
                        return Some("ok".into());
                    }
                    if pmatch.is_ok() { return Some("predicate_match accepted a non-predicate path".into()); }
                    let its = match items(&all.0, &all.1) { Some(x) => x, None => return Some("all-mode offsets do not delimit the data".into()) };
                    for it in &its {
                        match jsonb::parse_jsonb(it) { Ok(v) => if &v.to_vec() != it { return Some("an item is not a canonical document".into()); }, Err(_) => return Some("an item does not decode".into()) }
                    }
                    // first = first item or nothing
                    let fi = match items(&first.0, &first.1) { Some(x) => x, None => return Some("first-mode offsets do not delimit the data".into()) };
                    if fi.as_slice() != &its[..its.len().min(1)] { return Some("first-mode is not the first item of all-mode".into()); }
                    // array = one array holding exactly the items
                    if array.1.len() != 1 || array.1[0] as usize != array.0.len() { return Some("array-mode offsets".into()); }
                    match jsonb::array_values(&array.0) {
                        Some(vals) => if vals != its { return Some("array-mode does not hold exactly the all-mode items".into()); },
                        None => return Some("array-mode result is not an array".into()),
                    }
                    let want_mixed = if its.len() > 1 { &array } else { &all };
                    if &mixed != want_mixed { return Some("mixed-mode is neither array-mode (>=2 items) nor all-mode".into()); }
                    if exists.ok() != Some(!its.is_empty()) { return Some("exists does not coincide with a non-empty all-mode result".into()); }
                    if jsonb::path_exists(&doc, jp.clone()).ok() != Some(!its.is_empty()) { return Some("path_exists differs".into()); }
                    "ok".into()
                }
                (Err(_), Err(_), Err(_), Err(_)) => "ok".into(),
                _ => "modes disagree on success".into(),
            }
        }
        _ => return None,
    })
}
