//! to_string / to_pretty_string ops (C03) with serde_json as the independent strict parser
use crate::wire::*;
use jsonb::{Number, Value};

/// all floats of a document with their `Display` (ryu) rendering: `bits:hex;bits:hex`
pub fn fmt_table(v: &Value) -> String {
    let mut fs: Vec<u64> = vec![];
    collect_floats(v, &mut fs);
    fs.sort();
    fs.dedup();
    if fs.is_empty() {
        return "-".to_string();
    }
    fs.iter()
        .map(|b| format!("{:016x}:{}", b, hex(format!("{}", Number::Float64(f64::from_bits(*b))).as_bytes())))
        .collect::<Vec<_>>()
        .join(";")
}

fn collect_floats(v: &Value, out: &mut Vec<u64>) {
    match v {
        Value::Number(Number::Float64(f)) => out.push(f.to_bits()),
        Value::Array(vs) => vs.iter().for_each(|x| collect_floats(x, out)),
        Value::Object(o) => o.values().for_each(|x| collect_floats(x, out)),
        _ => {}
    }
}

/// independent conversion of the decoded document for comparison with serde_json's reading
fn to_serde(v: &Value) -> Option<serde_json::Value> {
    Some(match v {
        Value::Null => serde_json::Value::Null,
        Value::Bool(b) => serde_json::Value::Bool(*b),
        Value::Number(Number::Int64(i)) => serde_json::Value::Number((*i).into()),
        Value::Number(Number::UInt64(u)) => serde_json::Value::Number((*u).into()),
        Value::Number(Number::Float64(f)) => serde_json::Value::Number(serde_json::Number::from_f64(*f)?),
        Value::String(s) => serde_json::Value::String(s.to_string()),
        Value::Array(vs) => serde_json::Value::Array(vs.iter().map(to_serde).collect::<Option<_>>()?),
        Value::Object(o) => {
            let mut m = serde_json::Map::new();
            for (k, x) in o { m.insert(k.clone(), to_serde(x)?); }
            serde_json::Value::Object(m)
        }
    })
}

/// serde_json distinguishes 1 from 1.0 and -0 … compare numbers by kind and value as the
/// property states them: same u64, i64 or f64
fn serde_eq(a: &serde_json::Value, b: &serde_json::Value) -> bool {
    use serde_json::Value as J;
    match (a, b) {
        (J::Number(x), J::Number(y)) => {
            if let (Some(p), Some(q)) = (x.as_u64(), y.as_u64()) { return p == q; }
            if let (Some(p), Some(q)) = (x.as_i64(), y.as_i64()) { return p == q; }
            // serde_json's default float reader (no `float_roundtrip` feature) is not correctly
            // rounded: accept one ulp here; exactness of the text is judged by the Lean strict
            // parser on the byte-identical text (tostr correspondence) and by parse_value below
            if x.is_f64() && y.is_f64() {
                // (serde_json's reader can be several ulps off for large exponents: this comparison
                // is structural; every float text is checked exactly by `floats_exact`)
                let (p, q) = (x.as_f64().unwrap().to_bits() as i128, y.as_f64().unwrap().to_bits() as i128);
                return (p - q).abs() <= 64;
            }
            false
        }
        (J::Array(x), J::Array(y)) => x.len() == y.len() && x.iter().zip(y).all(|(p, q)| serde_eq(p, q)),
        (J::Object(x), J::Object(y)) => x.len() == y.len() && x.iter().all(|(k, p)| y.get(k).map_or(false, |q| serde_eq(p, q))),
        _ => a == b,
    }
}

/// every float literal of the text, read with std's correctly rounded `str::parse`, in text order
pub fn float_tokens(t: &str) -> Vec<u64> {
    let b = t.as_bytes();
    let mut out = vec![];
    let (mut i, mut in_str, mut esc) = (0usize, false, false);
    while i < b.len() {
        let c = b[i];
        if in_str { if esc { esc = false; } else if c == b'\\' { esc = true; } else if c == b'"' { in_str = false; } i += 1; continue; }
        if c == b'"' { in_str = true; i += 1; continue; }
        if c == b'-' || c.is_ascii_digit() {
            let st = i;
            while i < b.len() && (b[i] == b'-' || b[i] == b'+' || b[i] == b'.' || b[i] == b'e' || b[i] == b'E' || b[i].is_ascii_digit()) { i += 1; }
            let tok = &t[st..i];
            if tok.contains('.') || tok.contains('e') || tok.contains('E') {
                out.push(tok.parse::<f64>().map(|f| f.to_bits()).unwrap_or(u64::MAX));
            }
            continue;
        }
        i += 1;
    }
    out
}

/// the finite floats of a document in rendering order (arrays in order, objects in key order)
pub fn doc_floats(v: &Value, out: &mut Vec<u64>) {
    match v {
        Value::Number(Number::Float64(f)) => out.push(f.to_bits()),
        Value::Array(vs) => vs.iter().for_each(|x| doc_floats(x, out)),
        Value::Object(o) => o.values().for_each(|x| doc_floats(x, out)),
        _ => {}
    }
}

fn all_unsigned(v: &Value) -> bool {
    match v {
        Value::Number(Number::Int64(i)) => *i < 0,
        Value::Array(vs) => vs.iter().all(all_unsigned),
        Value::Object(o) => o.values().all(all_unsigned),
        _ => true,
    }
}

fn strip_ws(t: &str) -> String {
    let mut out = String::new();
    let mut in_str = false;
    let mut esc = false;
    for c in t.chars() {
        if in_str {
            out.push(c);
            if esc { esc = false; } else if c == '\\' { esc = true; } else if c == '"' { in_str = false; }
        } else if c == ' ' || c == '\n' || c == '\t' || c == '\r' {
        } else {
            if c == '"' { in_str = true; }
            out.push(c);
        }
    }
    out
}

/// two-space indentation, one member per line
fn pretty_shape_ok(t: &str) -> Result<(), String> {
    let mut depth: i64 = 0;
    for (n, line) in t.split('\n').enumerate() {
        let body = line.trim_start_matches(' ');
        let indent = (line.len() - body.len()) as i64;
        if body.is_empty() { continue; }
        let first = body.chars().next().unwrap();
        let expect = if first == ']' || first == '}' { 2 * (depth - 1) } else { 2 * depth };
        if indent != expect { return Err(format!("line {}: indent {} expected {}", n, indent, expect)); }
        // walk the line: commas outside strings only at the end of the line
        let mut in_str = false; let mut esc = false;
        let chars: Vec<char> = body.chars().collect();
        for (i, c) in chars.iter().enumerate() {
            if in_str { if esc { esc = false; } else if *c == '\\' { esc = true; } else if *c == '"' { in_str = false; } continue; }
            match c {
                '"' => in_str = true,
                '[' | '{' => { depth += 1; if i != chars.len() - 1 { return Err(format!("line {}: text after an opening bracket", n)); } }
                ']' | '}' => depth -= 1,
                ',' => if i != chars.len() - 1 { return Err(format!("line {}: two members on one line", n)); },
                _ => {}
            }
        }
    }
    Ok(())
}

pub fn exec(f: &[&str]) -> Option<String> {
    Some(match f {
        ["tostr", d, _] => format!("ok {}", hex(jsonb::to_string(&unhex(d)?).as_bytes())),
        ["topretty", d, _] => format!("ok {}", hex(jsonb::to_pretty_string(&unhex(d)?).as_bytes())),
        ["tostrcheck", d, _] => {
            let doc = unhex(d)?;
            let v = jsonb::from_slice(&doc).ok()?;
            let t = jsonb::to_string(&doc);
            let tp = jsonb::to_pretty_string(&doc);
            let want = match to_serde(&v) { Some(w) => w, None => return Some("skip".into()) };
            let s1: serde_json::Value = match crate::wire::strict_json(&t) { Ok(x) => x, Err(_) => return Some("compact text is not strict JSON".into()) };
            let s2: serde_json::Value = match crate::wire::strict_json(&tp) { Ok(x) => x, Err(_) => return Some("pretty text is not strict JSON".into()) };
            let mut fl = vec![]; doc_floats(&v, &mut fl);
            if float_tokens(&t) != fl { return Some("compact text: a float literal does not read back (correctly rounded) to the stored double".into()); }
            if float_tokens(&tp) != fl { return Some("pretty text: a float literal does not read back (correctly rounded) to the stored double".into()); }
            if !serde_eq(&s1, &want) { return Some("compact text denotes another document".into()); }
            if !serde_eq(&s2, &want) { return Some("pretty text denotes another document".into()); }
            match jsonb::parse_value(t.as_bytes()) {
                Ok(p) => {
                    if p != v { return Some("parse_value of the text is not equal to the document".into()); }
                    if all_unsigned(&v) && p.to_vec() != doc { return Some("re-encoding the parsed text differs".into()); }
                }
                Err(_) => return Some("parse_value rejects the text".into()),
            }
            if strip_ws(&tp) != t { return Some("pretty differs from compact beyond whitespace".into()); }
            if let Err(e) = pretty_shape_ok(&tp) { return Some(format!("pretty shape: {}", e)); }
            "ok".into()
        }
        ["jparse", h] => crate::ops::res_tree(jsonb::parse_value(&unhex(h)?)),
        // the intended meaning is part of the request
        ["jexpect", h, want] => match jsonb::parse_value(&unhex(h)?) {
            Ok(v) => { let got = show_value(&v); if got == *want { "ok".into() } else { format!("MISMATCH got {}", got) } }
            Err(_) => "MISMATCH rejected".into(),
        },
        // C10: JSON text (not starting with a space) handed to from_slice must be decoded by the
        // text fallback to the value the text denotes
        ["fsexpect", h, want] => match jsonb::from_slice(&unhex(h)?) {
            Ok(v) => { let got = show_value(&v); if got == *want { "ok".into() } else { format!("MISMATCH text read as {}", got) } }
            Err(_) => "MISMATCH rejected".into(),
        },
        // C10: a proper prefix of a valid encoding (or another malformed byte string) must be rejected
        // by from_slice as well: the text fallback must not turn it into a document
        ["fsreject", h] => match jsonb::from_slice(&unhex(h)?) {
            Ok(v) => format!("MISMATCH accepted as {}", show_value(&v)),
            Err(_) => "ok".into(),
        },
        // the text is malformed by construction: it must be rejected with an error
        ["jreject", h] => match jsonb::parse_value(&unhex(h)?) {
            Ok(v) => format!("MISMATCH accepted as {}", show_value(&v)),
            Err(_) => "ok".into(),
        },
        _ => return None,
    })
}
