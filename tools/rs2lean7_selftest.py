#!/usr/bin/env python3
"""Self-test of the phase-7 Rust -> Lean translator (tools/rs2lean7.py: the public dispatchers of the editors of
functions.rs with their JSON-text branches) and of its agreement theorems (lean/JsonbModel/Proofs/TranslatedAgreeK*.lean).
Same three questions as the self-tests of phases 1-6:

  (a) robustness: re-formatting the source leaves the generated Lean text byte-identical; a change
      that leaves the subset keeps the committed block and says so;
  (b) sensitivity: each small LOGIC mutation of a target function (documents swapped, sniffing test inverted, wrong
      `_jsonb` half, wrong index, element kept instead of dropped, ...), applied one at a time, changes the generated text
      and makes an agreement proof FAIL, while the unmutated source PASSES;
  (c) tolerance: harmless re-spellings are still proved.

Works on a copy of $VERIF_REPO/src (default /repo) in a temporary directory under /tmp; Lean runs on
scratch files in a second temporary directory (nothing under lean/ is written).  The Lean project
is $RS2LEAN7_LEAN (default <verif>/lean); its `JsonbModel.Proofs.TranslatedAgreeK` must be built.
Python 3 stdlib only.  Exit code 0 iff everything behaved as expected."""
import concurrent.futures, json, os, re, shutil, subprocess, sys, tempfile, time

HERE = os.path.dirname(os.path.abspath(__file__))
VERIF = os.path.normpath(os.path.join(HERE, ".."))
LEAN = os.environ.get("RS2LEAN7_LEAN", os.path.join(VERIF, "lean"))
REPO = os.environ.get("VERIF_REPO", "/repo")
TOOL = os.path.join(HERE, "rs2lean7.py")
JOBS = int(os.environ.get("RS2LEAN_SELFTEST_JOBS", "4"))
COMMITTED = os.path.join(LEAN, "JsonbModel", "Generated", "Translated7.lean")

sys.path.insert(0, HERE)
from rs2lean_selftest import reformat_variants, mutate  # noqa: E402

PARTS = {}
for _f in sorted(os.listdir(os.path.join(LEAN, "JsonbModel", "Proofs"))):
    _m = re.fullmatch(r"TranslatedAgreeK(\d+)\.lean", _f)
    if _m:
        PARTS[int(_m.group(1))] = _f

F = "src/functions.rs"
V = "src/value.rs"
ONE = [2]                   # one-document dispatchers (needs 1)
TWO = [3]                   # two-document dispatchers (needs 1)
DBI = [4]                   # delete_by_index
DBN = [5]                   # delete_by_name (needs 4)
ALN = [6]                   # array_length (needs 4)
STN = [7]                   # strip_nulls (needs 5)
CAT = [8]                   # concat (needs 5)

SNIFF2 = ("    if !is_jsonb(value1) {\n        let value1 = parse_value(value1)?;\n        let mut val_buf1 = Vec::new();\n"
          "        value1.write_to_vec(&mut val_buf1);\n        if !is_jsonb(value2) {")
DBI_IF = "                if index >= 0 && index < len {\n                    arr.remove(index as usize);"
AL_ARMS = "            Ok(val) => val.array_length(),\n            Err(_) => None,"

# (id, file, old text, new text, which occurrence (0-based), agreement parts to check, theorem expected to fail)
MUTATIONS = [
    ("ai-documents-swapped", F, "            return array_insert_jsonb(&val_buf, pos, &new_val_buf, buf);", "            return array_insert_jsonb(&new_val_buf, pos, &val_buf, buf);", 0, TWO, "array_insert_whole"),
    ("ai-text-value-not-converted", F, "        return array_insert_jsonb(value, pos, &new_val_buf, buf);", "        return array_insert_jsonb(value, pos, new_value, buf);", 0, TWO, None),
    ("ais-sniff-inverted", F, SNIFF2, SNIFF2.replace("    if !is_jsonb(value1) {", "    if is_jsonb(value1) {"), 0, TWO, "array_intersection_whole"),
    ("aex-second-sniff-dropped", F, "        return array_except_jsonb(&val_buf1, value2, buf);", "        return array_except_jsonb(&val_buf1, &val_buf1, buf);", 0, TWO, "array_except_whole"),
    ("od-pick-half", F, "        return object_delete_jsonb(&val_buf, keys, buf);", "        return object_pick_jsonb(&val_buf, keys, buf);", 0, ONE, "object_delete_whole"),
    ("ad-parses-nothing", F, "        return array_distinct_jsonb(&val_buf, buf);", "        return array_distinct_jsonb(value_text, buf);", 0, ONE, None),
    ("dbi-removes-first", F, DBI_IF, DBI_IF.replace("arr.remove(index as usize);", "arr.remove(0);"), 0, DBI, "delete_by_index_whole"),
    ("dbi-bound-inclusive", F, DBI_IF, DBI_IF.replace("index < len", "index <= len"), 0, DBI, "delete_by_index_whole"),
    ("dbi-negative-from-len-minus", F, "                let index = if index < 0 { len + index } else { index };\n" + DBI_IF, "                let index = if index < 0 { len - index } else { index };\n" + DBI_IF, 0, DBI, "delete_by_index_whole"),
    ("dbn-keeps-the-matches", F, "                arr.retain(|item| !matches!(item, Value::String(v) if v.eq(name)));", "                arr.retain(|item| matches!(item, Value::String(v) if v.eq(name)));", 0, DBN, "delete_by_name_whole"),
    ("dbn-object-key-kept", F, "            Value::Object(obj) => {\n                obj.remove(name);\n            }\n            _ => return Err(Error::InvalidJsonType),\n        };\n        val.write_to_vec(buf);", "            Value::Object(obj) => {\n            }\n            _ => return Err(Error::InvalidJsonType),\n        };\n        val.write_to_vec(buf);", 0, DBN, "delete_by_name_whole"),
    ("al-parse-error-is-zero", F, AL_ARMS, AL_ARMS.replace("Err(_) => None,", "Err(_) => Some(0),"), 0, ALN, "array_length_whole_text"),
    ("svn-retain-inverted", F, "            obj.retain(|_, v| !matches!(v, Value::Null));", "            obj.retain(|_, v| matches!(v, Value::Null));", 0, STN, "strip_value_nulls_agrees"),
    ("svn-array-not-descended", F, "            for v in arr {\n                strip_value_nulls(v);\n            }\n", "", 0, STN, "strip_value_nulls_agrees"),
    ("svn-object-values-not-descended", F, "            for (_, v) in obj.iter_mut() {\n                strip_value_nulls(v);\n            }\n", "", 0, STN, "strip_value_nulls_agrees"),
    ("sn-text-not-stripped", F, "        strip_value_nulls(&mut json);\n", "", 0, STN, "strip_nulls_whole"),
    ("cv-arrays-reversed", F, "            let mut result = left;\n            result.append(&mut right);\n            Value::Array(result)", "            let mut result = right;\n            result.append(&mut left);\n            Value::Array(result)", 0, CAT, "concat_values_agrees"),
    ("cv-scalar-behind-array", F, "            result.push(left);\n            result.append(&mut right);", "            result.append(&mut right);\n            result.push(left);", 0, CAT, None),
    ("cv-pair-swapped", F, "        (left, right) => Value::Array(vec![left, right]),", "        (left, right) => Value::Array(vec![right, left]),", 0, CAT, "concat_values_agrees"),
    ("cat-arguments-swapped", F, "        let result = concat_values(left_val, right_val);", "        let result = concat_values(right_val, left_val);", 0, CAT, "concat_whole"),
    ("cat-sniff-conjunction", F, "    if !is_jsonb(left) || !is_jsonb(right) {\n        let left_val = from_slice(left)?;", "    if !is_jsonb(left) && !is_jsonb(right) {\n        let left_val = from_slice(left)?;", 0, CAT, "concat_whole"),
    ("val-length-plus-one", V, "            Value::Array(arr) => Some(arr.len()),", "            Value::Array(arr) => Some(arr.len() + 1),", 0, ALN, "value_array_length_agrees"),
]

RESPELLINGS = [
    ("cat-sniff-flipped", F, "    if !is_jsonb(left) || !is_jsonb(right) {\n        let left_val = from_slice(left)?;", "    if !is_jsonb(right) || !is_jsonb(left) {\n        let left_val = from_slice(left)?;", 0, CAT),
    ("dbn-eq-flipped", F, "                arr.retain(|item| !matches!(item, Value::String(v) if v.eq(name)));", "                arr.retain(|item| !matches!(item, Value::String(v) if name.eq(v)));", 0, DBN),
    ("al-swapped-arms", F, AL_ARMS, "            Err(_) => None,\n            Ok(val) => val.array_length(),", 0, ALN),
    ("ad-if-else", F, "        return array_distinct_jsonb(&val_buf, buf);\n    }\n    array_distinct_jsonb(value, buf)", "        return array_distinct_jsonb(&val_buf, buf);\n    }\n    return array_distinct_jsonb(value, buf);", 0, ONE),
]

# changes that leave the subset / remove a target: the tool must say so and keep the committed block
RETENTION = [
    ("renamed-away", F, "pub fn object_pick(value: &[u8]", "pub fn object_pick2(value: &[u8]", 0, "src/functions.rs::object_pick", "missing"),
    ("out-of-subset-dedup", F, "                arr.retain(|item| !matches!(item, Value::String(v) if v.eq(name)));", "                arr.dedup_by(|a, b| a.eq_variant(b));", 0, "src/functions.rs::delete_by_name", "unsupported"),
    ("out-of-subset-swap-remove", F, "arr.remove(index as usize);", "arr.swap_remove(index as usize);", 0, "src/functions.rs::delete_by_index", "unsupported"),
]


def run_tool(src_root, out_path):
    """-> (generated text, status dict)"""
    env = dict(os.environ, VERIF_REPO=src_root, RS2LEAN7_OUT=out_path, RS2LEAN7_PREV=COMMITTED)
    if os.path.exists(out_path):
        os.remove(out_path)
    r = subprocess.run([sys.executable, TOOL], env=env, capture_output=True, text=True)
    if r.returncode != 0:
        raise RuntimeError("rs2lean7.py crashed: " + r.stderr[-2000:])
    status = json.loads(r.stdout.strip().splitlines()[-1])
    r2 = subprocess.run([sys.executable, TOOL, "--stdout"], env=env, capture_output=True, text=True)
    if r2.returncode != 0:
        raise RuntimeError("rs2lean7.py --stdout crashed: " + r2.stderr[-2000:])
    text = open(out_path, encoding="utf-8").read()
    if text != r2.stdout:
        raise RuntimeError("--stdout and the written file differ")
    return text, status


def scratch_lean(scratch, generated, parts, name):
    """one self-contained Lean file: generated definitions + the agreement parts"""
    imports, bodies = [], []
    texts = [generated] + [open(os.path.join(LEAN, "JsonbModel", "Proofs", PARTS[p]), encoding="utf-8").read() for p in parts]
    for t in texts:
        body = []
        for line in t.splitlines():
            m = re.match(r"import\s+(\S+)", line)
            if m:
                mod = m.group(1)
                if mod == "JsonbModel.Generated.Translated7" or re.fullmatch(r"JsonbModel\.Proofs\.TranslatedAgreeK\d*", mod):
                    continue
                if mod not in imports:
                    imports.append(mod)
            else:
                body.append(line)
        bodies.append("\n".join(body))
    path = os.path.join(scratch, name + ".lean")
    with open(path, "w", encoding="utf-8") as f:
        f.write("\n".join("import " + m for m in imports) + "\n\n" + "\n\n".join(bodies) + "\n")
    return path


def lean_check(path):
    """-> (ok, first failing theorem or None, seconds)"""
    t0 = time.time()
    r = subprocess.run(["lake", "env", "lean", path], cwd=LEAN, capture_output=True, text=True)
    out = r.stdout + r.stderr
    dt = time.time() - t0
    errs = [int(m.group(1)) for m in re.finditer(r"^[^\n:]+:(\d+):\d+: error", out, re.M)]
    if r.returncode == 0 and not errs:
        return True, None, dt
    first = None
    if errs:
        lines = open(path, encoding="utf-8").read().splitlines()
        for ln in range(min(errs) - 1, -1, -1):
            m = re.match(r"\s*(?:theorem|def|instance)\s+(\S+)", lines[ln] if ln < len(lines) else "")
            if m:
                first = m.group(1)
                break
    return False, first or "(lean failed: %s)" % (out.strip().splitlines() or ["?"])[-1][:80], dt


def all_parts(parts):
    """a part needs the parts before it that it imports"""
    need = set()
    for p in parts:
        need.add(p)
        text = open(os.path.join(LEAN, "JsonbModel", "Proofs", PARTS[p]), encoding="utf-8").read()
        for m in re.finditer(r"^import JsonbModel\.Proofs\.TranslatedAgreeK(\d+)", text, re.M):
            need |= set(all_parts([int(m.group(1))]))
    return sorted(need)


def main():
    only = [a for a in sys.argv[1:] if not a.startswith("-")]
    t_start = time.time()
    tmp = tempfile.mkdtemp(prefix="rs2lean7_selftest_src_", dir="/tmp")
    scratch = tempfile.mkdtemp(prefix="rs2lean7_selftest_lean_", dir="/tmp")
    failures, rows = [], []
    have_parts = sorted(PARTS)
    try:
        shutil.copytree(os.path.join(REPO, "src"), os.path.join(tmp, "src"))
        out = os.path.join(scratch, "Translated7.out.lean")
        base, status = run_tool(tmp, out)
        bad = {k: v for k, v in status["functions"].items() if v != "translated"}
        if bad:
            failures.append("baseline: not everything translated: %s" % bad)
        committed = open(COMMITTED, encoding="utf-8").read()
        rows.append(("baseline", "generated == committed Translated7.lean", "yes" if committed == base else "NO", ""))
        if committed != base:
            failures.append("baseline: generated text differs from the committed Generated/Translated7.lean")

        # (a) formatting robustness
        files = sorted({"src/functions.rs", "src/value.rs"})
        originals = {f: open(os.path.join(tmp, f), encoding="utf-8").read() for f in files}
        if not only:
            for vi in range(3):
                name = None
                for f in files:
                    name, text = reformat_variants(originals[f])[vi]
                    open(os.path.join(tmp, f), "w", encoding="utf-8", newline="").write(text)
                text, st = run_tool(tmp, out)
                same = text == base
                rows.append(("format", name, "identical" if same else "DIFFERENT", ""))
                if not same:
                    failures.append("format variant %s changed the output" % name)
                for f in files:
                    open(os.path.join(tmp, f), "w", encoding="utf-8").write(originals[f])

            # (a') retention of committed blocks
            for mid, file, old, new, occ, key, want in RETENTION:
                saved = mutate(tmp, file, old, new, occ)
                try:
                    text, st = run_tool(tmp, out)
                finally:
                    open(os.path.join(tmp, file), "w", encoding="utf-8").write(saved)
                got = st["functions"].get(key, "?")
                good = got.startswith(want) and text == base and st["ok"] is False
                rows.append(("retention", mid, ("%s, committed block kept" % want) if good else "WRONG: %s" % got[:70], ""))
                if not good:
                    failures.append("retention %s: status %r, text identical: %s" % (mid, got, text == base))

        jobs = []     # (kind, id, path, expected_ok, expected_theorem)
        if not only:
            jobs.append(("baseline", "unmutated", scratch_lean(scratch, base, have_parts, "base"), True, None))
        for kind, table in (("mutation", MUTATIONS), ("respelling", RESPELLINGS)):
            for row in table:
                mid, file, old, new, occ, parts = row[:6]
                if only and mid not in only:
                    continue
                expect = row[6] if kind == "mutation" else None
                if any(p not in have_parts for p in parts):
                    rows.append((kind, mid, "SKIPPED (part missing)", ""))
                    continue
                saved = mutate(tmp, file, old, new, occ)
                try:
                    text, st = run_tool(tmp, out)
                finally:
                    open(os.path.join(tmp, file), "w", encoding="utf-8").write(saved)
                nb = {k: v for k, v in st["functions"].items() if v != "translated"}
                if nb:
                    if kind == "mutation" and expect is None:
                        rows.append((kind, mid, "leaves the subset (reported, block kept)", ""))
                        continue
                    rows.append((kind, mid, "UNSUPPORTED", str(nb)[:100]))
                    failures.append("%s %s left the subset: %s" % (kind, mid, nb))
                    continue
                if text == base:
                    if kind == "respelling":
                        rows.append((kind, mid, "generated text identical (nothing to re-prove)", ""))
                        continue
                    rows.append((kind, mid, "NO CHANGE in generated text", ""))
                    failures.append("%s %s did not change the generated text" % (kind, mid))
                    continue
                jobs.append((kind, mid, scratch_lean(scratch, text, all_parts(parts), mid), kind == "respelling", expect))

        with concurrent.futures.ThreadPoolExecutor(max_workers=JOBS) as ex:
            results = list(ex.map(lambda j: lean_check(j[2]), jobs))
        for (kind, mid, path, exp_ok, exp_thm), (ok, thm, dt) in zip(jobs, results):
            if exp_ok:
                verdict = "proofs PASS" if ok else "proofs FAIL at %s" % thm
                if not ok:
                    failures.append("%s %s: expected the agreement proofs to pass, failed at %s" % (kind, mid, thm))
            else:
                verdict = ("proof FAILS at %s" % thm) if not ok else "NOT DETECTED (proofs pass)"
                if ok:
                    failures.append("mutation %s was not detected" % mid)
                elif exp_thm and thm != exp_thm:
                    verdict += " (expected %s)" % exp_thm
            rows.append((kind, mid, verdict, "%.1fs" % dt))
    finally:
        shutil.rmtree(tmp, ignore_errors=True)
        if not os.environ.get("RS2LEAN7_KEEP"):
            shutil.rmtree(scratch, ignore_errors=True)

    w1 = max(len(r[0]) for r in rows)
    w2 = max(len(r[1]) for r in rows)
    w3 = max(len(r[2]) for r in rows)
    print("%-*s  %-*s  %-*s  %s" % (w1, "kind", w2, "case", w3, "result", "time"))
    for r in rows:
        print("%-*s  %-*s  %-*s  %s" % (w1, r[0], w2, r[1], w3, r[2], r[3]))
    n_mut = sum(1 for r in rows if r[0] == "mutation" and not r[2].startswith("SKIPPED"))
    n_det = sum(1 for r in rows if r[0] == "mutation" and r[2].startswith("proof FAILS"))
    print("mutations detected: %d / %d; wall %.0fs" % (n_det, n_mut, time.time() - t_start))
    if failures:
        print("SELFTEST FAILED:")
        for f in failures:
            print("  - " + f)
        return 1
    print("SELFTEST OK")
    return 0


if __name__ == "__main__":
    sys.exit(main())
