#!/usr/bin/env python3
"""Self-test of the phase-6a Rust -> Lean translator (tools/rs2lean6a.py: the JSONPath selector of
src/jsonpath/selector.rs and the AST types of src/jsonpath/path.rs) and of its agreement theorems
(lean/JsonbModel/Proofs/TranslatedAgreeG*.lean).  Same three questions as the self-tests of phases 1-5:

  (a) robustness: re-formatting the source leaves the generated Lean text byte-identical; a change
      that leaves the subset keeps the committed block and says so;
  (b) sensitivity: each small LOGIC mutation of a target function (wrong mask, wrong offset, wrong tag, entry not
      patched, inverted test, operands swapped, wrong variant order, wrong error, ...), applied one at a time, changes
      the generated text and makes an agreement proof FAIL, while the unmutated source PASSES;
  (c) tolerance: harmless re-spellings are still proved.

Works on a copy of $VERIF_REPO/src (default /repo) in a temporary directory under /tmp; Lean runs on
scratch files in a second temporary directory (nothing under lean/ is written).  The Lean project
is $RS2LEAN6A_LEAN (default <verif>/lean); its `JsonbModel.Proofs.TranslatedAgreeG` must be built.
Python 3 stdlib only.  Exit code 0 iff everything behaved as expected."""
import concurrent.futures, json, os, re, shutil, subprocess, sys, tempfile, time

HERE = os.path.dirname(os.path.abspath(__file__))
VERIF = os.path.normpath(os.path.join(HERE, ".."))
LEAN = os.environ.get("RS2LEAN6A_LEAN", os.path.join(VERIF, "lean"))
REPO = os.environ.get("VERIF_REPO", "/repo")
TOOL = os.path.join(HERE, "rs2lean6a.py")
JOBS = int(os.environ.get("RS2LEAN_SELFTEST_JOBS", "4"))
COMMITTED = os.path.join(LEAN, "JsonbModel", "Generated", "Translated6a.lean")

sys.path.insert(0, HERE)
import rs2lean  # noqa: E402
import rs2lean2  # noqa: E402
import rs2lean3  # noqa: E402
import rs2lean4  # noqa: E402
import rs2lean6a  # noqa: E402
from rs2lean_selftest import reformat_variants, mutate  # noqa: E402

PARTS = {}
for _f in sorted(os.listdir(os.path.join(LEAN, "JsonbModel", "Proofs"))):
    _m = re.fullmatch(r"TranslatedAgreeG(\d+)\.lean", _f)
    if _m:
        PARTS[int(_m.group(1))] = _f

S = "src/jsonpath/selector.rs"
P = "src/jsonpath/path.rs"
FN = "src/functions.rs"

POS_IF = "            let pos = if *jty == CONTAINER_TAG {"
PUSH_ADV = "            poses.push_back(pos);\n            offset += jlength;\n"
OBJ_CHECK = "        if ty != OBJECT_CONTAINER_TAG || length == 0 {"
LAX_BW = "                                if path == &Path::BracketWildcard {\n                                    poses.push_back(pos);"

# (id, file, old text, new text, which occurrence (0-based), agreement parts to check, theorem expected to fail)
MUTATIONS = [
    # the nom readers
    ("dh-masks-swapped", S, "            header & CONTAINER_HEADER_TYPE_MASK,\n            (header & CONTAINER_HEADER_LEN_MASK) as usize,",
     "            header & CONTAINER_HEADER_LEN_MASK,\n            (header & CONTAINER_HEADER_TYPE_MASK) as usize,", 0, [1], "decode_header_drop"),
    ("dj-length-mask", S, "            (jentry & JENTRY_OFF_LEN_MASK) as usize,", "            (jentry & CONTAINER_HEADER_LEN_MASK) as usize,", 0, [1], "decode_jentry_drop"),
    ("djs-header-reader", S, "    count(decode_jentry, length)(input)", "    count(decode_header, length)(input)", 0, [1], "decode_jentries_at"),
    # select_object_values
    ("sov-values-after-4n", S, "        let mut offset = root_offset + 4 + length * 8;", "        let mut offset = root_offset + 4 + length * 4;", 0, [2], "select_object_values_eq"),
    ("sov-key-lengths-dropped", S, "        for (_, length) in key_jentries.iter() {\n            offset += length;", "        for (_, length) in key_jentries.iter() {\n            offset += 0;", 0, [2], "sov_loop1_step"),
    ("sov-string-tag-container", S, POS_IF, POS_IF.replace("CONTAINER_TAG", "STRING_TAG"), 0, [2], "sov_loop2_step"),
    ("sov-offset-not-advanced", S, PUSH_ADV, "            poses.push_back(pos);\n", 0, [2], "sov_loop2_step"),
    ("sov-arrays-accepted", S, OBJ_CHECK, OBJ_CHECK.replace("OBJECT_CONTAINER_TAG", "ARRAY_CONTAINER_TAG"), 0, [2], "select_object_values_eq"),
    # select_array_values
    ("sav-values-after-8n", S, "        let mut offset = root_offset + 4 + length * 4;", "        let mut offset = root_offset + 4 + length * 8;", 0, [2], "select_array_values_eq"),
    ("sav-lax-position-dropped", S, "            poses.push_back(Position::Container((root_offset, root_length)));\n", "", 0, [2], "select_array_values_eq"),
    ("sav-lax-length-zero", S, "Position::Container((root_offset, root_length))", "Position::Container((root_offset, 0))", 0, [2], "select_array_values_eq"),
    # select_by_name
    ("sbn-index-not-recorded", S, "                found = true;\n                idx = i;", "                found = true;\n                idx = 0;", 0, [3], "sbn_loop1_step"),
    ("sbn-length-check-dropped", S, "            if name.len() != *jlength || found {", "            if found {", 0, [3], "sbn_loop1_step"),
    ("sbn-value-test-inverted", S, "            if i != idx {", "            if i == idx {", 0, [3], "sbn_loop2_run"),
    ("sbn-keys-after-4n", S, "        let mut offset = root_offset + 4 + length * 8;", "        let mut offset = root_offset + 4 + length * 4;", 1, [3], "select_by_name_agrees"),
    # select_by_indices
    ("sbi-slices-ignored", S, "                        val_indices.append(&mut idxes);\n", "", 0, [4], "sbi_loop1_step"),
    ("sbi-length-zero", S, "Self::convert_index(idx, length as i32)", "Self::convert_index(idx, 0)", 0, [4], "sbi_loop1_step"),
    ("sbi-offset-recorded-late", S, "            offsets.push(offset);\n            offset += jlength;", "            offset += jlength;\n            offsets.push(offset);", 0, [4], "sbi_loop2_step"),
    ("sbi-first-entry", S, "            let (jty, jlength) = jentries[i];", "            let (jty, jlength) = jentries[0];", 0, [4], "sbi_loop3_step"),
    ("sbi-empty-check-dropped", S, "        if val_indices.is_empty() {\n            return Ok(());\n        }\n", "", 0, [4], "select_by_indices_eq"),
    # the writers
    ("bpr-tags-swapped", S, "            Some(_) => TRUE_TAG,\n            None => FALSE_TAG,", "            Some(_) => FALSE_TAG,\n            None => TRUE_TAG,", 0, [5], "build_predicate_result_agrees"),
    ("bv-array-header", S, "                    data.write_u32::<BigEndian>(SCALAR_CONTAINER_TAG)?;\n                    let jentry = ty | length as u32;",
     "                    data.write_u32::<BigEndian>(ARRAY_CONTAINER_TAG)?;\n                    let jentry = ty | length as u32;", 0, [5], "bv_loop1_cons"),
    ("bv-one-byte-payload-dropped", S, "                    if length > 0 {\n                        data.extend_from_slice(&root[offset..offset + length]);\n                    }\n                }\n            }\n            offsets.push",
     "                    if length > 1 {\n                        data.extend_from_slice(&root[offset..offset + length]);\n                    }\n                }\n            }\n            offsets.push", 0, [5], "bv_loop1_cons"),
    ("bv-end-offset-not-pushed", S, "            offsets.push(data.len() as u64);\n        }\n        Ok(())", "        }\n        Ok(())", 0, [5], "bv_loop1_cons"),
    ("bv-container-slice-end", S, "                    data.extend_from_slice(&root[offset..offset + length]);\n                }\n                Position::Scalar((ty, offset, length)) => {\n                    data.write_u32",
     "                    data.extend_from_slice(&root[offset..length]);\n                }\n                Position::Scalar((ty, offset, length)) => {\n                    data.write_u32", 0, [5], "bv_loop1_cons"),
    ("bsa-object-header", S, "        let header = ARRAY_CONTAINER_TAG | len as u32;", "        let header = OBJECT_CONTAINER_TAG | len as u32;", 0, [6], "build_scalar_array_agrees"),
    ("bsa-reserve-8", S, "        data.resize(jentry_offset + 4 * len, 0);", "        data.resize(jentry_offset + 8 * len, 0);", 0, [6], "build_scalar_array_agrees"),
    ("bsa-container-entry-string-tag", S, "                    CONTAINER_TAG | length as u32", "                    STRING_TAG | length as u32", 0, [6], "bsa_loop2_cons"),
    ("bsa-entry-offset-8", S, "            jentry_offset += 4;", "            jentry_offset += 8;", 0, [6], "bsa_loop2_cons"),
    ("bsa-patch-first-byte-only", S, "                data[jentry_offset + i] = *b;", "                data[jentry_offset] = *b;", 0, [6], "bsa_loop1_step"),
    ("bsa-end-offset-not-pushed", S, "        offsets.push(data.len() as u64);\n        Ok(())\n    }\n\n    // check and convert index", "        Ok(())\n    }\n\n    // check and convert index", 0, [6], "build_scalar_array_agrees"),
    # root_position, select_path, the frontier step
    ("rp-scalar-offset-4", S, "                        return Position::Scalar((jty, 8, jlength));", "                        return Position::Scalar((jty, 4, jlength));", 0, [7], "root_position_agrees"),
    ("rp-container-test-inverted", S, "                    if jty != CONTAINER_TAG {\n                        return Position::Scalar", "                    if jty == CONTAINER_TAG {\n                        return Position::Scalar", 0, [7], "root_position_agrees"),
    ("sp-dot-wildcard-arrays", S, "                self.select_object_values(root, offset, poses)?;", "                self.select_array_values(root, offset, length, poses)?;", 0, [7], "select_path_agrees"),
    ("fp-scalar-lax-dot-wildcard", S, LAX_BW, LAX_BW.replace("BracketWildcard", "DotWildcard"), 0, [8], "fp_loop2_step"),
    # convert_expr_val, compare_value, compare
    ("cev-true-is-false", S, "                            TRUE_TAG => PathValue::Boolean(true),", "                            TRUE_TAG => PathValue::Boolean(false),", 0, [9], "cev_loop3_cons"),
    ("cev-string-tag-number", S, "                            STRING_TAG => {\n                                let v = &root[offset..offset + length];", "                            NUMBER_TAG => {\n                                let v = &root[offset..offset + length];", 0, [9], "cev_loop3_cons"),
    ("cev-first-path-not-skipped", S, "                for path in paths.iter().skip(1) {", "                for path in paths.iter().skip(0) {", 0, [10], "convert_expr_val_paths"),
    ("pv-variant-order", P, "    /// Null value.\n    Null,\n    /// Boolean value.\n    Boolean(bool),\n", "    /// Boolean value.\n    Boolean(bool),\n    /// Null value.\n    Null,\n", 0, [10], "partial_cmp_agrees"),
    ("cv-lt-is-gt", S, "                BinaryOperator::Lt => order == Ordering::Less,", "                BinaryOperator::Lt => order == Ordering::Greater,", 0, [10], "compare_value_agrees"),
    ("cv-lte-strict", S, "                BinaryOperator::Lte => order == Ordering::Equal || order == Ordering::Less,", "                BinaryOperator::Lte => order == Ordering::Less,", 0, [10], "compare_value_agrees"),
    ("cmp-match-answers-false", S, "                    if self.compare_value(op, lhs.clone(), *rhs.clone()) {\n                        return true;", "                    if self.compare_value(op, lhs.clone(), *rhs.clone()) {\n                        return false;", 0, [10], "cmp_loop1_run"),
    # the recursive group
    ("fp-filter-keep-inverted", S, "                        if res {\n                            poses.push_back(pos);", "                        if !res {\n                            poses.push_back(pos);", 0, [11], "fp_loop1_step"),
    ("fe-operands-swapped", S, "                    let res = self.compare(op, &lhs, &rhs);", "                    let res = self.compare(op, &rhs, &lhs);", 0, [13], "group_agrees"),
    ("fe-or-is-and", S, "                    Ok(lhs || rhs)", "                    Ok(lhs && rhs)", 0, [13], "group_agrees"),
    ("ee-negation-dropped", S, "        let res = !poses.is_empty();", "        let res = poses.is_empty();", 0, [13], "group_agrees"),
    ("fe-exists-is-error", S, "            _ => Err(Error::InvalidJsonPath),", "            _ => Err(Error::InvalidJsonb),", 0, [13], "group_agrees"),
    # is_predicate, select, exists, predicate_match
    ("ip-two-paths", P, "        self.paths.len() == 1 && matches!", "        self.paths.len() == 2 && matches!", 0, [14], "is_predicate_agrees"),
    ("sel-first-keeps-two", S, "                poses.truncate(1);", "                poses.truncate(2);", 0, [14], "select_agrees"),
    ("sel-mixed-threshold", S, "                if poses.len() > 1 {", "                if poses.len() > 0 {", 0, [14], "select_agrees"),
    ("sel-array-mode-values", S, "            Mode::Array => Self::build_scalar_array(root, &mut poses, data, offsets)?,", "            Mode::Array => Self::build_values(root, &mut poses, data, offsets)?,", 0, [14], "select_agrees"),
    ("ex-predicate-false", S, "        if self.json_path.is_predicate() {\n            return Ok(true);", "        if self.json_path.is_predicate() {\n            return Ok(false);", 0, [14], "exists_agrees"),
    ("pe-jsonb-branch-predicate-match", FN, "    } else {\n        selector.exists(value)\n    }", "    } else {\n        selector.predicate_match(value)\n    }", 0, [16], "path_exists_agrees"),
    ("gbp-array-mode", FN, "    let selector = Selector::new(json_path, Mode::Mixed);", "    let selector = Selector::new(json_path, Mode::Array);", 1, [16], "get_by_path_agrees"),
    ("gbpf-jsonb-branch-dropped", FN, "    } else {\n        selector.select(value, data, offsets)?;\n    }\n    Ok(())", "    } else {\n    }\n    Ok(())", 1, [16], "get_by_path_first_agrees"),
    ("pm-wrong-error", S, "            return Err(Error::InvalidJsonPathPredicate);", "            return Err(Error::InvalidJsonPath);", 0, [14], "predicate_match_agrees"),
]

# harmless re-spellings: different generated text (or the same), same logic -> the proofs must still go through
RESPELLINGS = [
    ("sov-offset-commuted", S, "        let mut offset = root_offset + 4 + length * 8;", "        let mut offset = 4 + root_offset + length * 8;", 0, [2]),
    ("sov-explicit-sum", S, PUSH_ADV, "            poses.push_back(pos);\n            offset = offset + jlength;\n", 0, [2]),
    ("sov-explicit-return", S, "            poses.push_back(pos);\n            offset += jlength;\n        }\n        Ok(())\n    }\n\n    // select all values in an Array.", "            poses.push_back(pos);\n            offset += jlength;\n        }\n        return Ok(());\n    }\n\n    // select all values in an Array.", 0, [2]),
    ("sbn-found-test-flipped", S, "        if !found {\n            return Ok(());\n        }", "        if found == false {\n            return Ok(());\n        }", 0, [3]),
    ("cv-lte-operands-flipped", S, "                BinaryOperator::Lte => order == Ordering::Equal || order == Ordering::Less,", "                BinaryOperator::Lte => order == Ordering::Less || order == Ordering::Equal,", 0, [10]),
    ("cv-gte-as-not-less", S, "                BinaryOperator::Gte => order == Ordering::Equal || order == Ordering::Greater,", "                BinaryOperator::Gte => order != Ordering::Less,", 0, [10]),
    ("ex-explicit-return", S, "        let poses = self.find_positions(root, None, &self.json_path.paths)?;\n        Ok(!poses.is_empty())\n    }\n\n    pub fn predicate_match", "        let poses = self.find_positions(root, None, &self.json_path.paths)?;\n        return Ok(!poses.is_empty());\n    }\n\n    pub fn predicate_match", 0, [14]),
]

# changes that leave the subset / remove a target: the tool must say so and keep the committed block
RETENTION = [
    ("out-of-subset-little-endian", S, "        data.write_u32::<BigEndian>(jentry)?;\n        Ok(())", "        data.write_u32::<LittleEndian>(jentry)?;\n        Ok(())", 0,
     "src/jsonpath/selector.rs::Selector::build_predicate_result", "unsupported"),
    ("renamed-away", S, "    fn select_by_name(\n", "    fn select_by_nm(\n", 0,
     "src/jsonpath/selector.rs::Selector::select_by_name", "missing"),
    ("out-of-subset-nom-reader", S, "fn decode_header(input: &[u8]) -> IResult<&[u8], (u32, usize)> {\n    map(be_u32,", "fn decode_header(input: &[u8]) -> IResult<&[u8], (u32, usize)> {\n    map(be_u16,", 0,
     "src/jsonpath/selector.rs::decode_header", "unsupported"),
    ("out-of-subset-rev", S, "                for path in paths.iter().skip(1) {", "                for path in paths.iter().rev() {", 0,
     "src/jsonpath/selector.rs::Selector::convert_expr_val", "unsupported"),
]


def run_tool(src_root, out_path):
    """-> (generated text, status dict)"""
    env = dict(os.environ, VERIF_REPO=src_root, RS2LEAN6A_OUT=out_path, RS2LEAN6A_PREV=COMMITTED)
    if os.path.exists(out_path):
        os.remove(out_path)
    r = subprocess.run([sys.executable, TOOL], env=env, capture_output=True, text=True)
    if r.returncode != 0:
        raise RuntimeError("rs2lean6a.py crashed: " + r.stderr[-2000:])
    status = json.loads(r.stdout.strip().splitlines()[-1])
    r2 = subprocess.run([sys.executable, TOOL, "--stdout"], env=env, capture_output=True, text=True)
    if r2.returncode != 0:
        raise RuntimeError("rs2lean6a.py --stdout crashed: " + r2.stderr[-2000:])
    text = open(out_path, encoding="utf-8").read()
    if text != r2.stdout:
        raise RuntimeError("--stdout and the written file differ")
    return text, status


def scratch_lean(scratch, generated, parts, name):
    """one self-contained Lean file: generated definitions + the agreement parts"""
    imports, bodies = [], []
    texts = [generated] + [open(os.path.join(LEAN, "JsonbModel", "Proofs", PARTS[p]), encoding="utf-8").read() for p in parts]
    for t in texts:
        body = []
        for line in t.splitlines():
            m = re.match(r"import\s+(\S+)", line)
            if m:
                mod = m.group(1)
                if mod == "JsonbModel.Generated.Translated6a" or re.fullmatch(r"JsonbModel\.Proofs\.TranslatedAgreeG\d*", mod):
                    continue
                if mod not in imports:
                    imports.append(mod)
            else:
                body.append(line)
        bodies.append("\n".join(body))
    path = os.path.join(scratch, name + ".lean")
    with open(path, "w", encoding="utf-8") as f:
        f.write("\n".join("import " + m for m in imports) + "\n\n" + "\n\n".join(bodies) + "\n")
    return path


def lean_check(path):
    """-> (ok, first failing theorem or None, seconds)"""
    t0 = time.time()
    r = subprocess.run(["lake", "env", "lean", path], cwd=LEAN, capture_output=True, text=True)
    out = r.stdout + r.stderr
    dt = time.time() - t0
    errs = [int(m.group(1)) for m in re.finditer(r"^[^\n:]+:(\d+):\d+: error", out, re.M)]
    if r.returncode == 0 and not errs:
        return True, None, dt
    first = None
    if errs:
        lines = open(path, encoding="utf-8").read().splitlines()
        for ln in range(min(errs) - 1, -1, -1):
            m = re.match(r"\s*(?:theorem|def|instance)\s+(\S+)", lines[ln] if ln < len(lines) else "")
            if m:
                first = m.group(1)
                break
    return False, first or "(lean failed: %s)" % (out.strip().splitlines() or ["?"])[-1][:80], dt


def all_parts(parts):
    """a part needs the parts before it that it imports"""
    need = set()
    for p in parts:
        need.add(p)
        text = open(os.path.join(LEAN, "JsonbModel", "Proofs", PARTS[p]), encoding="utf-8").read()
        for m in re.finditer(r"^import JsonbModel\.Proofs\.TranslatedAgreeG(\d+)", text, re.M):
            need |= set(all_parts([int(m.group(1))]))
    return sorted(need)


def main():
    only = [a for a in sys.argv[1:] if not a.startswith("-")]
    t_start = time.time()
    tmp = tempfile.mkdtemp(prefix="rs2lean6a_selftest_src_", dir="/tmp")
    scratch = tempfile.mkdtemp(prefix="rs2lean6a_selftest_lean_", dir="/tmp")
    failures, rows = [], []
    have_parts = sorted(PARTS)
    try:
        shutil.copytree(os.path.join(REPO, "src"), os.path.join(tmp, "src"))
        out = os.path.join(scratch, "Translated6a.out.lean")
        base, status = run_tool(tmp, out)
        bad = {k: v for k, v in status["functions"].items() if v != "translated"}
        if bad:
            failures.append("baseline: not everything translated: %s" % bad)
        committed = open(COMMITTED, encoding="utf-8").read()
        rows.append(("baseline", "generated == committed Translated6a.lean", "yes" if committed == base else "NO", ""))
        if committed != base:
            failures.append("baseline: generated text differs from the committed Generated/Translated6a.lean")

        # (a) formatting robustness
        files = sorted(set(x[1] for x in rs2lean6a.ITEMS6A) | set(f[0] for f in rs2lean4.FUNCS4) | {"src/builder.rs", "src/iterator.rs", "src/jentry.rs"}
                       | set(f[0] for f in rs2lean3.FUNCS3) | set(f for f, _, _ in rs2lean3.TYPES3)
                       | set(f for f, _, _, _, _ in rs2lean2.FUNCS2) | set(f for f, _, _ in rs2lean2.TYPES2)
                       | set(f for f, _, _, _ in rs2lean.FUNCS) | set(f for f, _, _ in rs2lean.TYPES)
                       | {"src/constants.rs", "src/error.rs"})
        originals = {f: open(os.path.join(tmp, f), encoding="utf-8").read() for f in files}
        if not only:
            for vi in range(3):
                name = None
                for f in files:
                    name, text = reformat_variants(originals[f])[vi]
                    open(os.path.join(tmp, f), "w", encoding="utf-8", newline="").write(text)
                text, st = run_tool(tmp, out)
                same = text == base
                rows.append(("format", name, "identical" if same else "DIFFERENT", ""))
                if not same:
                    failures.append("format variant %s changed the output" % name)
                for f in files:
                    open(os.path.join(tmp, f), "w", encoding="utf-8").write(originals[f])

            # (a') retention of committed blocks
            for mid, file, old, new, occ, key, want in RETENTION:
                saved = mutate(tmp, file, old, new, occ)
                try:
                    text, st = run_tool(tmp, out)
                finally:
                    open(os.path.join(tmp, file), "w", encoding="utf-8").write(saved)
                got = st["functions"].get(key, "?")
                good = got.startswith(want) and text == base and st["ok"] is False
                rows.append(("retention", mid, ("%s, committed block kept" % want) if good else "WRONG: %s" % got[:70], ""))
                if not good:
                    failures.append("retention %s: status %r, text identical: %s" % (mid, got, text == base))

        jobs = []     # (kind, id, path, expected_ok, expected_theorem)
        if not only:
            jobs.append(("baseline", "unmutated", scratch_lean(scratch, base, have_parts, "base"), True, None))
        for kind, table in (("mutation", MUTATIONS), ("respelling", RESPELLINGS)):
            for row in table:
                mid, file, old, new, occ, parts = row[:6]
                if only and mid not in only:
                    continue
                expect = row[6] if kind == "mutation" else None
                if any(p not in have_parts for p in parts):
                    rows.append((kind, mid, "SKIPPED (part missing)", ""))
                    continue
                saved = mutate(tmp, file, old, new, occ)
                try:
                    text, st = run_tool(tmp, out)
                finally:
                    open(os.path.join(tmp, file), "w", encoding="utf-8").write(saved)
                nb = {k: v for k, v in st["functions"].items() if v != "translated"}
                if nb:
                    if kind == "mutation" and expect is None:
                        rows.append((kind, mid, "leaves the subset (reported, block kept)", ""))
                        continue
                    rows.append((kind, mid, "UNSUPPORTED", str(nb)[:100]))
                    failures.append("%s %s left the subset: %s" % (kind, mid, nb))
                    continue
                if text == base:
                    if kind == "respelling":
                        rows.append((kind, mid, "generated text identical (nothing to re-prove)", ""))
                        continue
                    rows.append((kind, mid, "NO CHANGE in generated text", ""))
                    failures.append("%s %s did not change the generated text" % (kind, mid))
                    continue
                jobs.append((kind, mid, scratch_lean(scratch, text, all_parts(parts), mid), kind == "respelling", expect))

        with concurrent.futures.ThreadPoolExecutor(max_workers=JOBS) as ex:
            results = list(ex.map(lambda j: lean_check(j[2]), jobs))
        for (kind, mid, path, exp_ok, exp_thm), (ok, thm, dt) in zip(jobs, results):
            if exp_ok:
                verdict = "proofs PASS" if ok else "proofs FAIL at %s" % thm
                if not ok:
                    failures.append("%s %s: expected the agreement proofs to pass, failed at %s" % (kind, mid, thm))
            else:
                verdict = ("proof FAILS at %s" % thm) if not ok else "NOT DETECTED (proofs pass)"
                if ok:
                    failures.append("mutation %s was not detected" % mid)
                elif exp_thm and thm != exp_thm:
                    verdict += " (expected %s)" % exp_thm
            rows.append((kind, mid, verdict, "%.1fs" % dt))
    finally:
        shutil.rmtree(tmp, ignore_errors=True)
        if not os.environ.get("RS2LEAN6A_KEEP"):
            shutil.rmtree(scratch, ignore_errors=True)

    w1 = max(len(r[0]) for r in rows)
    w2 = max(len(r[1]) for r in rows)
    w3 = max(len(r[2]) for r in rows)
    print("%-*s  %-*s  %-*s  %s" % (w1, "kind", w2, "case", w3, "result", "time"))
    for r in rows:
        print("%-*s  %-*s  %-*s  %s" % (w1, r[0], w2, r[1], w3, r[2], r[3]))
    n_mut = sum(1 for r in rows if r[0] == "mutation" and not r[2].startswith("SKIPPED"))
    n_det = sum(1 for r in rows if r[0] == "mutation" and r[2].startswith("proof FAILS"))
    print("mutations detected: %d / %d; wall %.0fs" % (n_det, n_mut, time.time() - t_start))
    if failures:
        print("SELFTEST FAILED:")
        for f in failures:
            print("  - " + f)
        return 1
    print("SELFTEST OK")
    return 0


if __name__ == "__main__":
    sys.exit(main())
