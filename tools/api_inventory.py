#!/usr/bin/env python3
"""Public-API inventory of /repo/src versus the Lean model: which `pub fn` exist now, which of
them have a model function (by name), which appeared or disappeared since the committed
inventory (api_inventory.json).  Informational: the result goes into the evidence file; a new
public function is not a violation, but it is not covered by any theorem either.
usage: api_inventory.py [--write]"""
import json, os, re, sys
ROOT = os.path.dirname(os.path.dirname(os.path.abspath(__file__)))
SRC = "/repo/src"
INV = os.path.join(ROOT, "api_inventory.json")

def camel(s):
    p = s.split("_")
    return p[0] + "".join(x.capitalize() for x in p[1:])

def scan():
    out = {}
    for dp, _, fs in os.walk(SRC):
        for fn in sorted(fs):
            if not fn.endswith(".rs"):
                continue
            path = os.path.join(dp, fn)
            rel = os.path.relpath(path, SRC)
            for m in re.finditer(r"^\s*pub fn ([a-z_0-9]+)\s*(<[^>]*>)?\s*\(([^)]*)\)", open(path).read(), re.M | re.S):
                sig = " ".join(m.group(3).split())
                out["%s::%s" % (rel, m.group(1))] = sig
    return out

def lean_text():
    t = []
    for dp, _, fs in os.walk(os.path.join(ROOT, "lean", "JsonbModel")):
        if "/Proofs" in dp or "/Props" in dp or "/Driver" in dp:
            continue
        for fn in fs:
            if fn.endswith(".lean"):
                t.append(open(os.path.join(dp, fn)).read())
    return "\n".join(t)

def main():
    cur = scan()
    lt = lean_text()
    ALIAS = {"to_vec": "toVec", "write_to_vec": "writeToVec", "from_slice": "fromSlice", "parse_value": "parseValue",
             "parse_json_path": "parseJsonPath", "parse_key_paths": "parseKeyPaths", "compact_encode": "enc", "decode": "dec",
             "compare": "compareDocs", "object_delete": "objectFilter", "object_pick": "objectFilter", "array_intersection": "arraySetOp",
             "array_except": "arraySetOp", "get_by_path": "select", "get_by_path_first": "select", "get_by_path_array": "select",
             "path_exists": "exists_", "path_match": "predicateMatch", "select": "select", "exists": "exists_", "predicate_match": "predicateMatch",
             "to_string": "toStringDoc", "to_pretty_string": "toStringDoc", "parse_jsonb": "parseJsonb", "parse_lazy_value": "lazyToVec"}
    rows = {}
    for k, sig in sorted(cur.items()):
        name = k.split("::")[-1]
        cand = ALIAS.get(name, camel(name))
        modelled = bool(re.search(r"\bdef %s\b" % re.escape(cand), lt))
        rows[k] = {"signature": sig, "model_function": cand if modelled else None}
    if "--write" in sys.argv:
        json.dump(rows, open(INV, "w"), indent=1, sort_keys=True)
        print("wrote", INV, len(rows), "functions,", sum(1 for r in rows.values() if r["model_function"]), "with a model function of the expected name")
        return
    old = json.load(open(INV)) if os.path.exists(INV) else {}
    rep = {"public_functions": len(rows),
           "with_model_function": sum(1 for r in rows.values() if r["model_function"]),
           "new_since_inventory": sorted(set(rows) - set(old)),
           "removed_since_inventory": sorted(set(old) - set(rows)),
           "signature_changed": sorted(k for k in rows if k in old and old[k]["signature"] != rows[k]["signature"])}
    print(json.dumps(rep))
main()
