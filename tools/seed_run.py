#!/usr/bin/env python3
"""Run checks against the confirmed seeded changes under /verif/seeded/.
usage: seed_run.py [--all-props] [<seed-id> ...]
For each seed: git -C /repo apply patch.diff; run ./check <own property> quick (or every claimed
check with --all-props, in parallel); git -C /repo checkout -- . ; results -> seeded/RESULTS.json"""
import json, os, re, subprocess, sys, concurrent.futures as cf
ROOT = "/verif"
def sh(cmd, cwd=None):
    p = subprocess.run(cmd, shell=True, cwd=cwd, stdout=subprocess.PIPE, stderr=subprocess.STDOUT, text=True)
    return p.returncode, p.stdout
def run_check(pid, tag):
    rc, out = sh("VERIF_EVIDENCE_DIR=/tmp/seed_evidence ./check %s quick" % pid, ROOT)
    viol = [l for l in out.splitlines() if l.startswith("VIOLATION")]
    summ = [l for l in out.splitlines() if re.match(r"^C\d\d quick", l)]
    return pid, rc, viol, summ[-1] if summ else out[-300:]
def main():
    args = sys.argv[1:]
    allp = "--all-props" in args
    ids = [a for a in args if not a.startswith("--")] or sorted(d for d in os.listdir(ROOT + "/seeded") if os.path.isdir(ROOT + "/seeded/" + d))
    claimed = [c["property_id"] for c in json.load(open(ROOT + "/MANIFEST.json"))["checks"]]
    skip = [a.split("=", 1)[1] for a in args if a.startswith("--skip=")]
    resf = ROOT + "/seeded/RESULTS.json"
    results = json.load(open(resf)) if os.path.exists(resf) else {}
    assert sh("git -C /repo status --short")[1].strip() == "", "/repo not clean"
    for sid in ids:
        prop = sid.split("-")[0]
        patch = "%s/seeded/%s/patch.diff" % (ROOT, sid)
        rc, out = sh("git -C /repo apply %s" % patch)
        if rc != 0:
            print(sid, "patch does not apply:", out); continue
        try:
            props = ([prop] + [p for p in claimed if p != prop and p not in skip]) if allp else ([prop] if prop in claimed else [])
            r = {}
            # build once (first check) then the rest in parallel
            if props:
                first = run_check(props[0], sid)
                r[first[0]] = {"rc": first[1], "violation": first[2], "summary": first[3]}
                with cf.ThreadPoolExecutor(max_workers=6) as ex:
                    for pid, rc2, viol, summ in ex.map(lambda p: run_check(p, sid), props[1:]):
                        r[pid] = {"rc": rc2, "violation": viol, "summary": summ}
            # keep the replay of the own property
            own = r.get(prop, {})
            for v in own.get("violation", []):
                m = re.search(r"replay=(\S+)", v)
                if m and os.path.exists(m.group(1)):
                    sh("cp %s %s/seeded/%s/replay.json" % (m.group(1), ROOT, sid))
            results.setdefault(sid, {}).update(r)
            caught = [p for p, x in r.items() if x["rc"] != 0]
            print(sid, "own:", own.get("rc"), "caught by:", caught, "|", own.get("summary", "")[:200], flush=True)
        finally:
            sh("git -C /repo checkout -- .")
        json.dump(results, open(resf, "w"), indent=1, sort_keys=True)
    assert sh("git -C /repo status --short")[1].strip() == "", "/repo not clean at end"
main()
