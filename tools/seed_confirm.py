#!/usr/bin/env python3
"""Confirm sub-agent mutations in a scratch worktree and store them under /verif/seeded/.
usage: seed_confirm.py <PROP> [<PROP> ...]   (reads /tmp/wt/out/<PROP>/<k>/)"""
import json, os, re, shutil, subprocess, sys
WT = "/tmp/wt/confirm"
OUTROOT = "/tmp/wt/out"
TAG = ""
ENV = dict(os.environ, CARGO_NET_OFFLINE="true")

def sh(cmd, cwd=None, timeout=3600):
    p = subprocess.run(cmd, shell=True, cwd=cwd, env=ENV, stdout=subprocess.PIPE, stderr=subprocess.STDOUT, text=True, timeout=timeout)
    return p.returncode, p.stdout

def clean():
    sh("git checkout -q -- . && git clean -fdq -e target", WT)

def suite():
    rc, out = sh("cargo test --workspace --no-fail-fast --offline 2>&1", WT)
    failed = sorted(set(re.findall(r"^test (\S+) \.\.\. FAILED", out, re.M)))
    passed = len(re.findall(r"^test \S+ \.\.\. ok", out, re.M))
    compiled = "error: could not compile" not in out and "error[E" not in out
    return compiled, passed, failed

def demo(src):
    text = open(src).read()
    if re.search(r"^\s*fn main\s*\(", text, re.M):
        os.makedirs(WT + "/examples", exist_ok=True)
        shutil.copy(src, WT + "/examples/seed_demo.rs")
        rc, out = sh("cargo run --offline --example seed_demo 2>&1", WT)
    else:
        shutil.copy(src, WT + "/tests/seed_demo.rs")
        rc, out = sh("cargo test --offline --test seed_demo 2>&1", WT)
    return rc, out[-3000:]

def main():
    global OUTROOT, TAG
    args = [a for a in sys.argv[1:] if not a.startswith("--")]
    for a in sys.argv[1:]:
        if a.startswith("--root="): OUTROOT = a.split("=", 1)[1]
        if a.startswith("--tag="): TAG = a.split("=", 1)[1]
    sys.argv[1:] = args
    if not os.path.isdir(WT):
        rc, out = sh("git -C /repo worktree add -q --detach %s HEAD" % WT)
        assert rc == 0, out
    clean()
    base = None
    for prop in sys.argv[1:]:
        root = "%s/%s" % (OUTROOT, prop)
        for k in sorted(d for d in os.listdir(root) if os.path.isdir(os.path.join(root, d)) and d.isdigit()):
            d = os.path.join(root, k)
            res = {"property": prop, "k": k}
            clean()
            rc, out = sh("git apply --check %s/patch.diff" % d, WT)
            res["applies"] = rc == 0
            if rc != 0:
                print(json.dumps(res)); continue
            demo_src = next((os.path.join(d, f) for f in ("demo.rs",) if os.path.exists(os.path.join(d, f))), None)
            if demo_src is None:
                res["demo"] = "no demo.rs"; print(json.dumps(res)); continue
            rc0, out0 = demo(demo_src)
            res["demo_unchanged_rc"] = rc0
            clean()
            sh("git apply %s/patch.diff" % d, WT)
            compiled, passed, failed = suite()
            res.update(compiled=compiled, passed=passed, failed=failed)
            rc1, out1 = demo(demo_src)
            res["demo_changed_rc"] = rc1
            clean()
            ok = compiled and failed == ["functions::test_to_serde_json"] and rc0 == 0 and rc1 != 0
            res["confirmed"] = ok
            print(json.dumps(res), flush=True)
            if ok:
                dst = "/verif/seeded/%s-%s%s" % (prop, TAG, k)
                os.makedirs(dst, exist_ok=True)
                for f in ("patch.diff", "demo.rs", "demo_output.txt"):
                    if os.path.exists(os.path.join(d, f)):
                        shutil.copy(os.path.join(d, f), dst)
                meta = json.load(open(os.path.join(d, "meta.json")))
                meta["confirmed"] = {"suite_passed": passed, "suite_failed": failed, "demo_rc_unchanged": rc0, "demo_rc_changed": rc1,
                                     "demo_tail_changed": out1[-600:]}
                json.dump(meta, open(os.path.join(dst, "meta.json"), "w"), indent=1)
main()
