#!/usr/bin/env python3
"""Mutation screening of the request streams (an instrument, not a check; DESIGN 14.4).

For every small syntactic mutant of /repo/src (relational / arithmetic / logical operator swaps,
integer literals +-1, boolean flips, deleted `continue` / `+=` statements) this tool asks: do the
request streams of the quick checks make the real crate answer differently from the unchanged
crate?  Where they do, the correspondence check would see that change (the model answers like the
unchanged crate on every request, that is what a green run means).  Mutants that the crate's own
test suite passes AND that no stream notices are the blind spots of the tie between model and
code; they are listed for triage (equivalent mutant / behaviour outside every property / gap to
close in the generators).

usage: tools/mutate.py prepare                 build scratch workers under /tmp/jvmut, baseline answers
       tools/mutate.py run [--n N] [--seed S] [--files a.rs,b.rs] [--jobs J]
       tools/mutate.py report                  summary of mutants_results.jsonl
       tools/mutate.py clean                   remove /tmp/jvmut (worktrees included)
Nothing here touches /repo's working tree: mutants live in scratch git worktrees."""
import concurrent.futures as cf
import hashlib, json, os, random, re, resource, shutil, subprocess, sys, time

ROOT = os.path.dirname(os.path.dirname(os.path.abspath(__file__)))
SCR = "/tmp/jvmut"
JVH = os.path.join(ROOT, ".build", "target", "debug", "jvh")
RESULTS = os.path.join(ROOT, "mutants_results.jsonl")
ENV = dict(os.environ, CARGO_NET_OFFLINE="true")
FILES = ["builder.rs", "de.rs", "from.rs", "functions.rs", "iterator.rs", "jentry.rs", "keypath.rs", "lazy_value.rs",
         "number.rs", "parser.rs", "ser.rs", "util.rs", "value.rs", "jsonpath/parser.rs", "jsonpath/path.rs", "jsonpath/selector.rs"]


def sh(cmd, cwd=None, timeout=None, env=ENV):
    p = subprocess.run(cmd, shell=isinstance(cmd, str), cwd=cwd, env=env, stdout=subprocess.PIPE, stderr=subprocess.STDOUT, timeout=timeout)
    return p.returncode, p.stdout.decode("utf-8", "replace")


# ------------------------------------------------------------------ streams

def streams():
    d = os.path.join(SCR, "streams")
    out = {}
    for f in sorted(os.listdir(d)):
        if f.endswith(".req"):
            out[f[:-4]] = os.path.join(d, f)
    return out


def run_stream(binary, req_path, timeout=240):
    def lim():
        resource.setrlimit(resource.RLIMIT_AS, (8 << 30, 8 << 30))
        resource.setrlimit(resource.RLIMIT_CPU, (timeout, timeout + 5))
    try:
        p = subprocess.run([binary, "run"], stdin=open(req_path), stdout=subprocess.PIPE, stderr=subprocess.DEVNULL, preexec_fn=lim, timeout=timeout + 30)
        return p.stdout.decode("utf-8", "replace").split("\n")
    except subprocess.TimeoutExpired:
        return ["<timeout>"]


def prepare(jobs):
    os.makedirs(os.path.join(SCR, "streams"), exist_ok=True)
    rc, out = sh(["cargo", "build", "--offline"], cwd=os.path.join(ROOT, "harness"))
    assert rc == 0, out
    seen = set()
    for i in range(1, 21):
        pid = "C%02d" % i
        lines = []
        d = os.path.join(ROOT, "corpus", pid)
        if os.path.isdir(d):
            for fn in sorted(os.listdir(d)):
                lines += [l.strip() for l in open(os.path.join(d, fn)) if l.strip() and not l.startswith("#")]
        g = subprocess.run([JVH, "gen", pid, "quick", "1"], stdout=subprocess.PIPE, stderr=subprocess.DEVNULL).stdout.decode()
        lines += [l for l in g.split("\n") if l]
        keep = []
        for l in lines:
            if l.startswith("deep ") or l.startswith("bigpayload") or l.startswith("sniffbig"):
                continue   # process-killing / very large by design
            h = hashlib.sha1(l.encode()).digest()
            if h in seen:
                continue
            seen.add(h)
            keep.append(l)
        req = os.path.join(SCR, "streams", pid + ".req")
        open(req, "w").write("\n".join(keep) + "\n")
        base = run_stream(JVH, req)
        open(os.path.join(SCR, "streams", pid + ".base"), "w").write("\n".join(base))
        print(pid, len(keep), "requests", flush=True)
    # pristine copy of the sources at HEAD (the working tree of /repo may carry a seeded change meanwhile)
    if not os.path.isdir(os.path.join(SCR, "orig")):
        os.makedirs(os.path.join(SCR, "orig"))
        rc, out = sh("git -C /repo archive HEAD src | tar -x -C %s --strip-components=1" % os.path.join(SCR, "orig"))
        assert rc == 0, out
    for w in range(jobs):
        wd = os.path.join(SCR, "w%d" % w)
        if os.path.isdir(wd):
            continue
        os.makedirs(wd)
        rc, out = sh(["git", "-C", "/repo", "worktree", "add", "-q", "--detach", os.path.join(wd, "repo"), "HEAD"])
        assert rc == 0, out
        shutil.copytree(os.path.join(ROOT, "harness"), os.path.join(wd, "harness"))
        ct = open(os.path.join(wd, "harness", "Cargo.toml")).read().replace('path = "/repo"', 'path = "../repo"')
        open(os.path.join(wd, "harness", "Cargo.toml"), "w").write(ct)
        cfg = open(os.path.join(wd, "harness", ".cargo", "config.toml")).read().replace("/verif/.build/target", os.path.join(wd, "target"))
        open(os.path.join(wd, "harness", ".cargo", "config.toml"), "w").write(cfg)
        rc, out = sh(["cargo", "build", "--offline"], cwd=os.path.join(wd, "harness"))
        assert rc == 0, out
        print("worker", w, "ready", flush=True)


# ------------------------------------------------------------------ mutants

def code_mask(src):
    """positions that are code (not comment, not string/char literal)"""
    n = len(src)
    mask = [True] * n
    i = 0
    while i < n:
        c = src[i]
        if src.startswith("//", i):
            j = src.find("\n", i)
            j = n if j < 0 else j
            for k in range(i, j): mask[k] = False
            i = j
        elif src.startswith("/*", i):
            j = src.find("*/", i + 2)
            j = n if j < 0 else j + 2
            for k in range(i, j): mask[k] = False
            i = j
        elif c == '"':
            j = i + 1
            while j < n and src[j] != '"':
                j += 2 if src[j] == "\\" else 1
            for k in range(i, min(j + 1, n)): mask[k] = False
            i = j + 1
        elif c == "'" and i + 2 < n and (src[i + 2] == "'" or (src[i + 1] == "\\" and "'" in src[i + 2:i + 8])):
            j = src.find("'", i + 2 if src[i + 1] != "\\" else i + 3)
            for k in range(i, j + 1): mask[k] = False
            i = j + 1
        else:
            i += 1
    return mask


def excluded_regions(src):
    """byte ranges of code that no property is about: #[cfg(test)] modules, rand_value, Debug impls"""
    ex = []
    for m in re.finditer(r"#\[cfg\(test\)\]|pub fn rand_value|fn rand_scalar_value|impl<'a> Debug for Value|impl Debug for|impl Display for Error|impl Display for ParseErrorCode", src):
        # region = up to the matching closing brace of the next '{'
        i = src.find("{", m.start())
        if i < 0: continue
        depth, j = 0, i
        while j < len(src):
            if src[j] == "{": depth += 1
            elif src[j] == "}":
                depth -= 1
                if depth == 0: break
            j += 1
        ex.append((m.start(), j + 1))
    return ex


OPS = [
    (r"<=", ["<"]), (r">=", [">"]), (r"(?<![<\-=>])<(?![<=])", ["<="]), (r"(?<![>\-=])>(?![>=])", [">="]),
    (r"==", ["!="]), (r"!=", ["=="]), (r"&&", ["||"]), (r"\|\|", ["&&"]),
    (r"(?<![+\w'])\+(?![+=])", ["-"]), (r"(?<![\-\w(,=<>|&!*/+ ] )(?<=[\w)\]] )-(?![\-=>])", ["+"]),
    (r"\+=", ["-="]), (r"-=", ["+="]),
    (r"\btrue\b", ["false"]), (r"\bfalse\b", ["true"]),
    # second generation (run with --gen2): negations dropped, min/max, break/continue, sibling constants and constructors
    (r"\.min\(", [".max("]), (r"\.max\(", [".min("]), (r"\bbreak;", ["continue;"]),
    (r"(?<![=!<>&|^%*/+\-])!(?=[A-Za-z_(])(?!\w*!)", [""]),
    (r"\bTRUE_TAG\b", ["FALSE_TAG"]), (r"\bFALSE_TAG\b", ["TRUE_TAG"]), (r"\bNULL_TAG\b", ["FALSE_TAG"]), (r"\bSTRING_TAG\b", ["NUMBER_TAG"]),
    (r"\bNUMBER_TAG\b", ["STRING_TAG"]), (r"\bCONTAINER_TAG\b(?<!_CONTAINER_TAG)", ["STRING_TAG"]),
    (r"\bARRAY_CONTAINER_TAG\b", ["OBJECT_CONTAINER_TAG"]), (r"\bOBJECT_CONTAINER_TAG\b", ["ARRAY_CONTAINER_TAG"]), (r"\bSCALAR_CONTAINER_TAG\b", ["ARRAY_CONTAINER_TAG"]),
    (r"\bOrdering::Less\b", ["Ordering::Greater"]), (r"\bOrdering::Greater\b", ["Ordering::Less"]), (r"\bOrdering::Equal\b", ["Ordering::Less"]),
    (r"\bmake_true_jentry\b", ["make_false_jentry"]), (r"\bmake_false_jentry\b", ["make_true_jentry"]), (r"\bmake_string_jentry\b", ["make_number_jentry"]),
    (r"\bmake_number_jentry\b", ["make_string_jentry"]), (r"\bmake_container_jentry\b", ["make_string_jentry"]),
    (r"\bpush_back\b", ["push_front"]), (r"\bpop_front\b", ["pop_back"]), (r"\bis_some\(\)", ["is_none()"]), (r"\bis_none\(\)", ["is_some()"]), (r"\bis_empty\(\)", ["len() == 1"]),
    (r"\bMode::First\b", ["Mode::All"]), (r"\bMode::Array\b", ["Mode::Mixed"]), (r"\bMode::Mixed\b", ["Mode::Array"]), (r"\bMode::All\b", ["Mode::First"]),
    (r"\bsaturating_add\b", ["wrapping_add"]), (r"\.rev\(\)", [""]), (r"\bunwrap_or\(false\)", ["unwrap_or(true)"]),
]
GEN1 = 14   # the first 14 operators are the first generation
NUM = re.compile(r"(?<![\w.])(\d+)(?![\w.]|_)")


def mutants_of(path, rel):
    src = open(path).read()
    mask = code_mask(src)
    ex = excluded_regions(src)
    def ok(a, b):
        if not all(mask[a:b]): return False
        return not any(s <= a < e for s, e in ex)
    out = []
    ops = OPS[GEN1:] if GEN2 else OPS[:GEN1]
    for pat, reps in ops:
        for m in re.finditer(pat, src):
            a, b = m.span()
            if not ok(a, b): continue
            line = src.count("\n", 0, a) + 1
            ltxt = src[src.rfind("\n", 0, a) + 1: src.find("\n", a)]
            if ltxt.lstrip().startswith(("use ", "#[", "pub(crate) const", "const ", "fn ", "pub fn ", "pub(crate) fn ", "impl", "where")) and pat not in (r"\btrue\b", r"\bfalse\b"):
                continue
            if "->" in src[a - 1:b + 1] or "=>" in src[a - 1:b + 1]: continue
            # generics / lifetimes / references: `<` or `>` next to a type or a quote
            if pat.startswith("(?<![<") or pat.startswith("(?<![>"):
                around = src[max(0, a - 20):b + 20]
                if re.search(r"[A-Za-z_]\s*<\s*['A-Z&\[(]|<'a|Vec<|Option<|Result<|IResult<|Box<|Cow<|BTree|impl |::<|>\s*\{|>\s*,|>\)|> for|>;|->", around) and not re.search(r"\bif\b|\bwhile\b|\breturn\b|=\s", ltxt):
                    continue
                if re.search(r"<\s*[A-Z'&]|[A-Za-z>)'\]]>[\s,;)>{(:]|::<", around):
                    continue
            for r in reps:
                out.append({"file": rel, "line": line, "pos": a, "len": b - a, "new": r, "old": src[a:b], "text": ltxt.strip()[:120]})
    for m in ([] if GEN2 else NUM.finditer(src)):
        a, b = m.span(1)
        if not ok(a, b): continue
        ltxt = src[src.rfind("\n", 0, a) + 1: src.find("\n", a)]
        if ltxt.lstrip().startswith(("use ", "#[", "pub(crate) const", "const ", "static ")): continue
        if re.search(r"\[u8; *$", src[max(0, a - 6):a]) or "0x" in src[max(0, a - 2):a]: continue
        v = int(m.group(1))
        line = src.count("\n", 0, a) + 1
        for nv in ([v + 1] if v == 0 else [v + 1, v - 1]):
            out.append({"file": rel, "line": line, "pos": a, "len": b - a, "new": str(nv), "old": m.group(1), "text": ltxt.strip()[:120]})
    # deleted statements
    for m in [] if GEN2 else re.finditer(r"^[ \t]*(continue;|[A-Za-z_*.\[\]() ]+ (\+|-)= [^;\n]+;)[ \t]*$", src, re.M):
        a, b = m.span(1)
        if not ok(a, a + 3): continue
        if any(s <= a < e for s, e in ex): continue
        line = src.count("\n", 0, a) + 1
        out.append({"file": rel, "line": line, "pos": a, "len": b - a, "new": "{}" if m.group(1) == "continue;" else "", "old": m.group(1), "text": m.group(1)[:120]})
    return out


def all_mutants(files):
    ms = []
    for f in files:
        ms += mutants_of(os.path.join(SCR, "orig", f), f)
    return ms


def try_mutant(w, mu, strs):
    wd = os.path.join(SCR, "w%d" % w)
    repo = os.path.join(wd, "repo")
    path = os.path.join(repo, "src", mu["file"])
    orig = open(os.path.join(SCR, "orig", mu["file"])).read()
    res = dict(mu)
    try:
        mutated = orig[:mu["pos"]] + mu["new"] + orig[mu["pos"] + mu["len"]:]
        open(path, "w").write(mutated)
        t0 = time.time()
        rc, out = sh(["cargo", "build", "--offline"], cwd=os.path.join(wd, "harness"), timeout=900)
        if rc != 0:
            res["status"] = "does-not-compile"
            return res
        binary = os.path.join(wd, "target", "debug", "jvh")
        seen_by = []
        for pid, req in strs.items():
            base = open(req[:-4] + ".base").read().split("\n")
            got = run_stream(binary, req)
            if got != base:
                k = next((i for i, (x, y) in enumerate(zip(got, base)) if x != y), min(len(got), len(base)))
                seen_by.append(pid)
                if "first_diff" not in res:
                    reqs = open(req).read().split("\n")
                    res["first_diff"] = {"stream": pid, "request": reqs[k][:200] if k < len(reqs) else "<end>", "base": (base[k] if k < len(base) else "")[:120], "mutant": (got[k] if k < len(got) else "<died>")[:120]}
                if len(seen_by) >= 3:
                    break
        res["seen_by"] = seen_by
        if seen_by:
            res["status"] = "seen"
            return res
        # not seen by any stream: does the crate's own suite notice?
        rc, out = sh("cargo test --workspace --no-fail-fast --offline 2>&1", cwd=repo, timeout=1800)
        failed = sorted(set(re.findall(r"^test (\S+) \.\.\. FAILED", out, re.M)))
        compiled = "error: could not compile" not in out
        res["suite_failed"] = failed
        if not compiled:
            res["status"] = "tests-do-not-compile"
        elif failed != ["functions::test_to_serde_json"]:
            res["status"] = "unseen-but-suite-fails"
        else:
            res["status"] = "UNSEEN"
        return res
    except subprocess.TimeoutExpired:
        res["status"] = "timeout"
        return res
    finally:
        open(path, "w").write(orig)


GEN2 = "--gen2" in sys.argv


def main():
    global RESULTS
    a = [x for x in sys.argv[1:] if x != "--gen2"]
    cmd = a[0] if a else "report"
    def opt(name, default):
        return a[a.index(name) + 1] if name in a else default
    jobs = int(opt("--jobs", "6"))
    if cmd == "prepare":
        prepare(jobs)
    elif cmd == "clean":
        if os.path.isdir(SCR):
            for w in os.listdir(SCR):
                r = os.path.join(SCR, w, "repo")
                if os.path.isdir(r):
                    sh(["git", "-C", "/repo", "worktree", "remove", "--force", r])
            shutil.rmtree(SCR, ignore_errors=True)
        sh(["git", "-C", "/repo", "worktree", "prune"])
    elif cmd == "list":
        ms = all_mutants(opt("--files", ",".join(FILES)).split(","))
        by = {}
        for m in ms: by[m["file"]] = by.get(m["file"], 0) + 1
        print(json.dumps(by, indent=1), len(ms))
    elif cmd == "run":
        files = opt("--files", ",".join(FILES)).split(",")
        if "--rescreen" in a:
            # run again the mutants an earlier screening left UNSEEN (after the streams were strengthened)
            src = opt("--rescreen", "")
            RESULTS = os.path.join(ROOT, "mutants_results_rescreen.jsonl")
            ms = [{k: r[k] for k in ("file", "line", "pos", "len", "new", "old", "text")} for r in map(json.loads, open(src)) if r["status"] == "UNSEEN"]
        else:
            ms = all_mutants(files)
        done = set()
        if os.path.exists(RESULTS):
            for l in open(RESULTS):
                r = json.loads(l); done.add((r["file"], r["pos"], r["new"]))
        ms = [m for m in ms if (m["file"], m["pos"], m["new"]) not in done]
        rnd = random.Random(int(opt("--seed", "1")))
        rnd.shuffle(ms)
        n = int(opt("--n", "200"))
        ms = ms[:n]
        strs = streams()
        free = list(range(jobs))
        import threading
        lock = threading.Lock()
        def work(mu):
            with lock: w = free.pop()
            try:
                r = try_mutant(w, mu, strs)
            finally:
                with lock: free.append(w)
            with lock:
                open(RESULTS, "a").write(json.dumps(r) + "\n")
                print(r["status"], r["file"], r["line"], repr(r["old"]), "->", repr(r["new"]), "|", r["text"][:70], flush=True)
        with cf.ThreadPoolExecutor(max_workers=jobs) as ex:
            list(ex.map(work, ms))
    if "--results" in a:
        RESULTS = opt("--results", RESULTS)
    if cmd in ("run", "report"):
        st = {}
        uns = []
        for l in open(RESULTS):
            r = json.loads(l)
            st[r["status"]] = st.get(r["status"], 0) + 1
            if r["status"] == "UNSEEN": uns.append(r)
        print(json.dumps(st))
        for r in sorted(uns, key=lambda r: (r["file"], r["line"])):
            print("UNSEEN %s:%d  %r -> %r   | %s" % (r["file"], r["line"], r["old"], r["new"], r["text"][:90]))


main()
