#!/usr/bin/env python3
"""rs2lean5a: phase 5a of the Rust -> Lean translator: the byte-level READ-ONLY ACCESSORS of functions.rs
(`get_by_index`, `get_by_name`, `object_keys`, `array_values`, `object_each`, `type_of`, the `as_*` / `is_*` /
`to_*` family, `get_by_keypath`, `exists_*_keys`, `traverse_check_string`), built on the walkers of phase 2
and the iterators of phases 2 / 4.  Extends the subset of tools/rs2lean4.py (-> rs2lean3 -> rs2lean2 -> rs2lean) with
  * the sniffing prologue `if !is_jsonb(value) { <text branch: returns> }` on functions of ANY result type: the text
    branch calls the JSON text parser and is the parameter `text__ : Res <result>` holding its outcome;
  * calls of such a function `g(p, ..)` from another translated function (`to_bool` calls `as_bool(value)`): the
    caller takes one parameter `g_text__` per sniffing callee (the outcome of g's text branch on the caller's own,
    never assigned, parameters - every call of `g` must pass exactly those) and hands it on;
  * `opt.map(|pat| expr)` / `opt.map(Path)` on an `Option`, `opt.is_some()`; `r.ok()` on a `Result` in value position;
  * `&str` constants of constants.rs (`TYPE_NULL`, ..), `Result<&'static str, _>`;
  * `s.to_lowercase()`, `s.parse::<i64 | u64 | f64>()`, `format!("{}", number)`, float literals `1_f64`: prelude
    primitives MAPPED to the model's `Fn.lowerAscii` / `Fn.parseI64` / `Fn.parseU64` / `Fn.parseF64` / `Fn.numToString`
    (RustPrelude5a.lean), the way `as f64` is mapped in phase 1;
  * `if let Some(v) = <call> { .. } else if let ..` chains, `if let Ok(v) = <Result value>`;
  * generic `I: Iterator<Item = T>` parameters (a `List T`, consumed by one `for`), `impl Fn(&[u8]) -> bool`
    parameters (a Lean function), `enum KeyPath` (payload `Cow<str>`), `match (path, int) { (A(x) | B(x), CONST) => .. }`.
Output: lean/JsonbModel/Generated/Translated5a.lean (namespace Jsonb.Tr, after the phase-1..4 files).
The semantics of every new primitive is in the hand-written lean/JsonbModel/RustPrelude5a.lean.
Same conventions as the earlier phases (see tools/RS2LEAN.md): reads $VERIF_REPO (default /repo), writes the
output only when it changes, prints ONE JSON status line last; `--stdout` prints the text and writes nothing; a
function outside the subset keeps its previously generated block.  Python 3 stdlib only."""
import json, os, re, sys

HERE = os.path.dirname(os.path.abspath(__file__))
sys.path.insert(0, HERE)
import rs2lean as R  # noqa: E402
import rs2lean2 as R2  # noqa: E402
import rs2lean3 as R3  # noqa: E402
import rs2lean4 as R4  # noqa: E402
from rs2lean import N, Tok, Unsupported, NeedType, is_int, is_bytes, lname, ind  # noqa: E402
from rs2lean2 import NeedLitType, strip, U8, STR  # noqa: E402
from rs2lean4 import Parser4, FnTr4, FoundHole, norm4, lean_type4, tystr4  # noqa: E402

REPO = os.environ.get("VERIF_REPO", "/repo")
OUT = os.environ.get("RS2LEAN5A_OUT", os.path.normpath(os.path.join(HERE, "..", "lean", "JsonbModel", "Generated", "Translated5a.lean")))
PREV = os.environ.get("RS2LEAN5A_PREV", OUT)

F = "src/functions.rs"
K = "src/keypath.rs"

# type declarations: (file, kind, name)
TYPES5A = [
    (K, "enum", "KeyPath"),
]

# (file, impl type or None, trait or None, fn name, Lean name); dependency order
FUNCS5A = [
    (F, None, None, "get_by_index", "get_by_index"),
    (F, None, None, "get_by_name", "get_by_name"),
    (F, None, None, "object_keys", "object_keys"),
    (F, None, None, "array_values", "array_values"),
    (F, None, None, "object_each", "object_each"),
    (F, None, None, "type_of", "type_of"),
    (F, None, None, "as_null", "as_null"),
    (F, None, None, "as_bool", "as_bool"),
    (F, None, None, "as_number", "as_number"),
    (F, None, None, "as_str", "as_str"),
    (F, None, None, "as_i64", "as_i64"),
    (F, None, None, "as_u64", "as_u64"),
    (F, None, None, "as_f64", "as_f64"),
    (F, None, None, "is_null", "is_null"),
    (F, None, None, "is_boolean", "is_boolean"),
    (F, None, None, "is_number", "is_number"),
    (F, None, None, "is_string", "is_string"),
    (F, None, None, "is_i64", "is_i64"),
    (F, None, None, "is_u64", "is_u64"),
    (F, None, None, "is_f64", "is_f64"),
    (F, None, None, "to_bool", "to_bool"),
    (F, None, None, "to_i64", "to_i64"),
    (F, None, None, "to_u64", "to_u64"),
    (F, None, None, "to_f64", "to_f64"),
    (F, None, None, "to_str", "to_str"),
    (F, None, None, "get_by_keypath", "get_by_keypath"),
    (F, None, None, "exists_jsonb_key", "exists_jsonb_key"),
    (F, None, None, "exists_all_keys", "exists_all_keys"),
    (F, None, None, "exists_any_keys", "exists_any_keys"),
    (F, None, None, "traverse_check_string", "traverse_check_string"),
]

# public functions that start with `if !is_jsonb(value) { <text branch; every path returns> }`: the text branch
# calls the JSON text parser and is kept as a parameter `text__ : Res <result>` holding its outcome
TEXT5A = {"get_by_index", "get_by_name", "object_keys", "array_values", "object_each", "type_of", "as_null", "as_bool",
          "as_number", "as_str", "get_by_keypath", "exists_all_keys", "exists_any_keys", "traverse_check_string"}

RESERVED5A = set("KeyPath".split())


# ----------------------------------------------------------------------------- parser

FN_BYTES_BOOL = ("fnbb",)      # `impl Fn(&[u8]) -> bool`: a Lean function `Bytes → Bool` (total, no side effect)


class Parser5(Parser4):
    def parse_type(self):
        if self.isid("impl") and self.isid("Fn", 1) and self.isp("(", 2):
            self.next(); self.next(); self.next()
            args = []
            while not self.isp(")"):
                args.append(norm4(self.parse_type()))
                if not self.eatp(","):
                    break
            self.expectp(")")
            ret = ("unit",)
            if self.eatp("->"):
                ret = norm4(self.parse_type())
            if len(args) == 1 and is_bytes(args[0]) and ret == ("bool",):
                return FN_BYTES_BOOL
            raise Unsupported("closure parameter type not in the subset (only `impl Fn(&[u8]) -> bool`)")
        return Parser4.parse_type(self)


# ----------------------------------------------------------------------------- types

def size_align5(t, world):
    """rs2lean4.size_align4 plus `Vec<T>` (pointer, capacity, length) as an element type"""
    if t[0] == "vec":
        return 24, 8
    if t[0] == "tuple":
        parts = [size_align5(x, world) for x in t[1]]
        al = max(a for _, a in parts)
        if any(sz % a for sz, a in parts):
            raise Unsupported("size of `%s`" % tystr4(t))
        total = sum(sz for sz, _ in parts)
        return (total + al - 1) // al * al, al
    return R4.size_align4(t, world)


def lean_type5(t, world):
    k = t[0]
    if t == FN_BYTES_BOOL:
        return "(Bytes → Bool)"
    if k in ("vec", "slice", "array", "deque") and not is_bytes(t):
        return "(List %s)" % lean_type5(t[1], world)
    if k == "opt":
        return "(Option %s)" % lean_type5(t[1], world)
    if k == "tuple":
        return "(" + " × ".join(lean_type5(x, world) for x in t[1]) + ")"
    return lean_type4(t, world)


# ----------------------------------------------------------------------------- function translator

def always_returns(e):
    """every path through the statement / block `e` ends with `return <expr>` (syntactic)"""
    if e is None:
        return False
    k = e.kind
    if k == "paren":
        return always_returns(e.e)
    if k == "return":
        return e.e is not None
    if k == "block":
        if e.tail is not None:
            return always_returns(e.tail)
        if not e.stmts:
            return False
        s = e.stmts[-1]
        return s.kind == "expr" and always_returns(s.e)
    if k == "match":
        return bool(e.arms) and all(always_returns(a.body) for a in e.arms)
    if k == "if":
        return e.els is not None and always_returns(e.then) and always_returns(e.els)
    if k == "iflet":
        return e.els is not None and always_returns(e.then) and always_returns(e.els)
    return False


class FnTr5(FnTr4):
    def __init__(self, world, file, impl, trait, name, it, lean, lit_choice=None, group=None, holes=None):
        self.uses_fmt = False           # `format!("{}", <Number>)`: the text of an f64 is the parameter `fmt__`
        self.texts = []                 # text parameters of this function: dicts pname / leanty / args (own parameter names)
        FnTr4.__init__(self, world, file, impl, trait, name, it, lean, lit_choice, group, holes)
        self.body_parser = Parser5(self.body_parser.t, self.body_parser.i)

    # -- signature: generic `I: Iterator<Item = T>` parameters are lists of `T` (consumed by one `for`),
    # `impl Fn(&[u8]) -> bool` parameters are Lean functions
    def parse_sig(self, it):
        toks = list(it["toks"])
        self.iter_params = set()
        self.for_header_ok = None
        iters = {}
        p = Parser5(toks)
        if p.isp("<"):
            # the generic parameter list, `>>` split into its two closers (only inside that list)
            flat, depth, end = [], 0, None
            for k, t in enumerate(toks):
                if end is not None:
                    flat.append(t)
                    continue
                parts = [Tok("p", ">", t.pos), Tok("p", ">", t.pos)] if (t.k == "p" and t.v == ">>") else [t]
                for x in parts:
                    flat.append(x)
                    if x.k == "p" and x.v == "<":
                        depth += 1
                    elif x.k == "p" and x.v == ">":
                        depth -= 1
                        if depth == 0 and end is None:
                            end = len(flat) - 1
                if t.k == "p" and t.v == "(" and depth == 0:
                    break
            if end is None:
                raise Unsupported("parse: unbalanced <>")
            inner = flat[1:end]
            toks = flat
            p = Parser5(toks, end + 1)
            q = Parser5(inner + [Tok("eof", None, 0)])
            keep = []
            while q.peek().k != "eof":
                if q.peek().k == "life":
                    keep.append(q.next())
                    if q.isp(":"):
                        raise Unsupported("lifetime bounds not in the subset")
                elif q.peek().k == "id":
                    g = q.ident()
                    if not (q.eatp(":") and q.eatid("Iterator") and q.eatp("<") and q.eatid("Item") and q.eatp("=")):
                        raise Unsupported("generic parameters not in the subset")
                    start = q.i
                    q.parse_type()
                    iters[g] = q.t[start:q.i]
                    if not q.eatp(">"):
                        raise Unsupported("generic parameters not in the subset")
                else:
                    raise Unsupported("generic parameter list not in the subset")
                if not q.eatp(","):
                    break
            if q.peek().k != "eof":
                raise Unsupported("generic parameters not in the subset")
            rest = toks[p.i:]
            # the parameter list with `Vec<T>` for every `I`
            out, depth, k = [], 0, 0
            while k < len(rest):
                t = rest[k]
                if t.k == "p" and t.v == "(":
                    depth += 1
                elif t.k == "p" and t.v == ")":
                    depth -= 1
                    if depth == 0:
                        out += rest[k:]
                        break
                if depth == 1 and t.k == "id" and t.v in iters and k > 0 and rest[k - 1].k == "p" and rest[k - 1].v == ":":
                    out += [Tok("id", "Vec", t.pos), Tok("p", "<", t.pos)] + list(iters[t.v]) + [Tok("p", ">", t.pos)]
                    self.iter_params.add(rest[k - 2].v)
                else:
                    out.append(t)
                k += 1
            lt_toks = []
            if keep:
                lt_toks = [Tok("p", "<", 0)]
                for j, x in enumerate(keep):
                    lt_toks += ([Tok("p", ",", 0)] if j else []) + [x]
                lt_toks.append(Tok("p", ">", 0))
            toks = lt_toks + out
        # `impl Fn(..) -> ..` parameter types are not known to the earlier parsers: read them here
        p = Parser5(list(toks))
        if p.isp("<"):
            p.skip_generics()
        p.expectp("(")
        # replace `impl Fn(&[u8]) -> bool` by the marker type `FnBytesBool__`
        k = p.i
        t_ = p.t
        out = list(t_[:k])
        while k < len(t_):
            t = t_[k]
            if t.k == "id" and t.v == "impl" and t_[k + 1].k == "id" and t_[k + 1].v == "Fn":
                q = Parser5(t_, k)
                ty = q.parse_type()
                out.append(Tok("id", "FnBytesBool__", t.pos))
                k = q.i
                continue
            out.append(t)
            k += 1
        FnTr4.parse_sig(self, dict(it, toks=out))

    def resolve(self, t):
        if t == ("named", "FnBytesBool__") or t == FN_BYTES_BOOL:
            return FN_BYTES_BOOL
        return FnTr4.resolve(self, t)

    def lt(self, t):
        return lean_type5(t, self.w)

    def concrete(self, t):
        if t == FN_BYTES_BOOL:
            return True
        return FnTr4.concrete(self, t)

    # -- the sniffing prologue `if !is_jsonb(value) { <text branch: every path returns> }`
    def split_text_branch(self, body):
        if self.name not in TEXT5A:
            return FnTr4.split_text_branch(self, body)
        if not body.stmts:
            raise Unsupported("expected the `if !is_jsonb(value) { <text branch> }` prologue")
        s0 = body.stmts[0]
        e = s0.e if s0.kind == "expr" else None
        ok = e is not None and e.kind == "if" and e.els is None and self.is_plain_sniff(e.cond) and always_returns(e.then)
        if not ok:
            raise Unsupported("expected the `if !is_jsonb(<parameter>) { …; return …; }` prologue")
        self.text_param = "text__"
        new_then = N("block", stmts=[], tail=N("return", e=N("path", segs=["text__"])))
        s0 = N("expr", e=N("if", cond=e.cond, then=new_then, els=None), semi=False)
        return N("block", stmts=[s0] + body.stmts[1:], tail=body.tail)

    def is_plain_sniff(self, c):
        """`!is_jsonb(p)` for a parameter `p` of this function"""
        while c.kind == "paren":
            c = c.e
        if not (c.kind == "un" and c.op == "!" and c.e.kind == "call" and c.e.f.kind == "path"
                and c.e.f.segs == ["is_jsonb"] and len(c.e.args) == 1):
            return False
        a = strip(c.e.args[0])
        return a.kind == "path" and len(a.segs) == 1 and a.segs[0] in [n for n, _ in self.params] \
            and a.segs[0] not in self.mutparams

    peeking = False

    def peek_type(self, e):
        save, self.peeking = self.peeking, True
        save_ok = self.for_header_ok
        try:
            return FnTr4.peek_type(self, e)
        finally:
            self.peeking = save
            self.for_header_ok = save_ok

    def own_param(self, x):
        """`x` names a parameter of this function that is never assigned and is not shadowed here"""
        if x not in [n for n, _ in self.params] or x in self.mutparams:
            return False
        for s in reversed(self.scopes):
            if x in s:
                return s is self.scopes[0]
        return False

    def add_text(self, pname, leanty, args):
        for t in self.texts:
            if t["pname"] == pname:
                if t["args"] != args or t["leanty"] != leanty:
                    raise Unsupported("two calls of a sniffing function with different arguments")
                return
        self.texts.append(dict(pname=pname, leanty=leanty, args=list(args)))

    def user_call(self, sig, args, recv=None):
        texts = sig.get("texts")
        if not texts:
            return FnTr4.user_call(self, sig, args, recv)
        if recv is not None or sig.get("mut") or sig.get("writer"):
            raise Unsupported("call of the sniffing function %s in this shape" % sig["lean"])
        params = sig["params"]
        if len(args) != len(params):
            raise Unsupported("arity of call to %s" % sig["lean"])
        # the text results handed on are those of the callee on this function's own parameters
        actual = {}
        for ae, (pn, _) in zip(args, params):
            a = strip(ae)
            actual[pn] = a.segs[0] if (a.kind == "path" and len(a.segs) == 1 and self.own_param(a.segs[0])) else None
        extra = []
        for t in texts:
            mine = [actual.get(a) for a in t["args"]]
            if any(m is None for m in mine):
                raise Unsupported("call of the sniffing function %s with an argument that is not a parameter of the caller" % sig["lean"])
            pname = ("%s_text__" % sig["name"]) if t["pname"] == "text__" else t["pname"]
            self.add_text(pname, t["leanty"], mine)
            extra.append(pname)
        ls, terms = [], []
        for ae, (_, pt) in zip(args, params):
            l1, t1, _ = self.ex(ae, pt)
            ls += l1
            terms.append(self.atom(t1))
        head = sig["lean"]
        if sig.get("fuel"):
            self.uses_fuel = True
            head += " fuel"
        if sig.get("fmt"):
            self.uses_fmt = True
            head += " fmt__"
        call = " ".join([head] + terms + extra)
        ret = sig["ret"]
        if ret[0] == "res":
            return ls, "(%s)" % call, ret
        ls, r = self.call_res(ls, call)
        return ls, r, ret

    # -- `opt.map(|pat| body)`: `match opt { Some(pat) => Some(body), None => None }`
    def desugar(self, e):
        if e is not None and e.kind == "mcall" and e.name == "map" and len(e.args) == 1 and e.args[0].kind == "closure" \
                and len(e.args[0].params) == 1:
            rty = self.peek_type(e.recv)
            if rty is not None and rty[0] == "opt":
                c = e.args[0]
                some = N("call", f=N("path", segs=["Some"]), args=[c.body])
                return N("match", scrut=e.recv, arms=[
                    N("arm", pat=N("p_ctor", path=["Some"], args=[c.params[0]]), guard=None, body=some),
                    N("arm", pat=N("p_path", path=["None"]), guard=None, body=N("path", segs=["None"]))])
        return e

    def ex0(self, e, want):
        e2 = self.desugar(e)
        if e2 is not e:
            return self.ex(e2, want)
        k = e.kind
        if k == "lit_other" and e.what == "float":
            # an integer literal with an `f64` suffix (`1_f64`): the value of `1 as f64`
            m = re.fullmatch(r"([0-9][0-9_]*?)_?f64", e.text)
            if not m:
                raise Unsupported("float literal `%s` not in the subset (only `<integer>_f64`)" % e.text)
            return [], "(Rs.intAsF64 (%d : Int))" % int(m.group(1).replace("_", "")), ("f64",)
        if k == "macro" and e.name == "format":
            toks = list(e.toks)
            if len(toks) >= 3 and toks[0].k == "str" and toks[0].v == "{}" and toks[1].k == "p" and toks[1].v == ",":
                q = Parser5(toks[2:] + [Tok("eof", None, 0)])
                arg = q.parse_expr()
                q.eatp(",")
                if q.peek().k != "eof":
                    raise Unsupported("format! arguments")
                ls, t, ty = self.ex(arg)
                if ty != ("named", "Number"):
                    raise Unsupported("format!(\"{}\", ..) of %s (only a `Number`)" % tystr4(ty))
                self.uses_fmt = True
                return ls, "(Rs.displayNumber fmt__ %s)" % self.atom(t), STR
        if k == "macro" and e.name == "unreachable":
            toks = list(e.toks)
            if len(toks) == 1 and toks[0].k == "str":
                msg = "internal error: entered unreachable code: " + R2.rust_str_bytes(toks[0].v).decode("utf-8")
            elif not toks:
                msg = "internal error: entered unreachable code"
            else:
                raise Unsupported("unreachable! with format arguments")
            return ["Ctl.ret (.panic %s)" % R2.lean_str_lit(msg.encode("utf-8"))], "()", ("never",)
        if k == "res_val_opt":
            # the scrutinee of `if let Ok(p) = <Result value>`: the error value is dropped
            ls, t, ty = self.ex(e.e)
            if ty is None or ty[0] != "res":
                raise Unsupported("`if let Ok(..)` on %s" % tystr4(ty))
            r = self.fresh()
            return ls + ["let %s ← Rs.resOpt %s" % (r, self.atom(t))], r, ("opt", ty[1])
        return FnTr4.ex0(self, e, want)

    # -- `&s.to_lowercase() == "<ascii literal>"` (only this comparison shape; see RustPrelude5a.lean)
    def ex_bin(self, e, want):
        if e.op in ("==", "!="):
            l, r = strip(e.l), strip(e.r)
            if r.kind == "mcall" and r.name == "to_lowercase":
                l, r = r, l
            if l.kind == "mcall" and l.name == "to_lowercase" and not l.args:
                if not (r.kind == "lit_other" and r.what == "str"):
                    raise Unsupported("`.to_lowercase()` is limited to a comparison with a string literal")
                lit = R2.rust_str_bytes(r.text)
                if any(b >= 0x80 for b in lit) or any(0x41 <= b <= 0x5A for b in lit):
                    raise Unsupported("`.to_lowercase()` compared with a literal that is not lower-case ASCII")
                ls, t, ty = self.ex(l.recv)
                if ty != STR:
                    raise Unsupported("`.to_lowercase()` on %s" % tystr4(ty))
                term = "(Rs.lowercaseEq %s %s)" % (self.atom(t), R2.lean_str_lit(lit))
                return ls, term if e.op == "==" else "(!%s)" % term, ("bool",)
        return FnTr4.ex_bin(self, e, want)

    # -- `if let Ok(p) = <Result value> { .. } else { .. }`
    def ctl(self, e, mode, want):
        if e.kind == "iflet" and e.pat.kind == "p_ctor" and e.pat.path == ["Ok"] and len(e.pat.args) == 1:
            sc = e.scrut
            while sc.kind == "paren":
                sc = sc.e
            e = N("iflet", pat=N("p_ctor", path=["Some"], args=e.pat.args), scrut=N("res_val_opt", e=sc), then=e.then, els=e.els)
        return FnTr4.ctl(self, e, mode, want)

    def tail(self, e):
        if e is not None and e.kind == "path" and e.segs == ["text__"] and self.text_param and self.name in TEXT5A:
            return ["Ctl.ret text__"]
        e2 = self.desugar(e)
        if e2 is not e:
            return self.tail(e2)
        return FnTr4.tail(self, e)

    # -- constants of type `&str`
    def ex_path(self, e, want):
        if len(e.segs) == 1 and e.segs[0] in self.iter_params and self.own_param(e.segs[0]):
            if self.for_header_ok != e.segs[0]:
                raise Unsupported("the iterator parameter `%s` may only be consumed by one `for` loop" % e.segs[0])
            self.for_header_ok = None
            self.iter_used = getattr(self, "iter_used", set())
            if e.segs[0] in self.iter_used and not self.peeking:
                raise Unsupported("the iterator parameter `%s` is consumed twice" % e.segs[0])
            if not self.peeking:
                self.iter_used.add(e.segs[0])
        if len(e.segs) == 1 and self.lookup(e.segs[0]) is None and e.segs[0] in self.w.consts and norm4(self.w.consts[e.segs[0]]) == STR:
            return [], "(Rs.strLit C.%s)" % e.segs[0], STR
        return FnTr4.ex_path(self, e, want)

    # -- untyped `Vec::with_capacity(n)`: the element type is that of the first `push` (as rs2lean4 does for queues)
    CONTAINER_NEW = dict(FnTr4.CONTAINER_NEW)
    CONTAINER_NEW[("Vec", "with_capacity")] = "vec"

    def ex_call(self, e, want):
        f = e.f
        if f.kind == "path":
            segs, args = f.segs, e.args
            last2 = segs[-2:] if len(segs) >= 2 else None
            if len(segs) == 1 and self.lookup(segs[0]) == FN_BYTES_BOOL and len(args) == 1:
                ls, t, ty = self.ex(args[0])
                if not is_bytes(ty):
                    raise Unsupported("closure argument of type %s" % tystr4(ty))
                return ls, "(%s %s)" % (lname(segs[0]), self.atom(t)), ("bool",)
            if segs == ["from_utf8"] and len(args) == 1 and self.lookup("from_utf8") is None and self.find_sig(None, "from_utf8") is None:
                ls, t, ty = self.ex(args[0])
                if not is_bytes(ty):
                    raise Unsupported("from_utf8 of %s" % tystr4(ty))
                return ls, "(Rs.strFromUtf8 %s)" % self.atom(t), ("res", STR)
            if last2 in (["Vec", "with_capacity"], ["VecDeque", "with_capacity"]) and len(args) == 1:
                kind = "vec" if last2[0] == "Vec" else "deque"
                el = want[1] if (want is not None and want[0] == kind) else None
                if el is not None and self.concrete(el) and (el[0] in ("tuple", "vec") and not (kind == "vec" and el == U8)):
                    ls, t, _ = self.ex(args[0], ("int", "usize"))
                    ls, r = self.call_res(ls, "Rs.vecWithCapacity %s %d %s" % (self.lt(el), size_align5(el, self.w)[0], self.atom(t)))
                    return ls, r, (kind, el)
        return FnTr4.ex_call(self, e, want)

    def hole_found(self, holder_ty, arg, want_tuple=None):
        ls, t, ty = self.ex(arg, None)
        if ty is not None and ty[0] == "flex" and all(c[0] == "lit" for c in ty[1]):
            raise FoundHole(holder_ty[1], ("flexlit",))
        return FnTr4.hole_found(self, holder_ty, arg, want_tuple)

    def tr_mutcall(self, e):
        pl = self.place_of(e.recv)
        ty, name, args = pl[2], e.name, e.args
        if ty[0] == "vec" and ty[1][0] == "hole":
            if name == "push" and len(args) == 1:
                self.hole_found(ty[1], args[0])
            if name == "extend_from_slice" and len(args) == 1:
                raise FoundHole(ty[1][1], U8)
        return FnTr4.tr_mutcall(self, e)

    # -- `r.ok()` on a `Result` value
    def ex_mcall(self, e, want):
        name, args, recv = e.name, e.args, e.recv
        while recv.kind == "paren":
            recv = recv.e
        if name == "parse" and not args:
            fish = getattr(e, "fish", None)
            prim = {("i64",): ("Rs.parseI64", ("int", "i64")), ("u64",): ("Rs.parseU64", ("int", "u64")),
                    ("f64",): ("Rs.parseF64", ("f64",))}.get(tuple(fish or ()))
            if prim is None:
                raise Unsupported("only `.parse::<i64>()`, `::<u64>()`, `::<f64>()` are in the subset")
            ls, t, ty = self.ex(recv)
            if ty != STR:
                raise Unsupported("`.parse()` on %s" % tystr4(ty))
            return ls, "(%s %s)" % (prim[0], self.atom(t)), ("res", prim[1])
        if name == "ok" and not args and recv.kind in ("call", "mcall"):
            sig = self.callee_sig(recv)
            if sig is not None and sig["ret"][0] == "res" and not sig.get("mut") and not sig.get("writer"):
                ls, t, ty = self.ex(recv)
                r = self.fresh()
                return ls + ["let %s ← Rs.resOpt %s" % (r, self.atom(t))], r, ("opt", ty[1])
        return FnTr4.ex_mcall(self, e, want)

    # -- loops: an iterator parameter in a `for` header; a queue that grows inside its `while let` loop
    def tr_loop(self, e):
        if e.kind == "for":
            it = e.iter
            while it.kind in ("paren", "ref"):
                it = it.e
            if it.kind == "path" and len(it.segs) == 1 and it.segs[0] in self.iter_params:
                self.for_header_ok = it.segs[0]
        n_aux = len(self.aux_defs)
        lines = FnTr4.tr_loop(self, e)
        # a hoisted loop body that uses the function's `fuel` (it calls a fuel-taking function) takes it as a parameter
        if len(self.aux_defs) > n_aux and self.group is None:
            aux_def = self.aux_defs[-1]
            m = re.match(r"def (\S+) ", aux_def[0])
            if m and any(re.search(r"\bfuel\b", l) for l in aux_def[1:]) and "(fuel : Nat)" not in aux_def[0]:
                aux = m.group(1)
                aux_def[0] = aux_def[0].replace("def %s " % aux, "def %s (fuel : Nat) " % aux, 1)
                hit = [i for i, l in enumerate(lines) if ("(%s " % aux) in l or ("(%s)" % aux) in l]
                if len(hit) != 1:
                    raise Unsupported("translator error: loop call site not found")
                i = hit[0]
                if ("(%s)" % aux) in lines[i]:
                    lines[i] = lines[i].replace("(%s)" % aux, "(%s fuel)" % aux, 1)
                else:
                    lines[i] = lines[i].replace("(%s " % aux, "(%s fuel " % aux, 1)
                self.uses_fuel = True
        if e.kind == "whilelet":
            sc = e.scrut
            while sc.kind == "paren":
                sc = sc.e
            q = strip(sc.recv)
            if q.kind == "path" and len(q.segs) == 1 and self.pushes_to(e.body, q.segs[0]):
                # the queue grows in the loop: no bound can be read off the source, the function's `fuel` is the bound
                old = "Rs.whileFuel ((Rs.len %s).toNat + 1)" % lname(q.segs[0])
                hit = [i for i, l in enumerate(lines) if old in l]
                if len(hit) != 1:
                    raise Unsupported("translator error: `while let` call site not found")
                if self.group is not None:
                    raise Unsupported("a growing queue inside a recursive group")
                self.uses_fuel = True
                lines[hit[0]] = lines[hit[0]].replace(old, "Rs.whileFuel fuel", 1)
        return lines

    def pushes_to(self, node, q):
        found = []

        def walk(x):
            if isinstance(x, (list, tuple)):
                for y in x:
                    walk(y)
            elif isinstance(x, N):
                if x.kind == "mcall" and x.name in ("push_back", "push_front", "extend", "append", "insert"):
                    r = strip(x.recv)
                    if r.kind == "path" and r.segs == [q]:
                        found.append(x)
                for kk, v in x.__dict__.items():
                    if kk not in ("kind", "toks"):
                        walk(v)
        walk(node)
        return bool(found)

    # -- `match <Result value> { Ok(p) => .., Err(_) => .. }` on a primitive; `match (enum, integer) { .. }`
    def ctl_match(self, e, mode, want, M):
        scrut = e.scrut
        while scrut.kind == "paren":
            scrut = scrut.e
        if scrut.kind in ("call", "mcall") and len(e.arms) == 2 and all(a.guard is None for a in e.arms) \
                and self.callee_sig(scrut) is None:
            kinds = []
            for a in e.arms:
                q = a.pat
                if q.kind == "p_ctor" and q.path == ["Ok"] and len(q.args) == 1:
                    kinds.append("ok")
                elif q.kind == "p_ctor" and q.path == ["Err"] and len(q.args) == 1 and q.args[0].kind == "p_wild":
                    kinds.append("err")
                else:
                    kinds.append(None)
            if sorted(k or "" for k in kinds) == ["err", "ok"]:
                arms = []
                for a, k in zip(e.arms, kinds):
                    pat = N("p_ctor", path=["Some"], args=a.pat.args) if k == "ok" else N("p_path", path=["None"])
                    arms.append(N("arm", pat=pat, guard=None, body=a.body))
                return FnTr4.ctl_match(self, N("match", scrut=N("res_val_opt", e=scrut), arms=arms), mode, want, M)
        if scrut.kind == "tuple" and len(scrut.items) == 2:
            t0 = self.peek_type(scrut.items[0])
            t1 = self.peek_type(scrut.items[1])
            t1 = self.default_flex(t1) if (t1 is not None and t1[0] == "flex") else t1
            if t0 is not None and t0[0] == "named" and t0[1] in self.w.enums and t1 is not None and is_int(t1):
                return self.match_enum_int(e, scrut, t0, t1, mode, want, M)
        return FnTr4.ctl_match(self, e, mode, want, M)

    def match_enum_int(self, e, scrut, t0, t1, mode, want, M):
        """`match (x, n) { (A(p) | B(p), CONST) => a, (C(q), CONST) => b, (_, _) => d }`: the enum patterns of the arms
        name pairwise different variants and the last arm is a catch-all: a `match` on `x` whose arms test `n` and
        otherwise continue with the catch-all body"""
        if not e.arms or any(a.guard is not None for a in e.arms):
            raise Unsupported("guard on a match arm of (enum, integer)")
        last = e.arms[-1].pat
        if not (last.kind == "p_wild" or (last.kind == "p_tuple" and len(last.items) == 2 and all(x.kind == "p_wild" for x in last.items))):
            raise Unsupported("match on (enum, integer) without a final catch-all arm")
        fallback = e.arms[-1].body
        sl0, s0, _ = self.ex(scrut.items[0], t0)
        sl1, s1, _ = self.ex(scrut.items[1], t1)
        tag = self.fresh()
        pre = sl0 + sl1 + ["let %s := %s" % (tag, s1)]
        variants = [vn for vn, _ in self.w.enums[t0[1]]]
        seen = set()
        branches = []
        self.push()
        try:
            self.scopes[-1][tag] = t1                    # a generated name: visible to the conditions only
            for a in e.arms[:-1]:
                q = a.pat
                if not (q.kind == "p_tuple" and len(q.items) == 2):
                    raise Unsupported("pattern not in the subset for a match on (enum, integer)")
                alts = q.items[0].alts if q.items[0].kind == "p_or" else [q.items[0]]
                pats, binds = [], None
                for alt in alts:
                    if alt.kind not in ("p_ctor", "p_path") or len(alt.path) != 2:
                        raise Unsupported("pattern not in the subset for a match on (enum, integer)")
                    vn = alt.path[1]
                    if vn in seen:
                        raise Unsupported("two arms of a match on (enum, integer) name the same variant")
                    seen.add(vn)
                    p1, b1 = self.ctor_pattern(alt, t0)
                    if binds is not None and b1 != binds:
                        raise Unsupported("alternatives that bind different names")
                    binds = b1
                    pats.append(p1)
                cond = self.int_pat_expr(q.items[1], tag, t1)
                body = a.body if cond is None else N("if", cond=cond, then=self.body_as_block(a.body), els=self.body_as_block(fallback))
                branches.append(dict(pat=" | ".join(pats), binds=binds or [], body=body))
            if any(v not in seen for v in variants):
                branches.append(dict(pat="_", binds=[], body=fallback))
            return self.finish_ctl(("match", [s0]), pre, branches, mode, want, M)
        finally:
            self.pop()

    def int_pat_expr(self, q, tag, ty):
        """the test `tag matches q` as a Rust expression (None for `_`)"""
        if q.kind == "p_wild":
            return None
        if q.kind == "p_or":
            parts = [self.int_pat_expr(x, tag, ty) for x in q.alts]
            if any(x is None for x in parts):
                return None
            out = parts[0]
            for x in parts[1:]:
                out = N("bin", op="||", l=out, r=x)
            return out
        if q.kind == "p_lit":
            return N("bin", op="==", l=N("path", segs=[tag]), r=q.lit)
        if q.kind == "p_path" and (len(q.path) > 1 or q.path[0] in self.w.consts):
            return N("bin", op="==", l=N("path", segs=[tag]), r=N("path", segs=q.path))
        raise Unsupported("integer pattern not in the subset for a match on (enum, integer)")

    # -- whole function
    def translate0(self):
        p = self.body_parser
        body = p.parse_block()
        if p.peek().k != "eof":
            raise Unsupported("tokens after the function body")
        if self.name in TEXT5A:
            body = self.split_text_branch(body)
        self.scopes = []
        self.push()
        binders = []
        for n, t in self.params:
            self.bind(n, t)
            binders.append("(%s : %s)" % (lname(n), self.lt(t)))
        if self.ret[0] == "res" and self.ret[1][0] == "res":
            raise Unsupported("nested Result")
        if self.mutparams:
            raise Unsupported("`&mut` parameters in a phase-5a function")
        if self.name in TEXT5A:
            self.scopes[-1]["text__"] = self.ret
            self.texts.append(dict(pname="text__", leanty="Res %s" % self.lean_ret(), args=[n for n, _ in self.params]))
        lines, _, _, _ = self.tr_block(body, "tail", None)
        for t in self.texts:
            binders.append("(%s : %s)" % (t["pname"], t["leanty"]))
        out = []
        for a in self.aux_defs:
            out += a + [""]
        if self.uses_fmt:
            binders = ["(fmt__ : Nat → Bytes)"] + binders
        if self.uses_fuel:
            binders = ["(fuel : Nat)"] + binders
        head = "def %s %s: Res %s := Ctl.run do" % (self.lean, "".join(x + " " for x in binders), self.lean_ret())
        return out, [head] + ind(lines)


# ----------------------------------------------------------------------------- driver

HEADER = """-- GENERATED by tools/rs2lean5a.py from the Rust sources of the crate (src/*.rs); do not edit.
-- Phase 5a: the byte-level read-only accessors of functions.rs.  One block per translated declaration or
-- function (hoisted loop bodies `<fn>.loop<k>` first).  The meaning of every `Rs.*` / `Ctl.*` name is in
-- JsonbModel/RustPrelude.lean, RustPrelude2.lean, RustPrelude3.lean, RustPrelude4.lean and RustPrelude5a.lean;
-- the agreement theorems are in Proofs/TranslatedAgreeE*.lean.
import JsonbModel.Generated.Translated4
import JsonbModel.RustPrelude5a

set_option linter.unusedVariables false

namespace Jsonb.Tr
open Jsonb.Rs (Ctl)
"""
FOOTER = "end Jsonb.Tr\n"


def phase4_world(repo):
    """declarations and signatures of the phase-1..4 targets (rs2lean4.generate builds them; the world it works
    on is captured, rs2lean4.py itself is not modified)"""
    box = {}
    orig = R4.phase3_world

    def capture(r):
        w = orig(r)
        box["w"] = w
        return w
    R4.phase3_world = capture
    try:
        R4.generate(repo, "")
    finally:
        R4.phase3_world = orig
    return box["w"]


def translate_fn5(world, file, impl, trait, name, lean, it):
    """as rs2lean4.translate_fn4 with the phase-5a translator; -> (aux lines, def lines, translator)"""
    def attempt(choice, holes=None):
        """-> list of results (several when the element type of a container is an unconstrained integer literal)"""
        holes = dict(holes or {})
        for _ in range(16):
            try:
                tr = FnTr5(world, file, impl, trait, name, it, lean, dict(choice), None, holes)
                aux, lines = tr.translate()
                return [(aux, lines, tr)]
            except FoundHole as h:
                if h.site in holes:
                    raise Unsupported("the element type of a container could not be inferred")
                if h.ty == ("flexlit",):
                    res, errs = [], []
                    for c in R2.INT_CANDIDATES:
                        try:
                            h2 = dict(holes)
                            h2[h.site] = ("int", c)
                            res += attempt(choice, h2)
                        except NeedLitType:
                            raise
                        except Unsupported as u:
                            errs.append(str(u))
                    if not res:
                        raise Unsupported("no integer type fits the elements of a container (%s)" % (errs[0] if errs else "?"))
                    return res
                holes[h.site] = h.ty
        raise Unsupported("the element type of a container could not be inferred")

    def solve(choice):
        try:
            return [(dict(choice), r) for r in attempt(choice)]
        except NeedLitType as e:
            res, errs = [], []
            for c in R2.INT_CANDIDATES:
                ch = dict(choice)
                ch[e.site] = c
                try:
                    res += solve(ch)
                except NeedLitType:
                    raise
                except Unsupported as u:
                    errs.append(str(u))
            if not res:
                raise Unsupported("no integer type fits a literal `let` (%s)" % (errs[0] if errs else "?"))
            return res

    sols = solve({})
    texts = {}
    for ch, r in sols:
        texts.setdefault("\n".join(r[0] + r[1]), []).append(ch)
    if len(texts) == 1:
        return sols[0][1]
    allsites = set()
    for ch, _ in sols:
        allsites |= set(ch)
    if len(sols) == len(R2.INT_CANDIDATES) ** len(allsites):
        for ch, r in sols:
            if all(v == "i32" for v in ch.values()):
                return r
    raise Unsupported("ambiguous integer type of a literal `let`")


def key_of5(file, impl, name):
    return "%s::%s%s" % (file, (impl + "::") if impl else "", name)


def generate(repo, prev_text):
    world = phase4_world(repo)
    status = {}
    blocks = []
    prev = {m.group(1): m.group(2) for m in R.BLOCK_RE.finditer(prev_text or "")}

    def guarded(key, fn):
        try:
            r = fn()
            status[key] = "translated" if r is not None else "missing"
            return r
        except Unsupported as e:
            status[key] = "unsupported: %s" % e
        except RecursionError:
            status[key] = "unsupported: expression too deeply nested"
        except Exception as e:
            status[key] = "unsupported: translator error (%s: %s)" % (type(e).__name__, e)
        return None

    for file, kind, name in TYPES5A:
        key = "%s::%s %s" % (file, kind, name)
        lines = guarded(key, lambda: emit_type5(world, file, kind, name))
        blocks.append((key, lines))
    for file, impl, trait, name, lean in FUNCS5A:
        key = key_of5(file, impl, name)
        hits = world.find(file, "fn", name, impl, trait)
        if not hits:
            status[key] = ("unsupported: cannot read %s: %s" % (file, world.file_errors[file])) if file in world.file_errors else "missing"
            blocks.append((key, None))
            continue
        if len(hits) > 1:
            status[key] = "unsupported: defined more than once"
            blocks.append((key, None))
            continue

        def one():
            aux, body, tr = translate_fn5(world, file, impl, trait, name, lean, hits[0])
            register_sig5(world, file, impl, trait, name, lean, tr)
            return aux + body
        lines = guarded(key, one)
        blocks.append((key, lines))
    out = [HEADER]
    ok = True
    for key, lines in blocks:
        out.append("-- BEGIN %s\n" % key)
        if lines is not None:
            out.append("\n".join(lines) + "\n")
        else:
            ok = False
            if key in prev:
                out.append(prev[key])
                status[key] += " (kept the previously generated block)"
            else:
                out.append("-- (no translation available)\n")
        out.append("-- END %s\n\n" % key)
    out.append(FOOTER)
    ok = ok and all(v == "translated" for v in status.values())
    return "".join(out), status, ok


def emit_type5(world, file, kind, name):
    if kind == "enum":
        return R3.emit_enum3(world, file, name)
    raise Unsupported("declaration kind `%s`" % kind)


def register_sig5(world, file, impl, trait, name, lean, tr):
    params = list(tr.params)
    world.sigs[(file, impl, name)] = dict(
        params=params, ret=tr.ret, lean=lean, writer=None, mut=list(tr.mutparams), name=name, group=None,
        trait=trait, fuel=bool(tr.uses_fuel), fmt=bool(tr.uses_fmt), holder=None, texts=[dict(t) for t in tr.texts])
    if impl is None:
        world.sigs_names.add(name)


def main(argv):
    to_stdout = "--stdout" in argv
    try:
        prev_text = open(PREV, encoding="utf-8").read()
    except OSError:
        prev_text = ""
    text, status, ok = generate(REPO, prev_text)
    if to_stdout:
        sys.stdout.write(text)
        return 0
    try:
        old = open(OUT, encoding="utf-8").read()
    except OSError:
        old = None
    changed = False
    if old != text:
        changed = True
        os.makedirs(os.path.dirname(OUT), exist_ok=True)
        tmp_out = OUT + ".tmp%d" % os.getpid()
        with open(tmp_out, "w", encoding="utf-8") as f:
            f.write(text)
        os.replace(tmp_out, OUT)
    print(json.dumps({"ok": ok, "functions": status, "changed": changed}))
    return 0


if __name__ == "__main__":
    sys.exit(main(sys.argv[1:]))
