#!/usr/bin/env python3
"""rs2lean5a: phase 5a of the Rust -> Lean translator: the byte-level READ-ONLY ACCESSORS of functions.rs
(`get_by_index`, `get_by_name`, `object_keys`, `array_values`, `object_each`, `type_of`, the `as_*` / `is_*` /
`to_*` family, `get_by_keypath`, `exists_*_keys`, `traverse_check_string`), built on the walkers of phase 2
and the iterators of phases 2 / 4.  Extends the subset of tools/rs2lean4.py (-> rs2lean3 -> rs2lean2 -> rs2lean) with
  * the sniffing prologue `if !is_jsonb(value) { <text branch: returns> }` on functions of ANY result type: the text
    branch calls the JSON text parser and is the parameter `text__ : Res <result>` holding its outcome;
  * calls of such a function `g(p, ..)` from another translated function (`to_bool` calls `as_bool(value)`): the
    caller takes one parameter `g_text__` per sniffing callee (the outcome of g's text branch on the caller's own,
    never assigned, parameters - every call of `g` must pass exactly those) and hands it on;
  * `opt.map(|pat| expr)` / `opt.map(Path)` on an `Option`, `opt.is_some()`; `r.ok()` on a `Result` in value position;
  * `&str` constants of constants.rs (`TYPE_NULL`, ..), `Result<&'static str, _>`;
  * `s.to_lowercase()`, `s.parse::<i64 | u64 | f64>()`, `format!("{}", number)`, float literals `1_f64`: prelude
    primitives MAPPED to the model's `Fn.lowerAscii` / `Fn.parseI64` / `Fn.parseU64` / `Fn.parseF64` / `Fn.numToString`
    (RustPrelude5a.lean), the way `as f64` is mapped in phase 1;
  * `if let Some(v) = <call> { .. } else if let ..` chains, `if let Ok(v) = <Result value>`;
  * generic `I: Iterator<Item = T>` parameters (a `List T`, consumed by one `for`), `impl Fn(&[u8]) -> bool`
    parameters (a Lean function), `enum KeyPath` (payload `Cow<str>`), `match (path, int) { (A(x) | B(x), CONST) => .. }`.
Output: lean/JsonbModel/Generated/Translated5a.lean (namespace Jsonb.Tr, after the phase-1..4 files).
The semantics of every new primitive is in the hand-written lean/JsonbModel/RustPrelude5a.lean.
Same conventions as the earlier phases (see tools/RS2LEAN.md): reads $VERIF_REPO (default /repo), writes the
output only when it changes, prints ONE JSON status line last; `--stdout` prints the text and writes nothing; a
function outside the subset keeps its previously generated block.  Python 3 stdlib only."""
import json, os, re, sys

HERE = os.path.dirname(os.path.abspath(__file__))
sys.path.insert(0, HERE)
import rs2lean as R  # noqa: E402
import rs2lean2 as R2  # noqa: E402
import rs2lean3 as R3  # noqa: E402
import rs2lean4 as R4  # noqa: E402
from rs2lean import N, Tok, Unsupported, NeedType, is_int, is_bytes, lname, ind  # noqa: E402
from rs2lean2 import NeedLitType, strip, U8, STR  # noqa: E402
from rs2lean4 import Parser4, FnTr4, FoundHole, norm4, lean_type4, tystr4  # noqa: E402

REPO = os.environ.get("VERIF_REPO", "/repo")
OUT = os.environ.get("RS2LEAN5A_OUT", os.path.normpath(os.path.join(HERE, "..", "lean", "JsonbModel", "Generated", "Translated5a.lean")))
PREV = os.environ.get("RS2LEAN5A_PREV", OUT)

F = "src/functions.rs"
K = "src/keypath.rs"

# type declarations: (file, kind, name)
TYPES5A = [
    (K, "enum", "KeyPath"),
]

# (file, impl type or None, trait or None, fn name, Lean name); dependency order
FUNCS5A = [
    (F, None, None, "get_by_index", "get_by_index"),
    (F, None, None, "get_by_name", "get_by_name"),
    (F, None, None, "object_keys", "object_keys"),
    (F, None, None, "array_values", "array_values"),
    (F, None, None, "object_each", "object_each"),
    (F, None, None, "type_of", "type_of"),
    (F, None, None, "as_null", "as_null"),
    (F, None, None, "as_bool", "as_bool"),
    (F, None, None, "as_number", "as_number"),
    (F, None, None, "as_str", "as_str"),
    (F, None, None, "as_i64", "as_i64"),
    (F, None, None, "as_u64", "as_u64"),
    (F, None, None, "as_f64", "as_f64"),
    (F, None, None, "is_null", "is_null"),
    (F, None, None, "is_boolean", "is_boolean"),
    (F, None, None, "is_number", "is_number"),
    (F, None, None, "is_string", "is_string"),
    (F, None, None, "is_i64", "is_i64"),
    (F, None, None, "is_u64", "is_u64"),
    (F, None, None, "is_f64", "is_f64"),
    (F, None, None, "to_bool", "to_bool"),
    (F, None, None, "to_i64", "to_i64"),
    (F, None, None, "to_u64", "to_u64"),
    (F, None, None, "to_f64", "to_f64"),
    (F, None, None, "to_str", "to_str"),
    (F, None, None, "get_by_keypath", "get_by_keypath"),
    (F, None, None, "exists_jsonb_key", "exists_jsonb_key"),
    (F, None, None, "exists_all_keys", "exists_all_keys"),
    (F, None, None, "exists_any_keys", "exists_any_keys"),
    (F, None, None, "traverse_check_string", "traverse_check_string"),
]

# public functions that start with `if !is_jsonb(value) { <text branch; every path returns> }`: the text branch
# calls the JSON text parser and is kept as a parameter `text__ : Res <result>` holding its outcome
TEXT5A = {"get_by_index", "get_by_name", "object_keys", "array_values", "object_each", "type_of", "as_null", "as_bool",
          "as_number", "as_str", "get_by_keypath", "exists_all_keys", "exists_any_keys", "traverse_check_string"}

RESERVED5A = set("KeyPath".split())


# ----------------------------------------------------------------------------- parser

class Parser5(Parser4):
    pass


# ----------------------------------------------------------------------------- function translator

class FnTr5(FnTr4):
    def __init__(self, world, file, impl, trait, name, it, lean, lit_choice=None, group=None, holes=None):
        self.text_callees = []          # sniffing functions called here, in order of first call: (name, sig, arg names)
        FnTr4.__init__(self, world, file, impl, trait, name, it, lean, lit_choice, group, holes)
        self.body_parser = Parser5(self.body_parser.t, self.body_parser.i)


# ----------------------------------------------------------------------------- driver

HEADER = """-- GENERATED by tools/rs2lean5a.py from the Rust sources of the crate (src/*.rs); do not edit.
-- Phase 5a: the byte-level read-only accessors of functions.rs.  One block per translated declaration or
-- function (hoisted loop bodies `<fn>.loop<k>` first).  The meaning of every `Rs.*` / `Ctl.*` name is in
-- JsonbModel/RustPrelude.lean, RustPrelude2.lean, RustPrelude3.lean, RustPrelude4.lean and RustPrelude5a.lean;
-- the agreement theorems are in Proofs/TranslatedAgreeE*.lean.
import JsonbModel.Generated.Translated4
import JsonbModel.RustPrelude5a

set_option linter.unusedVariables false

namespace Jsonb.Tr
open Jsonb.Rs (Ctl)
"""
FOOTER = "end Jsonb.Tr\n"


def phase4_world(repo):
    """declarations and signatures of the phase-1..4 targets (rs2lean4.generate builds them; the world it works
    on is captured, rs2lean4.py itself is not modified)"""
    box = {}
    orig = R4.phase3_world

    def capture(r):
        w = orig(r)
        box["w"] = w
        return w
    R4.phase3_world = capture
    try:
        R4.generate(repo, "")
    finally:
        R4.phase3_world = orig
    return box["w"]


def translate_fn5(world, file, impl, trait, name, lean, it):
    """as rs2lean4.translate_fn4 with the phase-5a translator; -> (aux lines, def lines, translator)"""
    def attempt(choice):
        holes = {}
        for _ in range(16):
            try:
                tr = FnTr5(world, file, impl, trait, name, it, lean, dict(choice), None, holes)
                aux, lines = tr.translate()
                return aux, lines, tr
            except FoundHole as h:
                if h.site in holes:
                    raise Unsupported("the element type of a container could not be inferred")
                holes[h.site] = h.ty
        raise Unsupported("the element type of a container could not be inferred")

    def solve(choice):
        try:
            return [(dict(choice), attempt(choice))]
        except NeedLitType as e:
            res, errs = [], []
            for c in R2.INT_CANDIDATES:
                ch = dict(choice)
                ch[e.site] = c
                try:
                    res += solve(ch)
                except NeedLitType:
                    raise
                except Unsupported as u:
                    errs.append(str(u))
            if not res:
                raise Unsupported("no integer type fits a literal `let` (%s)" % (errs[0] if errs else "?"))
            return res

    sols = solve({})
    texts = {}
    for ch, r in sols:
        texts.setdefault("\n".join(r[0] + r[1]), []).append(ch)
    if len(texts) == 1:
        return sols[0][1]
    allsites = set()
    for ch, _ in sols:
        allsites |= set(ch)
    if len(sols) == len(R2.INT_CANDIDATES) ** len(allsites):
        for ch, r in sols:
            if all(v == "i32" for v in ch.values()):
                return r
    raise Unsupported("ambiguous integer type of a literal `let`")


def key_of5(file, impl, name):
    return "%s::%s%s" % (file, (impl + "::") if impl else "", name)


def generate(repo, prev_text):
    world = phase4_world(repo)
    status = {}
    blocks = []
    prev = {m.group(1): m.group(2) for m in R.BLOCK_RE.finditer(prev_text or "")}

    def guarded(key, fn):
        try:
            r = fn()
            status[key] = "translated" if r is not None else "missing"
            return r
        except Unsupported as e:
            status[key] = "unsupported: %s" % e
        except RecursionError:
            status[key] = "unsupported: expression too deeply nested"
        except Exception as e:
            status[key] = "unsupported: translator error (%s: %s)" % (type(e).__name__, e)
        return None

    for file, kind, name in TYPES5A:
        key = "%s::%s %s" % (file, kind, name)
        lines = guarded(key, lambda: emit_type5(world, file, kind, name))
        blocks.append((key, lines))
    for file, impl, trait, name, lean in FUNCS5A:
        key = key_of5(file, impl, name)
        hits = world.find(file, "fn", name, impl, trait)
        if not hits:
            status[key] = ("unsupported: cannot read %s: %s" % (file, world.file_errors[file])) if file in world.file_errors else "missing"
            blocks.append((key, None))
            continue
        if len(hits) > 1:
            status[key] = "unsupported: defined more than once"
            blocks.append((key, None))
            continue

        def one():
            aux, body, tr = translate_fn5(world, file, impl, trait, name, lean, hits[0])
            register_sig5(world, file, impl, trait, name, lean, tr)
            return aux + body
        lines = guarded(key, one)
        blocks.append((key, lines))
    out = [HEADER]
    ok = True
    for key, lines in blocks:
        out.append("-- BEGIN %s\n" % key)
        if lines is not None:
            out.append("\n".join(lines) + "\n")
        else:
            ok = False
            if key in prev:
                out.append(prev[key])
                status[key] += " (kept the previously generated block)"
            else:
                out.append("-- (no translation available)\n")
        out.append("-- END %s\n\n" % key)
    out.append(FOOTER)
    ok = ok and all(v == "translated" for v in status.values())
    return "".join(out), status, ok


def emit_type5(world, file, kind, name):
    raise Unsupported("not yet")


def register_sig5(world, file, impl, trait, name, lean, tr):
    params = list(tr.params)
    world.sigs[(file, impl, name)] = dict(
        params=params, ret=tr.ret, lean=lean, writer=None, mut=list(tr.mutparams), name=name, group=None,
        trait=trait, fuel=bool(tr.uses_fuel), holder=None)
    if impl is None:
        world.sigs_names.add(name)


def main(argv):
    to_stdout = "--stdout" in argv
    try:
        prev_text = open(PREV, encoding="utf-8").read()
    except OSError:
        prev_text = ""
    text, status, ok = generate(REPO, prev_text)
    if to_stdout:
        sys.stdout.write(text)
        return 0
    try:
        old = open(OUT, encoding="utf-8").read()
    except OSError:
        old = None
    changed = False
    if old != text:
        changed = True
        os.makedirs(os.path.dirname(OUT), exist_ok=True)
        tmp_out = OUT + ".tmp%d" % os.getpid()
        with open(tmp_out, "w", encoding="utf-8") as f:
            f.write(text)
        os.replace(tmp_out, OUT)
    print(json.dumps({"ok": ok, "functions": status, "changed": changed}))
    return 0


if __name__ == "__main__":
    sys.exit(main(sys.argv[1:]))
