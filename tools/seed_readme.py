#!/usr/bin/env python3
"""seeded/README.md from seeded/*/meta.json and seeded/RESULTS.json"""
import json, os
ROOT = "/verif/seeded"
res = json.load(open(ROOT + "/RESULTS.json")) if os.path.exists(ROOT + "/RESULTS.json") else {}
out = ["# Seeded property-breaking changes", "",
       "Each directory holds `patch.diff` (apply with `git -C /repo apply`, undo with `git -C /repo checkout -- .`),",
       "the sub-agent's demonstration (`demo.rs`, `demo_output.txt`), `meta.json` (summary, trigger, witness,",
       "my confirmation run) and, when the property's own check caught it, the `replay.json` it wrote.",
       "Every change compiles and leaves the test suite at the baseline (71 pass, `test_to_serde_json` fails).",
       "`caught by` lists every claimed check whose quick tier exits 1 with the change applied", 
       "(matrix run of tools/seed_run.py --all-props; C20 only run against the C20 seeds).", "",
       "| seed | change | own check | caught by |", "|---|---|---|---|"]
for sid in sorted(d for d in os.listdir(ROOT) if os.path.isdir(os.path.join(ROOT, d))):
    meta = json.load(open(os.path.join(ROOT, sid, "meta.json")))
    r = res.get(sid, {})
    prop = sid.split("-")[0]
    own = r.get(prop, {}).get("rc")
    caught = sorted(p for p, x in r.items() if x.get("rc") not in (0, None))
    summ = " ".join(str(meta.get("summary", "")).split())[:230].replace("|", "\\|")
    out.append("| %s | %s | %s | %s |" % (sid, summ, {1: "VIOLATION", 0: "missed", None: "not run"}.get(own, str(own)), " ".join(caught) or "—"))
open(ROOT + "/README.md", "w").write("\n".join(out) + "\n")
print(len(out) - 12, "seeds")
