#!/usr/bin/env python3
"""Self-test of the phase-6d Rust -> Lean translator (tools/rs2lean6d.py: the path parsers of jsonpath/parser.rs /
keypath.rs and the `Display` impls of jsonpath/path.rs / keypath.rs) and of its agreement theorems
(lean/JsonbModel/Proofs/TranslatedAgreeJ*.lean).  Same three questions as the self-tests of phases 1-5:

  (a) robustness: re-formatting the source leaves the generated Lean text byte-identical; a change
      that leaves the subset keeps the committed block and says so;
  (b) sensitivity: each small LOGIC mutation of a target function (wrong delimiter, wrong keyword, swapped alternatives,
      wrong constructor, missing length guard, wrong separator text, ...), applied one at a time, changes the generated
      text and makes an agreement proof FAIL, while the unmutated source PASSES;
  (c) tolerance: harmless re-spellings are still proved.

Works on a copy of $VERIF_REPO/src (default /repo) in a temporary directory under /tmp; Lean runs on
scratch files in a second temporary directory (nothing under lean/ is written).  The Lean project
is $RS2LEAN6D_LEAN (default <verif>/lean); its `JsonbModel.Proofs.TranslatedAgreeJ` must be built.
Python 3 stdlib only.  Exit code 0 iff everything behaved as expected."""
import concurrent.futures, json, os, re, shutil, subprocess, sys, tempfile, time

HERE = os.path.dirname(os.path.abspath(__file__))
VERIF = os.path.normpath(os.path.join(HERE, ".."))
LEAN = os.environ.get("RS2LEAN6D_LEAN", os.path.join(VERIF, "lean"))
REPO = os.environ.get("VERIF_REPO", "/repo")
TOOL = os.path.join(HERE, "rs2lean6d.py")
JOBS = int(os.environ.get("RS2LEAN_SELFTEST_JOBS", "4"))
COMMITTED = os.path.join(LEAN, "JsonbModel", "Generated", "Translated6d.lean")

sys.path.insert(0, HERE)
import rs2lean  # noqa: E402
import rs2lean2  # noqa: E402
import rs2lean3  # noqa: E402
import rs2lean4  # noqa: E402
import rs2lean5a  # noqa: E402
import rs2lean6d  # noqa: E402
from rs2lean_selftest import reformat_variants, mutate  # noqa: E402

PARTS = {}          # the parts the root TranslatedAgreeJ.lean imports (J8, the bridge to phase 6b, is not one of them)
for _m in re.finditer(r"^import JsonbModel\.Proofs\.TranslatedAgreeJ(\d+)\s*$",
                      open(os.path.join(LEAN, "JsonbModel", "Proofs", "TranslatedAgreeJ.lean"), encoding="utf-8").read(), re.M):
    PARTS[int(_m.group(1))] = "TranslatedAgreeJ%s.lean" % _m.group(1)

P = "src/jsonpath/parser.rs"
PA = "src/jsonpath/path.rs"
K = "src/keypath.rs"
SCAN = [1]                  # check_escaped, raw_string, string
KEYP = [3]                  # key_path, key_paths, parse_key_paths
GRAM = [4]                  # bracket_wildcard .. inner_expr
REC = [5]                   # the recursive group .. parse_json_path
DKEY = [6]                  # Display: KeyPath, KeyPaths
DPATH = [7]                 # Display: Index .. JsonPath

# (id, file, old text, new text, which occurrence (0-based), agreement parts to check, theorem expected to fail)
MUTATIONS = [
    # the scanners
    ("ce-u-guard-4", P, "        if *i + 5 >= input.len() {", "        if *i + 4 >= input.len() {", 0, SCAN, "check_escaped_split"),
    ("ce-brace-advance-7", P, "            *i += UNICODE_LEN + 4;", "            *i += UNICODE_LEN + 3;", 0, SCAN, "check_escaped_split"),
    ("ce-brace-is-bracket", P, "        if input[*i + 2] == b'{' {", "        if input[*i + 2] == b'[' {", 0, SCAN, "check_escaped_split"),
    ("ce-plain-advance-1", P, "    } else {\n        *i += 2;\n    }\n    true", "    } else {\n        *i += 1;\n    }\n    true", 0, SCAN, "check_escaped_split"),
    ("rs-amp-not-a-delimiter", P, "b'\\r' | b'&' | b','", "b'\\r' | b','", 0, SCAN, "raw_loop1_step"),
    ("rs-empty-name-accepted", P, "    if i > 0 {\n        if escapes == 0 {", "    if i >= 0 {\n        if escapes == 0 {", 0, SCAN, "raw_string_agrees"),
    ("rs-escapes-not-counted", P, "            b'\\\\' => {\n                escapes += 1;\n", "            b'\\\\' => {\n", 0, SCAN, "raw_loop1_step"),
    ("rs-rest-from-0", P, "                return Ok((&input[i..], Cow::Borrowed(s)));", "                return Ok((&input[0..], Cow::Borrowed(s)));", 0, SCAN, "raw_string_agrees"),
    ("st-opening-apostrophe", P, "    if input.is_empty() || input[0] != b'\"' {", "    if input.is_empty() || input[0] != b'\\'' {", 0, SCAN, "string_agrees"),
    ("st-closing-quote-optional", P, "literal.\n    if i < input.len() {", "literal.\n    if i <= input.len() {", 0, SCAN, "string_agrees"),
    ("st-rest-keeps-quote", P, "                return Ok((&input[i + 1..], Cow::Borrowed(s)));", "                return Ok((&input[i..], Cow::Borrowed(s)));", 0, SCAN, "string_agrees"),
    ("st-scan-from-0", P, "    let mut i = 1;\n    let mut escapes = 0;", "    let mut i = 0;\n    let mut escapes = 0;", 0, SCAN, "string_agrees"),
    ("st-stops-at-apostrophe", P, "            b'\"' => {\n                break;", "            b'\\'' => {\n                break;", 0, SCAN, "string_loop1_step"),
    # key paths
    ("kp-quoted-is-name", K, "map(string, KeyPath::QuotedName)", "map(string, KeyPath::Name)", 0, KEYP, "key_path_agr"),
    ("kp-raw-before-string", K, "        map(string, KeyPath::QuotedName),\n        map(raw_string, KeyPath::Name),", "        map(raw_string, KeyPath::Name),\n        map(string, KeyPath::QuotedName),", 0, KEYP, "key_path_agr"),
    ("kps-separator-semicolon", K, "separated_list1(char(','),", "separated_list1(char(';'),", 0, KEYP, "key_paths_agr"),
    ("kps-opening-bracket", K, "            preceded(multispace0, char('{')),\n            separated_list1", "            preceded(multispace0, char('[')),\n            separated_list1", 0, KEYP, "key_paths_agr"),
    ("kps-no-trailing-space", K, "            terminated(char('}'), multispace0),\n        ),\n        map(", "            char('}'),\n        ),\n        map(", 0, KEYP, "key_paths_agr"),
    ("pkp-rest-test-inverted", K, "            if !rest.is_empty() {", "            if rest.is_empty() {", 0, KEYP, "parse_key_paths_agrees"),
    ("pkp-wrong-error", K, "Err(nom::Err::Error(_) | nom::Err::Failure(_)) => Err(Error::InvalidKeyPath),", "Err(nom::Err::Error(_) | nom::Err::Failure(_)) => Err(Error::InvalidJsonPath),", 0, KEYP, "parse_key_paths_agrees"),
    # the JSONPath grammar
    ("ix-last-case-sensitive", P, "                tuple((tag_no_case(\"last\"), multispace0, char('-'), multispace0)),", "                tuple((tag(\"last\"), multispace0, char('-'), multispace0)),", 0, GRAM, "index_agr"),
    ("ix-last-is-1", P, "map(tag_no_case(\"last\"), |_| Index::LastIndex(0)),", "map(tag_no_case(\"last\"), |_| Index::LastIndex(1)),", 0, GRAM, "index_agr"),
    ("ix-minus-reads-i32", P, "                tuple((tag_no_case(\"last\"), multispace0, char('-'), multispace0)),\n                i64,", "                tuple((tag_no_case(\"last\"), multispace0, char('-'), multispace0)),\n                i32,", 0, GRAM, None),
    ("ix-clamp-drops-min", P, ".clamp(i32::MIN as i64, i32::MAX as i64)", ".clamp(i32::MIN as i64 + 1, i32::MAX as i64)", 0, GRAM, None),
    ("ix-plus-negates", P, "                i32,\n            ),\n            Index::LastIndex,", "                i32,\n            ),\n            Index::Index,", 0, GRAM, "index_agr"),
    ("ai-slice-swapped", P, "|(s, e)| ArrayIndex::Slice((s, e))", "|(s, e)| ArrayIndex::Slice((e, s))", 0, GRAM, "array_index_agr"),
    ("ai-keyword-til", P, "delimited(multispace0, tag_no_case(\"to\"), multispace0),", "delimited(multispace0, tag_no_case(\"til\"), multispace0),", 0, GRAM, "array_index_agr"),
    ("ais-separator-semicolon", P, "separated_list1(char(','), delimited(multispace0, array_index, multispace0)),", "separated_list1(char(';'), delimited(multispace0, array_index, multispace0)),", 0, GRAM, "array_indices_agr"),
    ("ip-colon-is-dot-field", P, "map(colon_field, Path::ColonField),", "map(colon_field, Path::DotField),", 0, GRAM, "inner_path_agr"),
    ("ip-dot-wildcard-tag", P, "value(Path::DotWildcard, tag(\".*\")),", "value(Path::DotWildcard, tag(\"*\")),", 0, GRAM, "inner_path_agr"),
    ("cf-semicolon", P, "alt((preceded(char(':'), string), preceded(char(':'), raw_string)))", "alt((preceded(char(';'), string), preceded(char(':'), raw_string)))", 0, GRAM, "colon_field_agr"),
    ("of-raw-name", P, "        terminated(char('['), multispace0),\n        string,", "        terminated(char('['), multispace0),\n        raw_string,", 0, GRAM, "object_field_agr"),
    ("pp-root-is-at", P, "fn pre_path(input: &[u8]) -> IResult<&[u8], Path<'_>> {\n    alt((\n        value(Path::Root, char('$')),", "fn pre_path(input: &[u8]) -> IResult<&[u8], Path<'_>> {\n    alt((\n        value(Path::Root, char('@')),", 0, GRAM, "pre_path_agr"),
    ("ep-current-when-root", P, "cond(!root_predicate, value(Path::Current, char('@'))),", "cond(root_predicate, value(Path::Current, char('@'))),", 0, GRAM, "expr_paths_agr"),
    ("ep-first-path-last", P, "        |(pre_path, mut paths)| {\n            paths.insert(0, pre_path);\n            paths\n        },", "        |(pre_path, mut paths)| {\n            paths\n        },", 0, GRAM, "expr_paths_agr"),
    ("op-lte-is-lt", P, "value(BinaryOperator::Lte, tag(\"<=\")),", "value(BinaryOperator::Lt, tag(\"<=\")),", 0, GRAM, "op_agr"),
    ("op-lt-before-lte", P, "        value(BinaryOperator::Lte, tag(\"<=\")),\n        value(BinaryOperator::Lt, char('<')),", "        value(BinaryOperator::Lt, char('<')),\n        value(BinaryOperator::Lte, tag(\"<=\")),", 0, GRAM, "op_agr"),
    ("bo-star-is-divide", P, "value(BinaryArithmeticOperator::Multiply, char('*')),", "value(BinaryArithmeticOperator::Divide, char('*')),", 0, GRAM, "binary_arith_op_agr"),
    ("pv-null-keyword", P, "value(PathValue::Null, tag(\"null\")),", "value(PathValue::Null, tag(\"nil\")),", 0, GRAM, "path_value_agr"),
    ("pv-integer-before-fraction", P, "        map(terminated(u64, not(one_of(\".eE\"))), |v| {\n            PathValue::Number(Number::UInt64(v))\n        }),", "        map(u64, |v| {\n            PathValue::Number(Number::UInt64(v))\n        }),", 0, GRAM, "path_value_agr"),
    ("pv-true-is-false", P, "value(PathValue::Boolean(true), tag(\"true\")),", "value(PathValue::Boolean(false), tag(\"true\")),", 0, GRAM, "path_value_agr"),
    ("pv-float-before-integers", P, "        map(double, |v| PathValue::Number(Number::Float64(v))),\n        map(string, PathValue::String),", "        map(string, PathValue::String),\n        map(double, |v| PathValue::Number(Number::Float64(v))),", 0, GRAM, "path_value_agr"),
    # the recursive group and the entry point
    ("ea-comparison-operands-swapped", P, "            |(left, op, right)| Expr::BinaryOp {\n                op,\n                left: Box::new(left),\n                right: Box::new(right),", "            |(left, op, right)| Expr::BinaryOp {\n                op,\n                left: Box::new(right),\n                right: Box::new(left),", 0, REC, "expr_atom_agr"),
    ("ea-paren-is-bracket", P, "                terminated(char('('), multispace0),\n                |i| expr_or(i, root_predicate),", "                terminated(char('['), multispace0),\n                |i| expr_or(i, root_predicate),", 0, REC, "expr_atom_agr"),
    ("ea-unary-before-comparison", P, "                unary_arith_op,\n                delimited(multispace0, |i| inner_expr(i, root_predicate), multispace0),\n            )),", "                binary_arith_op,\n                delimited(multispace0, |i| inner_expr(i, root_predicate), multispace0),\n            )),", 0, REC, None),
    ("eand-single-ampersand", P, "separated_list1(delimited(multispace0, tag(\"&&\"), multispace0), |i| {", "separated_list1(delimited(multispace0, tag(\"&\"), multispace0), |i| {", 0, REC, "expr_and_agr"),
    ("eand-builds-or", P, "                    op: BinaryOperator::And,", "                    op: BinaryOperator::Or,", 0, REC, "expr_and_agr"),
    ("eor-first-twice", P, "            for right in exprs.iter().skip(1) {\n                expr = Expr::BinaryOp {\n                    op: BinaryOperator::Or,", "            for right in exprs.iter().skip(0) {\n                expr = Expr::BinaryOp {\n                    op: BinaryOperator::Or,", 0, REC, "expr_or_step_agr"),
    ("eor-right-nested", P, "                    op: BinaryOperator::Or,\n                    left: Box::new(expr),\n                    right: Box::new(right.clone()),", "                    op: BinaryOperator::Or,\n                    left: Box::new(right.clone()),\n                    right: Box::new(expr),", 0, REC, "expr_or_step_agr"),
    ("fe-root-predicate", P, "delimited(multispace0, |i| expr_or(i, false), multispace0),", "delimited(multispace0, |i| expr_or(i, true), multispace0),", 0, REC, "filter_expr_agr"),
    ("fe-no-question-mark", P, "delimited(char('?'), multispace0, char('(')),", "delimited(char('!'), multispace0, char('(')),", 0, REC, "filter_expr_agr"),
    ("pa-filter-is-arithmetic", P, "            Path::FilterExpr(Box::new(v))", "            Path::ArithmeticExpr(Box::new(v))", 0, REC, "path_agr"),
    ("ex-keyword", P, "        tag(\"exists\"),", "        tag(\"exist\"),", 0, REC, "exists_agr"),
    ("exp-current-is-root", P, "                value(Path::Root, char('$')),\n                value(Path::Current, char('@')),", "                value(Path::Root, char('$')),\n                value(Path::Root, char('@')),", 0, REC, "exists_paths_agr"),
    ("pr-not-root-predicate", P, "delimited(multispace0, |i| expr_or(i, true), multispace0),\n        |v| vec![Path::Predicate(Box::new(v))],", "delimited(multispace0, |i| expr_or(i, false), multispace0),\n        |v| vec![Path::Predicate(Box::new(v))],", 0, REC, "predicate_agr"),
    ("pr-wrapped-as-filter", P, "|v| vec![Path::Predicate(Box::new(v))],", "|v| vec![Path::FilterExpr(Box::new(v))],", 0, REC, "predicate_agr"),
    ("ps-pre-path-dropped", P, "            if let Some(pre_path) = opt_pre_path {\n                paths.insert(0, pre_path);\n            }\n", "", 0, REC, "paths_agr"),
    ("pop-paths-first", P, "    alt((predicate, paths))(input)", "    alt((paths, predicate))(input)", 0, REC, "predicate_or_paths_agr"),
    ("jp-no-leading-space", P, "        delimited(multispace0, predicate_or_paths, multispace0),\n        |paths| JsonPath { paths },", "        terminated(predicate_or_paths, multispace0),\n        |paths| JsonPath { paths },", 0, REC, "json_path_agr"),
    ("pjp-rest-test-inverted", P, "            if !rest.is_empty() {\n                return Err(Error::InvalidJsonPath);", "            if rest.is_empty() {\n                return Err(Error::InvalidJsonPath);", 0, REC, "parse_json_path_agrees"),
    # the printers
    ("dk-apostrophes", K, "                write!(f, \"\\\"{name}\\\"\")?;", "                write!(f, \"'{name}'\")?;", 0, DKEY, "key_path_fmt_agrees"),
    ("dk-separator-with-space", K, "                write!(f, \",\")?;", "                write!(f, \", \")?;", 0, DKEY, "key_paths_fmt_agrees"),
    ("dk-separator-before-first", K, "            if i > 0 {\n                write!(f, \",\")?;", "            if i >= 0 {\n                write!(f, \",\")?;", 0, DKEY, "key_paths_fmt_agrees"),
    ("dk-closing-bracket", K, "        write!(f, \"}}\")?;", "        write!(f, \"]\")?;", 0, DKEY, "key_paths_fmt_agrees"),
    ("di-plus-missing", PA, "                        write!(f, \"+{idx}\")?;", "                        write!(f, \"{idx}\")?;", 0, DPATH, "index_fmt_agrees"),
    ("di-double-minus", PA, "                    Ordering::Less => {\n                        write!(f, \"{idx}\")?;", "                    Ordering::Less => {\n                        write!(f, \"-{idx}\")?;", 0, DPATH, "index_fmt_agrees"),
    ("dai-no-spaces", PA, "                write!(f, \"{start} to {end}\")?;", "                write!(f, \"{start}to{end}\")?;", 0, DPATH, "array_index_fmt_agrees"),
    ("dai-swapped", PA, "                write!(f, \"{start} to {end}\")?;", "                write!(f, \"{end} to {start}\")?;", 0, DPATH, "array_index_fmt_agrees"),
    ("dp-object-field-unquoted", PA, "                write!(f, \"[\\\"{field}\\\"]\")?;", "                write!(f, \"[{field}]\")?;", 0, DPATH, "path_fmt_agrees"),
    ("dp-index-separator", PA, "                        write!(f, \", \")?;", "                        write!(f, \",\")?;", 0, DPATH, "path_fmt_agrees"),
    ("dp-colon-as-dot", PA, "                write!(f, \":{field}\")?;", "                write!(f, \".{field}\")?;", 0, DPATH, "path_fmt_agrees"),
    ("dp-predicate-as-filter", PA, "            Path::Predicate(expr) => {\n                write!(f, \"{expr}\")?;", "            Path::Predicate(expr) => {\n                write!(f, \"?({expr})\")?;", 0, DPATH, "path_fmt_agrees"),
    ("dv-true-prints-false", PA, "                if *v {\n                    write!(f, \"true\")", "                if *v {\n                    write!(f, \"false\")", 0, DPATH, "path_value_fmt_agrees"),
    ("dv-string-unquoted", PA, "                write!(f, \"\\\"{v}\\\"\")", "                write!(f, \"{v}\")", 0, DPATH, "path_value_fmt_agrees"),
    ("do-noteq-sql", PA, "                write!(f, \"!=\")", "                write!(f, \"<>\")", 0, DPATH, "binary_operator_fmt_agrees"),
    ("do-modulus-word", PA, "            BinaryArithmeticOperator::Modulus => \"%\",", "            BinaryArithmeticOperator::Modulus => \"mod\",", 0, DPATH, "binary_arith_operator_fmt_agrees"),
    ("de-never-parenthesised", PA, "                    if left_op == &BinaryOperator::And || left_op == &BinaryOperator::Or {", "                    if left_op == &BinaryOperator::And && left_op == &BinaryOperator::Or {", 0, DPATH, "expr_fmt_binop"),
    ("de-operator-no-spaces", PA, "                write!(f, \" {op} \")?;", "                write!(f, \"{op}\")?;", 0, DPATH, "expr_fmt_binop"),
    ("de-unary-postfix", PA, "                    write!(f, \"{}{}\", op, operand)?;", "                    write!(f, \"{}{}\", operand, op)?;", 0, DPATH, "expr_fmt_agrees"),
    ("de-exists-space", PA, "                    f.write_str(\"exists(\")?;", "                    f.write_str(\"exists (\")?;", 0, DPATH, "expr_fmt_agrees"),
    ("de-right-operand-twice", PA, "                        write!(f, \"({right})\")?;", "                        write!(f, \"({left})\")?;", 0, DPATH, "expr_fmt_binop"),
]

# harmless re-spellings: different generated text, same logic -> the proofs must still go through
RESPELLINGS = [
    ("ce-guard-flipped", P, "    if *i + 1 >= input.len() {", "    if input.len() <= *i + 1 {", 0, SCAN),
    ("ce-advance-commuted", P, "            *i += UNICODE_LEN + 4;", "            *i += 4 + UNICODE_LEN;", 0, SCAN),
    ("ce-explicit-sum", P, "    } else {\n        *i += 2;\n    }\n    true", "    } else {\n        *i = *i + 2;\n    }\n    true", 0, SCAN),
    ("rs-delimiters-reordered", P, "            b' ' | b'\\t' | b'\\n'", "            b'\\n' | b'\\t' | b' '", 0, SCAN),
    ("rs-test-flipped", P, "    if i > 0 {\n        if escapes == 0 {", "    if 0 < i {\n        if escapes == 0 {", 0, SCAN),
    ("rs-escapes-explicit-sum", P, "            b'\\\\' => {\n                escapes += 1;\n", "            b'\\\\' => {\n                escapes = 1 + escapes;\n", 0, SCAN),
    ("st-len-regrouped", P, "            let len = i - 1 - escapes;", "            let len = i - (1 + escapes);", 0, SCAN),
    ("st-closing-test-flipped", P, "literal.\n    if i < input.len() {", "literal.\n    if input.len() > i {", 0, SCAN),
    ("pkp-direct-struct", K, "            let key_paths = KeyPaths { paths };\n            Ok(key_paths)", "            Ok(KeyPaths { paths })", 0, KEYP),
    ("ix-closure-parameter-named", P, "map(tag_no_case(\"last\"), |_| Index::LastIndex(0)),", "map(tag_no_case(\"last\"), |_x| Index::LastIndex(0)),", 0, GRAM),
    ("ep-closure-renamed", P, "        |(pre_path, mut paths)| {\n            paths.insert(0, pre_path);\n            paths\n        },", "        |(first, mut rest)| {\n            rest.insert(0, first);\n            rest\n        },", 0, GRAM),
    ("eand-closure-renamed", P, "            let mut expr = exprs[0].clone();\n            for right in exprs.iter().skip(1) {\n                expr = Expr::BinaryOp {\n                    op: BinaryOperator::And,\n                    left: Box::new(expr),\n                    right: Box::new(right.clone()),\n                };\n            }\n            expr", "            let mut acc = exprs[0].clone();\n            for r in exprs.iter().skip(1) {\n                acc = Expr::BinaryOp {\n                    left: Box::new(acc),\n                    op: BinaryOperator::And,\n                    right: Box::new(r.clone()),\n                };\n            }\n            acc", 0, REC),
    ("di-arms-reordered", PA, "                    Ordering::Greater => {\n                        write!(f, \"+{idx}\")?;\n                    }\n                    Ordering::Less => {\n                        write!(f, \"{idx}\")?;\n                    }", "                    Ordering::Less => {\n                        write!(f, \"{idx}\")?;\n                    }\n                    Ordering::Greater => {\n                        write!(f, \"+{idx}\")?;\n                    }", 0, DPATH),
    ("dk-write-str", K, "        write!(f, \"{{\")?;", "        f.write_str(\"{\")?;", 0, DKEY),
    ("dp-object-field-three-writes", PA, "                write!(f, \"[\\\"{field}\\\"]\")?;", "                write!(f, \"[\\\"\")?;\n                write!(f, \"{field}\")?;\n                write!(f, \"\\\"]\")?;", 0, DPATH),
    ("dv-bool-test-negated", PA, "                if *v {\n                    write!(f, \"true\")\n                } else {\n                    write!(f, \"false\")\n                }", "                if !*v {\n                    write!(f, \"false\")\n                } else {\n                    write!(f, \"true\")\n                }", 0, DPATH),
    ("de-positional-to-named", PA, "                    write!(f, \"{}{}\", op, operand)?;", "                    write!(f, \"{op}{operand}\")?;", 0, DPATH),
]

# changes that leave the subset / remove a target: the tool must say so and keep the committed block
RETENTION = [
    ("out-of-subset-wrapping-neg", P, "|v| Index::LastIndex(v.saturating_neg()", "|v| Index::LastIndex(v.wrapping_neg()", 0,
     "src/jsonpath/parser.rs::index", "unsupported"),
    ("out-of-subset-unknown-combinator", K, "        map(i32, KeyPath::Index),", "        map(recognize(i32), |_| KeyPath::Index(0)),", 0,
     "src/keypath.rs::key_path", "unsupported"),
    ("renamed-away", P, "fn object_field(input: &[u8])", "fn object_field2(input: &[u8])", 0,
     "src/jsonpath/parser.rs::object_field", "missing"),
    ("out-of-subset-format-spec", K, "                write!(f, \"{idx}\")?;", "                write!(f, \"{idx:>3}\")?;", 0,
     "src/keypath.rs::KeyPath::fmt", "unsupported"),
    ("out-of-subset-unbounded-loop", P, "    let mut i = 0;\n    let mut escapes = 0;\n    while i < input.len() {", "    let mut i = 0;\n    let mut escapes = 0;\n    while i != input.len() {", 0,
     "src/jsonpath/parser.rs::raw_string", "unsupported"),
    ("streaming-combinators", P, "    character::complete::{char, i32, i64, multispace0, one_of, u64},", "    character::streaming::{char, i32, i64, multispace0, one_of, u64},", 0,
     "src/jsonpath/parser.rs::index", "unsupported"),
    ("parse-string-signature-changed", "src/util.rs", "pub fn parse_string(mut data: &[u8], len: usize, idx: &mut usize) -> Result<String, Error> {", "pub fn parse_string(mut data: &[u8], len: usize, idx: &mut usize, _x: u8) -> Result<String, Error> {", 0,
     "src/jsonpath/parser.rs::raw_string", "unsupported"),
]


def run_tool(src_root, out_path):
    """-> (generated text, status dict)"""
    env = dict(os.environ, VERIF_REPO=src_root, RS2LEAN6D_OUT=out_path, RS2LEAN6D_PREV=COMMITTED)
    if os.path.exists(out_path):
        os.remove(out_path)
    r = subprocess.run([sys.executable, TOOL], env=env, capture_output=True, text=True)
    if r.returncode != 0:
        raise RuntimeError("rs2lean6d.py crashed: " + r.stderr[-2000:])
    status = json.loads(r.stdout.strip().splitlines()[-1])
    r2 = subprocess.run([sys.executable, TOOL, "--stdout"], env=env, capture_output=True, text=True)
    if r2.returncode != 0:
        raise RuntimeError("rs2lean6d.py --stdout crashed: " + r2.stderr[-2000:])
    text = open(out_path, encoding="utf-8").read()
    if text != r2.stdout:
        raise RuntimeError("--stdout and the written file differ")
    return text, status


def scratch_lean(scratch, generated, parts, name):
    """one self-contained Lean file: generated definitions + the agreement parts"""
    imports, bodies = [], []
    texts = [generated] + [open(os.path.join(LEAN, "JsonbModel", "Proofs", PARTS[p]), encoding="utf-8").read() for p in parts]
    for t in texts:
        body = []
        for line in t.splitlines():
            m = re.match(r"import\s+(\S+)", line)
            if m:
                mod = m.group(1)
                if mod == "JsonbModel.Generated.Translated6d" or re.fullmatch(r"JsonbModel\.Proofs\.TranslatedAgreeJ\d*", mod):
                    continue
                if mod not in imports:
                    imports.append(mod)
            else:
                body.append(line)
        bodies.append("\n".join(body))
    path = os.path.join(scratch, name + ".lean")
    with open(path, "w", encoding="utf-8") as f:
        f.write("\n".join("import " + m for m in imports) + "\n\n" + "\n\n".join(bodies) + "\n")
    return path


def lean_check(path):
    """-> (ok, first failing theorem or None, seconds)"""
    t0 = time.time()
    r = subprocess.run(["lake", "env", "lean", path], cwd=LEAN, capture_output=True, text=True)
    out = r.stdout + r.stderr
    dt = time.time() - t0
    errs = [int(m.group(1)) for m in re.finditer(r"^[^\n:]+:(\d+):\d+: error", out, re.M)]
    if r.returncode == 0 and not errs:
        return True, None, dt
    first = None
    if errs:
        lines = open(path, encoding="utf-8").read().splitlines()
        for ln in range(min(errs) - 1, -1, -1):
            m = re.match(r"\s*(?:theorem|def|instance)\s+(\S+)", lines[ln] if ln < len(lines) else "")
            if m:
                first = m.group(1)
                break
    return False, first or "(lean failed: %s)" % (out.strip().splitlines() or ["?"])[-1][:80], dt


def all_parts(parts):
    """a part needs the parts before it that it imports"""
    need = set()
    for p in parts:
        need.add(p)
        text = open(os.path.join(LEAN, "JsonbModel", "Proofs", PARTS[p]), encoding="utf-8").read()
        for m in re.finditer(r"^import JsonbModel\.Proofs\.TranslatedAgreeJ(\d+)", text, re.M):
            need |= set(all_parts([int(m.group(1))]))
    return sorted(need)


def main():
    only = [a for a in sys.argv[1:] if not a.startswith("-")]
    t_start = time.time()
    tmp = tempfile.mkdtemp(prefix="rs2lean6d_selftest_src_", dir="/tmp")
    scratch = tempfile.mkdtemp(prefix="rs2lean6d_selftest_lean_", dir="/tmp")
    failures, rows = [], []
    have_parts = sorted(PARTS)
    try:
        shutil.copytree(os.path.join(REPO, "src"), os.path.join(tmp, "src"))
        out = os.path.join(scratch, "Translated6d.out.lean")
        base, status = run_tool(tmp, out)
        bad = {k: v for k, v in status["functions"].items() if v != "translated"}
        if bad:
            failures.append("baseline: not everything translated: %s" % bad)
        committed = open(COMMITTED, encoding="utf-8").read()
        rows.append(("baseline", "generated == committed Translated6d.lean", "yes" if committed == base else "NO", ""))
        if committed != base:
            failures.append("baseline: generated text differs from the committed Generated/Translated6d.lean")

        # (a) formatting robustness
        files = sorted(set(f[0] for f in rs2lean6d.FUNCS6) | set(f for f, _ in rs2lean6d.TYPES6) | {"src/util.rs"}
                       | set(f[0] for f in rs2lean5a.FUNCS5A) | set(f for f, _, _ in rs2lean5a.TYPES5A)
                       | set(f[0] for f in rs2lean4.FUNCS4) | {"src/builder.rs", "src/iterator.rs", "src/jentry.rs"}
                       | set(f[0] for f in rs2lean3.FUNCS3) | set(f for f, _, _ in rs2lean3.TYPES3)
                       | set(f for f, _, _, _, _ in rs2lean2.FUNCS2) | set(f for f, _, _ in rs2lean2.TYPES2)
                       | set(f for f, _, _, _ in rs2lean.FUNCS) | set(f for f, _, _ in rs2lean.TYPES)
                       | {"src/constants.rs", "src/error.rs"})
        originals = {f: open(os.path.join(tmp, f), encoding="utf-8").read() for f in files}
        if not only:
            for vi in range(3):
                name = None
                for f in files:
                    name, text = reformat_variants(originals[f])[vi]
                    open(os.path.join(tmp, f), "w", encoding="utf-8", newline="").write(text)
                text, st = run_tool(tmp, out)
                same = text == base
                rows.append(("format", name, "identical" if same else "DIFFERENT", ""))
                if not same:
                    failures.append("format variant %s changed the output" % name)
                for f in files:
                    open(os.path.join(tmp, f), "w", encoding="utf-8").write(originals[f])

            # (a') retention of committed blocks
            for mid, file, old, new, occ, key, want in RETENTION:
                saved = mutate(tmp, file, old, new, occ)
                try:
                    text, st = run_tool(tmp, out)
                finally:
                    open(os.path.join(tmp, file), "w", encoding="utf-8").write(saved)
                got = st["functions"].get(key, "?")
                good = got.startswith(want) and text == base and st["ok"] is False
                rows.append(("retention", mid, ("%s, committed block kept" % want) if good else "WRONG: %s" % got[:70], ""))
                if not good:
                    failures.append("retention %s: status %r, text identical: %s" % (mid, got, text == base))

        jobs = []     # (kind, id, path, expected_ok, expected_theorem)
        if not only:
            jobs.append(("baseline", "unmutated", scratch_lean(scratch, base, have_parts, "base"), True, None))
        for kind, table in (("mutation", MUTATIONS), ("respelling", RESPELLINGS)):
            for row in table:
                mid, file, old, new, occ, parts = row[:6]
                if only and mid not in only:
                    continue
                expect = row[6] if kind == "mutation" else None
                if any(p not in have_parts for p in parts):
                    rows.append((kind, mid, "SKIPPED (part missing)", ""))
                    continue
                saved = mutate(tmp, file, old, new, occ)
                try:
                    text, st = run_tool(tmp, out)
                finally:
                    open(os.path.join(tmp, file), "w", encoding="utf-8").write(saved)
                nb = {k: v for k, v in st["functions"].items() if v != "translated"}
                if nb:
                    if kind == "mutation" and expect is None:
                        rows.append((kind, mid, "leaves the subset (reported, block kept)", ""))
                        continue
                    rows.append((kind, mid, "UNSUPPORTED", str(nb)[:100]))
                    failures.append("%s %s left the subset: %s" % (kind, mid, nb))
                    continue
                if text == base:
                    if kind == "respelling":
                        rows.append((kind, mid, "generated text identical (nothing to re-prove)", ""))
                        continue
                    rows.append((kind, mid, "NO CHANGE in generated text", ""))
                    failures.append("%s %s did not change the generated text" % (kind, mid))
                    continue
                jobs.append((kind, mid, scratch_lean(scratch, text, all_parts(parts), mid), kind == "respelling", expect))

        with concurrent.futures.ThreadPoolExecutor(max_workers=JOBS) as ex:
            results = list(ex.map(lambda j: lean_check(j[2]), jobs))
        for (kind, mid, path, exp_ok, exp_thm), (ok, thm, dt) in zip(jobs, results):
            if exp_ok:
                verdict = "proofs PASS" if ok else "proofs FAIL at %s" % thm
                if not ok:
                    failures.append("%s %s: expected the agreement proofs to pass, failed at %s" % (kind, mid, thm))
            else:
                verdict = ("proof FAILS at %s" % thm) if not ok else "NOT DETECTED (proofs pass)"
                if ok:
                    failures.append("mutation %s was not detected" % mid)
                elif exp_thm and thm != exp_thm:
                    verdict += " (expected %s)" % exp_thm
            rows.append((kind, mid, verdict, "%.1fs" % dt))
    finally:
        shutil.rmtree(tmp, ignore_errors=True)
        if not os.environ.get("RS2LEAN6D_KEEP"):
            shutil.rmtree(scratch, ignore_errors=True)

    w1 = max(len(r[0]) for r in rows)
    w2 = max(len(r[1]) for r in rows)
    w3 = max(len(r[2]) for r in rows)
    print("%-*s  %-*s  %-*s  %s" % (w1, "kind", w2, "case", w3, "result", "time"))
    for r in rows:
        print("%-*s  %-*s  %-*s  %s" % (w1, r[0], w2, r[1], w3, r[2], r[3]))
    n_mut = sum(1 for r in rows if r[0] == "mutation" and not r[2].startswith("SKIPPED"))
    n_det = sum(1 for r in rows if r[0] == "mutation" and r[2].startswith("proof FAILS"))
    print("mutations detected: %d / %d; wall %.0fs" % (n_det, n_mut, time.time() - t_start))
    if failures:
        print("SELFTEST FAILED:")
        for f in failures:
            print("  - " + f)
        return 1
    print("SELFTEST OK")
    return 0


if __name__ == "__main__":
    sys.exit(main())
