#!/usr/bin/env python3
"""rs2lean: translate a curated list of small pure Rust functions of /repo/src into Lean 4
(lean/JsonbModel/Generated/Translated.lean).  The semantics of every primitive is in the
hand-written lean/JsonbModel/RustPrelude.lean; this tool only maps syntax.  Anything outside
the supported subset makes the function `unsupported` (its previously generated block is kept).
See tools/RS2LEAN.md.  Python 3 stdlib only.  Prints one JSON status line last."""
import json, os, re, sys

HERE = os.path.dirname(os.path.abspath(__file__))
REPO = os.environ.get("VERIF_REPO", "/repo")
OUT = os.environ.get("RS2LEAN_OUT", os.path.normpath(os.path.join(HERE, "..", "lean", "JsonbModel", "Generated", "Translated.lean")))
PREV = os.environ.get("RS2LEAN_PREV", OUT)      # where retained blocks are read from


class Unsupported(Exception):
    pass


class NeedType(Unsupported):
    pass


# ----------------------------------------------------------------------------- tokenizer

PUNCT3 = ["..=", "...", "<<=", ">>="]
PUNCT2 = ["::", "->", "=>", "==", "!=", "<=", ">=", "&&", "||", "+=", "-=", "*=", "/=", "%=", "^=",
          "&=", "|=", "<<", ">>", ".."]
INT_SUFFIXES = ["i8", "i16", "i32", "i64", "i128", "isize", "u8", "u16", "u32", "u64", "u128", "usize"]


class Tok:
    __slots__ = ("k", "v", "pos", "extra", "end")

    def __init__(self, k, v, pos, extra=None):
        self.k, self.v, self.pos, self.extra, self.end = k, v, pos, extra, None

    def __repr__(self):
        return "%s:%r" % (self.k, self.v)


def tokenize(src):
    toks = []
    i, n = 0, len(src)
    while i < n:
        if toks and toks[-1].end is None:
            toks[-1].end = i            # source span of the previous token (used by the self-test)
        c = src[i]
        if c.isspace():
            i += 1
            continue
        if src.startswith("//", i):
            j = src.find("\n", i)
            i = n if j < 0 else j
            continue
        if src.startswith("/*", i):
            depth, i = 1, i + 2
            while i < n and depth:
                if src.startswith("/*", i):
                    depth += 1; i += 2
                elif src.startswith("*/", i):
                    depth -= 1; i += 2
                else:
                    i += 1
            continue
        # raw strings / byte strings / byte chars
        m = re.match(r'b?r(#*)"', src[i:])
        if m:
            hashes = m.group(1)
            end = src.find('"' + hashes, i + len(m.group(0)))
            if end < 0:
                raise Unsupported("unterminated raw string")
            toks.append(Tok("str", src[i + len(m.group(0)):end], i))
            i = end + 1 + len(hashes)
            continue
        if c == '"' or (c == "b" and i + 1 < n and src[i + 1] == '"'):
            j = i + (2 if c == "b" else 1)
            buf = []
            while j < n and src[j] != '"':
                if src[j] == "\\":
                    buf.append(src[j:j + 2]); j += 2
                else:
                    buf.append(src[j]); j += 1
            toks.append(Tok("bstr" if c == "b" else "str", "".join(buf), i))
            i = j + 1
            continue
        if c == "b" and i + 1 < n and src[i + 1] == "'":
            m = re.match(r"b'(\\x[0-9a-fA-F]{2}|\\.|[^\\'])'", src[i:])
            if not m:
                raise Unsupported("bad byte literal")
            toks.append(Tok("byte", m.group(1), i))
            i += len(m.group(0))
            continue
        if c == "'":
            m = re.match(r"'(\\x[0-9a-fA-F]{2}|\\u\{[0-9a-fA-F_]+\}|\\.|[^\\'])'", src[i:])
            if m:
                toks.append(Tok("char", m.group(1), i))
                i += len(m.group(0))
                continue
            m = re.match(r"'[A-Za-z_][A-Za-z0-9_]*", src[i:])
            if m:
                toks.append(Tok("life", m.group(0), i))
                i += len(m.group(0))
                continue
            raise Unsupported("stray quote")
        if c.isdigit():
            m = re.match(r"0x[0-9a-fA-F_]+|0o[0-7_]+|0b[01_]+|[0-9][0-9_]*", src[i:])
            text = m.group(0)
            j = i + len(text)
            isfloat = False
            if not text.startswith(("0x", "0o", "0b")):
                m2 = re.match(r"\.[0-9][0-9_]*", src[j:])
                if m2:
                    isfloat = True; j += len(m2.group(0))
                elif src.startswith(".", j) and not src.startswith("..", j) and not re.match(r"\.[A-Za-z_]", src[j:]):
                    isfloat = True; j += 1
                m3 = re.match(r"[eE][+-]?[0-9_]+", src[j:])
                if m3:
                    isfloat = True; j += len(m3.group(0))
            suffix = None
            m4 = re.match(r"(i8|i16|i32|i64|i128|isize|u8|u16|u32|u64|u128|usize|f32|f64)\b", src[j:])
            if m4:
                suffix = m4.group(1); j += len(suffix)
                if suffix in ("f32", "f64"):
                    isfloat = True
            if isfloat:
                toks.append(Tok("float", src[i:j], i))
            else:
                clean = text.replace("_", "")
                val = int(clean[2:], {"0x": 16, "0o": 8, "0b": 2}[clean[:2]]) if clean[:2] in ("0x", "0o", "0b") else int(clean, 10)
                toks.append(Tok("num", val, i, suffix))
            i = j
            continue
        if c.isalpha() or c == "_":
            m = re.match(r"[A-Za-z_][A-Za-z0-9_]*", src[i:])
            toks.append(Tok("id", m.group(0), i))
            i += len(m.group(0))
            continue
        for p in PUNCT3:
            if src.startswith(p, i):
                toks.append(Tok("p", p, i)); i += 3
                break
        else:
            for p in PUNCT2:
                if src.startswith(p, i):
                    toks.append(Tok("p", p, i)); i += 2
                    break
            else:
                toks.append(Tok("p", c, i)); i += 1
    if toks and toks[-1].end is None:
        toks[-1].end = n
    toks.append(Tok("eof", None, n))
    return toks


# ----------------------------------------------------------------------------- AST

class N:
    """generic AST node: N('kind', field=...)"""

    def __init__(self, kind, **kw):
        self.kind = kind
        self.__dict__.update(kw)

    def __repr__(self):
        return "N(%s, %s)" % (self.kind, {k: v for k, v in self.__dict__.items() if k != "kind"})


OPEN = {"(": ")", "[": "]", "{": "}"}


class Parser:
    def __init__(self, toks, i=0):
        self.t, self.i = toks, i

    # -- token helpers
    def peek(self, o=0):
        return self.t[min(self.i + o, len(self.t) - 1)]

    def isp(self, v, o=0):
        t = self.peek(o)
        return t.k == "p" and t.v == v

    def isid(self, v=None, o=0):
        t = self.peek(o)
        return t.k == "id" and (v is None or t.v == v)

    def next(self):
        t = self.t[self.i]
        self.i += 1
        return t

    def eatp(self, v):
        if self.isp(v):
            self.i += 1
            return True
        return False

    def eatid(self, v):
        if self.isid(v):
            self.i += 1
            return True
        return False

    def expectp(self, v):
        if not self.eatp(v):
            raise Unsupported("parse: expected `%s`, found `%s`" % (v, self.peek().v))

    def ident(self):
        t = self.next()
        if t.k != "id":
            raise Unsupported("parse: expected identifier, found `%s`" % (t.v,))
        return t.v

    def skip_balanced(self):
        """at an opening bracket: skip to just after its matching close"""
        depth = 0
        while True:
            t = self.next()
            if t.k == "eof":
                raise Unsupported("parse: unbalanced brackets")
            if t.k == "p" and t.v in OPEN:
                depth += 1
            elif t.k == "p" and t.v in (")", "]", "}"):
                depth -= 1
                if depth == 0:
                    return

    def skip_attrs(self):
        while self.isp("#"):
            self.next()
            self.eatp("!")
            if not self.isp("["):
                raise Unsupported("parse: bad attribute")
            self.skip_balanced()

    def skip_generics(self):
        """at `<`: skip a generic parameter/argument list, return the token slice inside"""
        start = self.i + 1
        depth = 0
        while True:
            t = self.next()
            if t.k == "eof":
                raise Unsupported("parse: unbalanced <>")
            if t.k == "p" and t.v == "<":
                depth += 1
            elif t.k == "p" and t.v == "<<":
                depth += 2
            elif t.k == "p" and t.v in (">", "->", "=>", ">=", ">>", ">>="):
                if t.v == ">":
                    depth -= 1
                elif t.v == ">>":
                    depth -= 2
                if depth <= 0:
                    return self.t[start:self.i - 1]
            elif t.k == "p" and t.v in OPEN:
                self.i -= 1
                self.skip_balanced()

    # -- types
    def parse_type(self):
        if self.eatp("&") or self.eatp("&&"):
            if self.peek().k == "life":
                self.next()
            self.eatid("mut")
            return self.parse_type()          # references are erased
        if self.eatp("("):
            items = []
            while not self.isp(")"):
                items.append(self.parse_type())
                if not self.eatp(","):
                    break
            self.expectp(")")
            if not items:
                return ("unit",)
            return ("tuple", tuple(items))
        if self.eatp("["):
            el = self.parse_type()
            if self.eatp(";"):
                t = self.next()
                if t.k != "num":
                    raise Unsupported("array length is not a literal")
                self.expectp("]")
                return ("array", el, t.v)
            self.expectp("]")
            return ("slice", el)
        if self.eatp("!"):
            return ("never",)
        if self.isid("impl") or self.isid("dyn") or self.isid("fn"):
            raise Unsupported("type `%s ...` not in the subset" % self.peek().v)
        segs = [self.ident()]
        args = []
        while True:
            if self.isp("<"):
                args = self.parse_generic_args()
            if self.isp("::") and self.peek(1).k == "id":
                self.next()
                segs.append(self.ident())
                continue
            break
        name = segs[-1]
        if name in INT_SUFFIXES:
            return ("int", name)
        if name == "bool":
            return ("bool",)
        if name == "f64":
            return ("f64",)
        if name == "Ordering":
            return ("ordering",)
        if name == "Option" and len(args) == 1:
            return ("opt", args[0])
        if name == "Result" and len(args) >= 1:
            return ("res", args[0])
        if name == "Vec" and len(args) == 1:
            return ("vec", args[0])
        if name in ("str", "String", "char", "f32"):
            return ("other", name)
        return ("named", name)

    def parse_generic_args(self):
        self.expectp("<")
        args = []
        while True:
            if self.isp(">") or self.isp(">>"):
                break
            if self.peek().k == "life":
                self.next()
            else:
                args.append(self.parse_type())
            if not self.eatp(","):
                break
        if self.isp(">>"):
            self.t[self.i] = Tok("p", ">", self.peek().pos)     # split `>>`
        else:
            self.expectp(">")
        return args

    # -- patterns
    def parse_pattern(self):
        self.eatp("|")
        alts = [self.parse_pattern1()]
        while self.eatp("|"):
            alts.append(self.parse_pattern1())
        return alts[0] if len(alts) == 1 else N("p_or", alts=alts)

    def parse_pattern1(self):
        if self.eatp("&") or self.eatp("&&"):
            self.eatid("mut")
            return self.parse_pattern1()
        if self.isid("_"):
            self.next()
            return N("p_wild")
        if self.eatp("("):
            items = []
            while not self.isp(")"):
                items.append(self.parse_pattern())
                if not self.eatp(","):
                    break
            self.expectp(")")
            return items[0] if len(items) == 1 else N("p_tuple", items=items)
        if self.isid("ref"):
            self.next()
        if self.isid("mut"):
            self.next()
        t = self.peek()
        if t.k in ("num", "byte") or (t.k == "p" and t.v == "-"):
            lo = self.parse_pat_lit()
            if self.eatp("..="):
                hi = self.parse_pat_lit()
                return N("p_range", lo=lo, hi=hi)
            return N("p_lit", lit=lo)
        if t.k == "id":
            segs = [self.ident()]
            while self.isp("::"):
                self.next()
                if self.isp("<"):
                    self.skip_generics()
                    continue
                segs.append(self.ident())
            if self.eatp("("):
                items = []
                while not self.isp(")"):
                    items.append(self.parse_pattern())
                    if not self.eatp(","):
                        break
                self.expectp(")")
                return N("p_ctor", path=segs, args=items)
            if self.isp("{"):
                raise Unsupported("struct pattern not in the subset")
            if len(segs) == 1 and self.eatp("@"):
                sub = self.parse_pattern1()
                return N("p_bind", name=segs[0], sub=sub)
            if self.isp("..="):
                self.next()
                hi = self.parse_pat_lit()
                return N("p_range", lo=N("path", segs=segs), hi=hi)
            return N("p_path", path=segs)
        raise Unsupported("pattern starting with `%s` not in the subset" % (t.v,))

    def parse_pat_lit(self):
        neg = self.eatp("-")
        t = self.next()
        if t.k == "num":
            return N("int", value=-t.v if neg else t.v, suffix=t.extra)
        if t.k == "byte" and not neg:
            return N("int", value=byte_value(t.v), suffix="u8")
        if t.k == "id" and not neg:
            segs = [t.v]
            while self.eatp("::"):
                segs.append(self.ident())
            return N("path", segs=segs)
        raise Unsupported("pattern literal `%s` not in the subset" % (t.v,))

    # -- expressions
    BIN = [
        (["||"], "lor"), (["&&"], "land"),
        (["==", "!=", "<", ">", "<=", ">="], "cmp"),
        (["|"], "bitor"), (["^"], "bitxor"), (["&"], "bitand"),
        (["<<", ">>"], "shift"), (["+", "-"], "add"), (["*", "/", "%"], "mul"),
    ]

    def parse_expr(self, ns=False):
        lhs = self.parse_range(ns)
        t = self.peek()
        if t.k == "p" and t.v in ("=", "+=", "-=", "*=", "/=", "%=", "^=", "&=", "|=", "<<=", ">>="):
            self.next()
            rhs = self.parse_expr(ns)
            return N("assign", op=t.v, lhs=lhs, rhs=rhs)
        return lhs

    def range_end_follows(self, ns):
        t = self.peek()
        if t.k == "eof":
            return False
        if t.k == "p" and t.v in (")", "]", "}", ",", ";", "=>"):
            return False
        if t.k == "p" and t.v == "{" and ns:
            return False
        return True

    def parse_range(self, ns):
        if self.isp("..") or self.isp("..="):
            op = self.next().v
            hi = self.parse_bin(0, ns) if self.range_end_follows(ns) else None
            return N("range", lo=None, hi=hi, incl=(op == "..="))
        lo = self.parse_bin(0, ns)
        if self.isp("..") or self.isp("..="):
            op = self.next().v
            hi = self.parse_bin(0, ns) if self.range_end_follows(ns) else None
            return N("range", lo=lo, hi=hi, incl=(op == "..="))
        return lo

    def parse_bin(self, level, ns):
        if level == len(self.BIN):
            return self.parse_cast(ns)
        ops, _ = self.BIN[level]
        lhs = self.parse_bin(level + 1, ns)
        while True:
            t = self.peek()
            if t.k == "p" and t.v in ops:
                self.next()
                rhs = self.parse_bin(level + 1, ns)
                lhs = N("bin", op=t.v, l=lhs, r=rhs)
                if self.BIN[level][1] == "cmp":
                    break
            else:
                break
        return lhs

    def parse_cast(self, ns):
        e = self.parse_unary(ns)
        while self.isid("as"):
            self.next()
            ty = self.parse_type()
            e = N("cast", e=e, ty=ty)
        return e

    def parse_unary(self, ns):
        t = self.peek()
        if t.k == "p" and t.v in ("-", "!", "*"):
            self.next()
            return N("un", op=t.v, e=self.parse_unary(ns))
        if t.k == "p" and t.v in ("&", "&&"):
            self.next()
            if self.isid("mut"):
                self.next()
                return N("refmut", e=self.parse_unary(ns))
            return N("ref", e=self.parse_unary(ns))
        return self.parse_postfix(ns)

    def parse_args(self):
        self.expectp("(")
        args = []
        while not self.isp(")"):
            args.append(self.parse_expr())
            if not self.eatp(","):
                break
        self.expectp(")")
        return args

    def parse_postfix(self, ns):
        e = self.parse_primary(ns)
        while True:
            if self.isp("?"):
                self.next()
                e = N("try", e=e)
            elif self.isp(".") and self.peek(1).k == "id":
                self.next()
                name = self.ident()
                if self.isp("::"):
                    self.next()
                    self.skip_generics()
                if self.isp("("):
                    e = N("mcall", recv=e, name=name, args=self.parse_args())
                else:
                    e = N("field", e=e, name=name)
            elif self.isp(".") and self.peek(1).k == "num":
                self.next()
                e = N("tfield", e=e, idx=self.next().v)
            elif self.isp("["):
                self.next()
                idx = self.parse_expr()
                self.expectp("]")
                e = N("index", e=e, idx=idx)
            elif self.isp("("):
                e = N("call", f=e, args=self.parse_args())
            else:
                return e

    def parse_block(self):
        self.expectp("{")
        stmts, tail = [], None
        while not self.isp("}"):
            self.skip_attrs()
            if self.eatp(";"):
                continue
            if self.isid("let"):
                self.next()
                pat = self.parse_pattern()
                ty = None
                if self.eatp(":"):
                    ty = self.parse_type()
                init = None
                if self.eatp("="):
                    init = self.parse_expr()
                if self.isid("else"):
                    raise Unsupported("let-else not in the subset")
                self.expectp(";")
                stmts.append(N("let", pat=pat, ty=ty, init=init))
                continue
            if self.peek().k == "id" and self.peek().v in ("fn", "const", "static", "use", "struct", "enum", "impl", "type", "mod", "trait"):
                raise Unsupported("item inside a function body not in the subset")
            t = self.peek()
            blocklike = (t.k == "id" and t.v in ("if", "match", "for", "while", "loop", "unsafe")) or (t.k == "p" and t.v == "{")
            if blocklike:
                e = self.parse_primary(False)
                if self.isp(".") or self.isp("?"):
                    raise Unsupported("postfix operator on a block-like statement not in the subset")
            else:
                e = self.parse_expr()
            if self.eatp(";"):
                stmts.append(N("expr", e=e, semi=True))
            elif self.isp("}"):
                tail = e
            elif blocklike:
                stmts.append(N("expr", e=e, semi=False))
            else:
                raise Unsupported("parse: expected `;` or `}`, found `%s`" % (self.peek().v,))
        self.expectp("}")
        return N("block", stmts=stmts, tail=tail)

    def parse_if(self):
        # `if` already consumed
        if self.isid("let"):
            self.next()
            pat = self.parse_pattern()
            self.expectp("=")
            scrut = self.parse_expr(ns=True)
            if self.isp("&&"):
                raise Unsupported("let chains not in the subset")
            then = self.parse_block()
            els = self.parse_else()
            return N("iflet", pat=pat, scrut=scrut, then=then, els=els)
        cond = self.parse_expr(ns=True)
        then = self.parse_block()
        els = self.parse_else()
        return N("if", cond=cond, then=then, els=els)

    def parse_else(self):
        if self.isid("else"):
            self.next()
            if self.isid("if"):
                self.next()
                return self.parse_if()
            return self.parse_block()
        return None

    def parse_primary(self, ns):
        t = self.peek()
        if t.k == "num":
            self.next()
            return N("int", value=t.v, suffix=t.extra)
        if t.k == "byte":
            self.next()
            return N("int", value=byte_value(t.v), suffix="u8")
        if t.k in ("float", "str", "bstr", "char"):
            self.next()
            return N("lit_other", what=t.k, text=t.v)
        if t.k == "life":
            raise Unsupported("labelled block/loop not in the subset")
        if t.k == "p":
            if t.v == "(":
                self.next()
                items, trailing = [], False
                while not self.isp(")"):
                    items.append(self.parse_expr())
                    trailing = False
                    if not self.eatp(","):
                        break
                    trailing = True
                self.expectp(")")
                if not items:
                    return N("unit")
                if len(items) == 1 and not trailing:
                    return N("paren", e=items[0])
                return N("tuple", items=items)
            if t.v == "[":
                self.next()
                items = []
                while not self.isp("]"):
                    items.append(self.parse_expr())
                    if self.isp(";"):
                        raise Unsupported("array repeat expression not in the subset")
                    if not self.eatp(","):
                        break
                self.expectp("]")
                return N("array", items=items)
            if t.v == "{":
                return self.parse_block()
            if t.v in ("|", "||"):
                raise Unsupported("closure not in the subset")
            raise Unsupported("parse: unexpected `%s`" % t.v)
        if t.k == "id":
            if t.v in ("true", "false"):
                self.next()
                return N("bool", value=(t.v == "true"))
            if t.v == "if":
                self.next()
                return self.parse_if()
            if t.v == "match":
                self.next()
                scrut = self.parse_expr(ns=True)
                self.expectp("{")
                arms = []
                while not self.isp("}"):
                    self.skip_attrs()
                    pat = self.parse_pattern()
                    guard = None
                    if self.isid("if"):
                        self.next()
                        guard = self.parse_expr()
                    self.expectp("=>")
                    if self.isp("{"):
                        body = self.parse_block()
                        self.eatp(",")
                    else:
                        body = self.parse_expr()
                        if not self.isp("}"):
                            self.expectp(",")
                    arms.append(N("arm", pat=pat, guard=guard, body=body))
                self.expectp("}")
                return N("match", scrut=scrut, arms=arms)
            if t.v == "return":
                self.next()
                v = None
                if self.range_end_follows(ns):
                    v = self.parse_expr(ns)
                return N("return", e=v)
            if t.v in ("for", "while", "loop"):
                raise Unsupported("loop (`%s`) not in the subset" % t.v)
            if t.v in ("unsafe", "async", "move", "break", "continue", "let"):
                raise Unsupported("`%s` not in the subset" % t.v)
            # path
            segs = [self.ident()]
            while self.isp("::"):
                self.next()
                if self.isp("<"):
                    self.skip_generics()
                    continue
                segs.append(self.ident())
            if self.isp("!") and not self.isp("!=") :
                self.next()
                if not (self.isp("(") or self.isp("[") or self.isp("{")):
                    raise Unsupported("parse: bad macro call")
                start = self.i
                self.skip_balanced()
                return N("macro", name=segs[-1], toks=self.t[start + 1:self.i - 1])
            if self.isp("{") and not ns and (segs[-1][0].isupper()):
                self.next()
                fields = []
                while not self.isp("}"):
                    if self.isp(".."):
                        raise Unsupported("struct update syntax not in the subset")
                    name = self.ident()
                    if self.eatp(":"):
                        val = self.parse_expr()
                    else:
                        val = N("path", segs=[name])
                    fields.append((name, val))
                    if not self.eatp(","):
                        break
                self.expectp("}")
                return N("struct", path=segs, fields=fields)
            return N("path", segs=segs)
        raise Unsupported("parse: unexpected token `%s`" % (t.v,))


def byte_value(text):
    if text.startswith("\\x"):
        return int(text[2:], 16)
    if text.startswith("\\"):
        table = {"n": 10, "r": 13, "t": 9, "\\": 92, "0": 0, "'": 39, '"': 34}
        if text[1] not in table:
            raise Unsupported("byte escape `%s`" % text)
        return table[text[1]]
    return ord(text)


# ----------------------------------------------------------------------------- items

def scan_items(toks):
    """Top-level (and impl-level) item scan.  Returns a list of dicts:
    {'kind': 'fn'|'enum'|'struct'|'const'|'static', 'name', 'impl': type name or None,
     'trait': trait name or None, 'p': Parser positioned ... }.  Unknown items are skipped."""
    items = []
    p = Parser(toks)

    def skip_item():
        # skip to `;` at depth 0 or past a balanced `{...}`
        while True:
            t = p.peek()
            if t.k == "eof":
                return
            if t.k == "p" and t.v == ";":
                p.next()
                return
            if t.k == "p" and t.v == "{":
                p.skip_balanced()
                return
            if t.k == "p" and t.v in ("(", "["):
                p.skip_balanced()
                continue
            if t.k == "p" and t.v == "}":
                return
            p.next()

    def scan(impl, trait, until_brace):
        while True:
            p.skip_attrs()
            t = p.peek()
            if t.k == "eof":
                return
            if until_brace and t.k == "p" and t.v == "}":
                p.next()
                return
            # visibility
            if p.isid("pub"):
                p.next()
                if p.isp("("):
                    p.skip_balanced()
                continue
            if t.k == "id" and t.v in ("const", "static") and p.peek(1).k == "id" and p.peek(1).v not in ("fn", "unsafe", "async", "extern"):
                kind = p.next().v
                p.eatid("mut")
                name = p.ident()
                start = p.i
                skip_item()
                items.append(dict(kind=kind, name=name, impl=impl, trait=trait, toks=toks[start:p.i] + [Tok("eof", None, 0)]))
                continue
            if t.k == "id" and t.v in ("fn", "const", "unsafe", "async", "extern", "default"):
                # function qualifiers
                j = 0
                while p.peek(j).k == "id" and p.peek(j).v in ("const", "unsafe", "async", "extern", "default") or p.peek(j).k == "str":
                    j += 1
                if p.isid("fn", j):
                    for _ in range(j + 1):
                        p.next()
                    name = p.ident()
                    start = p.i
                    # header up to body
                    while not (p.isp("{") or p.isp(";") or p.peek().k == "eof"):
                        if p.isp("(") or p.isp("["):
                            p.skip_balanced()
                        elif p.isp("<"):
                            p.skip_generics()
                        else:
                            p.next()
                    if p.isp("{"):
                        p.skip_balanced()
                        items.append(dict(kind="fn", name=name, impl=impl, trait=trait, toks=toks[start:p.i] + [Tok("eof", None, 0)]))
                    else:
                        p.eatp(";")
                    continue
            if t.k == "id" and t.v in ("enum", "struct"):
                kind = p.next().v
                name = p.ident()
                start = p.i
                skip_item()
                items.append(dict(kind=kind, name=name, impl=impl, trait=trait, toks=toks[start:p.i] + [Tok("eof", None, 0)]))
                continue
            if t.k == "id" and t.v == "impl":
                p.next()
                if p.isp("<"):
                    p.skip_generics()
                first = None
                second = None
                cur = None
                while not (p.isp("{") or p.peek().k == "eof" or p.isid("where")):
                    if p.isp("<"):
                        p.skip_generics()
                    elif p.isid("for"):
                        p.next()
                        first, cur = cur, None
                        second = True
                    elif p.peek().k == "id":
                        cur = p.next().v
                    elif p.isp("(") or p.isp("["):
                        p.skip_balanced()
                        cur = None
                    else:
                        p.next()
                while not (p.isp("{") or p.peek().k == "eof"):
                    if p.isp("<"):
                        p.skip_generics()
                    else:
                        p.next()
                if p.peek().k == "eof":
                    return
                p.next()
                scan(cur, first if second else None, True)
                continue
            if t.k == "id" and t.v == "mod" and p.isp("{", 2):
                p.next(); p.next()
                p.skip_balanced()          # nested modules (tests) are not scanned
                continue
            # anything else: skip
            if t.k == "p" and t.v == "}":
                p.next()
                continue
            skip_item()

    scan(None, None, False)
    return items


# ----------------------------------------------------------------------------- targets

# type declarations translated from the source (struct -> structure, enum -> inductive)
TYPES = [
    ("src/jentry.rs", "struct", "JEntry"),
    ("src/number.rs", "enum", "Number"),
    ("src/jsonpath/path.rs", "enum", "Index"),
    ("src/functions.rs", "struct", "PrettyOpts"),
]

# (file, impl type or None, trait or None, fn name); in dependency order
FUNCS = [
    ("src/jentry.rs", "JEntry", None, "decode_jentry"),
    ("src/jentry.rs", "JEntry", None, "make_null_jentry"),
    ("src/jentry.rs", "JEntry", None, "make_true_jentry"),
    ("src/jentry.rs", "JEntry", None, "make_false_jentry"),
    ("src/jentry.rs", "JEntry", None, "make_string_jentry"),
    ("src/jentry.rs", "JEntry", None, "make_number_jentry"),
    ("src/jentry.rs", "JEntry", None, "make_container_jentry"),
    ("src/jentry.rs", "JEntry", None, "encoded"),
    ("src/number.rs", "Number", None, "compact_encode"),
    ("src/number.rs", "Number", None, "decode"),
    ("src/number.rs", "Number", None, "as_i64"),
    ("src/number.rs", "Number", None, "as_u64"),
    ("src/number.rs", "Number", None, "as_f64"),
    ("src/number.rs", None, None, "cmp_int_float"),
    ("src/number.rs", "Number", "Ord", "cmp"),
    ("src/jsonpath/selector.rs", "Selector", None, "convert_index"),
    ("src/jsonpath/selector.rs", "Selector", None, "convert_slice"),
    ("src/functions.rs", None, None, "jentry_compare_level"),
    ("src/functions.rs", None, None, "is_jsonb"),
    ("src/functions.rs", None, None, "read_u32"),
    ("src/iterator.rs", None, None, "read_u32"),
    ("src/functions.rs", "PrettyOpts", None, "new"),
    ("src/functions.rs", "PrettyOpts", None, "inc_indent"),
    ("src/util.rs", None, None, "decode_hex_val"),
]

# `static` tables available in Generated/Constants.lean (written by gen_constants.py)
STATICS = {"HEX": ("src/util.rs", ("array", ("int", "u8"), 256))}

# names the emitted Lean text itself uses: a Rust local with such a name would capture them
RESERVED = set("""Ctl Rs C Res Bytes Int Nat Bool Unit Option List Ordering some none pure decide compare
true false r__ Number Index JEntry PrettyOpts Selector""".split())

LEAN_KEYWORDS = set("""abbrev axiom at by class def deriving do else end example export extends
for from fun have if import in infix infixl infixr instance let local macro match mut mutual
namespace noncomputable notation omit open opaque partial postfix prefix private protected
section set_option show structure syntax then theorem unsafe using variable where with
Type Prop Sort""".split())

INT_RANGE = {}
for _n in INT_SUFFIXES:
    _bits = 64 if _n.endswith("size") else int(_n[1:])
    INT_RANGE[_n] = (-(1 << (_bits - 1)), (1 << (_bits - 1)) - 1) if _n[0] == "i" else (0, (1 << _bits) - 1)


def key_of(file, impl, name):
    return "%s::%s%s" % (file, (impl + "::") if impl else "", name)


def lname(x):
    return x + "_" if x in LEAN_KEYWORDS else x


def ind(lines, k=2):
    return [" " * k + l for l in lines]


def is_int(t):
    return t is not None and t[0] == "int"


def is_flex(t):
    return t is not None and t[0] == "flex"


def is_bytes(t):
    return t is not None and t[0] in ("slice", "vec", "array") and t[1] == ("int", "u8")


def tystr(t):
    if t is None:
        return "?"
    if t[0] in ("int", "named", "other"):
        return t[1]
    if t[0] in ("opt", "res", "vec", "slice"):
        return "%s<%s>" % (t[0], tystr(t[1]))
    if t[0] == "array":
        return "[%s; %d]" % (tystr(t[1]), t[2])
    if t[0] == "tuple":
        return "(" + ", ".join(tystr(x) for x in t[1]) + ")"
    return t[0]


class World:
    """declarations read from the source tree: constants, structs, enums, function signatures"""

    def __init__(self, repo):
        self.repo = repo
        self.items = {}          # file -> items
        self.consts = {}         # NAME -> type
        self.structs = {}        # Name -> [(field, type)]
        self.enums = {}          # Name -> [(Variant, [types])]
        self.sigs = {}           # (impl or None, name) -> dict(params, ret, lean, key)
        self.sigs_names = set(n for _, i, _, n in FUNCS if i is None)   # free functions: Lean globals
        self.type_status = {}
        self.file_errors = {}

    def load(self, file):
        if file in self.items:
            return self.items[file]
        try:
            src = open(os.path.join(self.repo, file), encoding="utf-8").read()
            its = scan_items(tokenize(src))
        except (OSError, Unsupported) as e:
            self.file_errors[file] = str(e)
            its = []
        self.items[file] = its
        return its

    def load_consts(self):
        for it in self.load("src/constants.rs"):
            if it["kind"] == "const":
                try:
                    p = Parser(it["toks"])
                    p.expectp(":")
                    self.consts[it["name"]] = p.parse_type()
                except Unsupported:
                    pass

    def find(self, file, kind, name, impl=None, trait=None):
        hits = [it for it in self.load(file)
                if it["kind"] == kind and it["name"] == name and it["impl"] == impl
                and (kind != "fn" or it["trait"] == trait)]
        return hits


def parse_struct(it):
    p = Parser(it["toks"])
    if p.isp("<"):
        raise Unsupported("generic struct")
    if not p.isp("{"):
        raise Unsupported("tuple/unit struct")
    p.next()
    fields = []
    while not p.isp("}"):
        p.skip_attrs()
        if p.eatid("pub") and p.isp("("):
            p.skip_balanced()
        name = p.ident()
        p.expectp(":")
        fields.append((name, p.parse_type()))
        if not p.eatp(","):
            break
    p.expectp("}")
    return fields


def parse_enum(it):
    p = Parser(it["toks"])
    if p.isp("<"):
        raise Unsupported("generic enum")
    p.expectp("{")
    variants = []
    while not p.isp("}"):
        p.skip_attrs()
        name = p.ident()
        tys = []
        if p.eatp("("):
            while not p.isp(")"):
                tys.append(p.parse_type())
                if not p.eatp(","):
                    break
            p.expectp(")")
        elif p.isp("{"):
            raise Unsupported("struct-like enum variant")
        if p.eatp("="):
            raise Unsupported("explicit discriminant")
        variants.append((name, tys))
        if not p.eatp(","):
            break
    p.expectp("}")
    return variants


def lean_type(t, world):
    k = t[0]
    if k == "int":
        return "Int"
    if k == "bool":
        return "Bool"
    if k == "f64":
        return "Nat"
    if k == "ordering":
        return "Ordering"
    if k == "unit":
        return "Unit"
    if is_bytes(t):
        return "Bytes"
    if k in ("vec", "slice", "array"):
        return "(List %s)" % lean_type(t[1], world)
    if k == "opt":
        return "(Option %s)" % lean_type(t[1], world)
    if k == "tuple":
        return "(" + " × ".join(lean_type(x, world) for x in t[1]) + ")"
    if k == "named" and (t[1] in world.structs or t[1] in world.enums):
        return t[1]
    raise Unsupported("type `%s` not in the subset" % tystr(t))


# ----------------------------------------------------------------------------- function translator

class FnTr:
    def __init__(self, world, file, impl, trait, name, it):
        self.w, self.file, self.impl, self.trait, self.name = world, file, impl, trait, name
        self.scopes = []
        self.tmp = 0
        self.writer = None
        self.idents = set(t.v for t in it["toks"] if t.k == "id")
        for x in self.idents:
            if re.fullmatch(r"tmp\d+", x):
                raise Unsupported("identifier `%s` clashes with generated temporaries" % x)
            if x.endswith("_") and x[:-1] in LEAN_KEYWORDS:
                raise Unsupported("identifier `%s` clashes with a renamed keyword" % x)
        self.parse_sig(it)

    # -- signature
    def resolve(self, t):
        """resolve `Self` and generic parameters"""
        k = t[0]
        if k == "named":
            if t[1] == "Self":
                if not self.impl:
                    raise Unsupported("`Self` outside an impl")
                return ("named", self.impl)
            if t[1] in self.generics:
                if self.generics[t[1]] == "Write":
                    return ("writer",)
                raise Unsupported("generic parameter `%s` not in the subset" % t[1])
            return t
        if k in ("opt", "res", "vec", "slice"):
            return (k, self.resolve(t[1]))
        if k == "array":
            return (k, self.resolve(t[1]), t[2])
        if k == "tuple":
            return (k, tuple(self.resolve(x) for x in t[1]))
        return t

    def parse_sig(self, it):
        p = Parser(it["toks"])
        self.generics = {}
        if p.isp("<"):
            inner = p.skip_generics()
            q = Parser(inner + [Tok("eof", None, 0)])
            while q.peek().k != "eof":
                if q.peek().k == "life":
                    q.next()
                    if q.eatp(":"):
                        raise Unsupported("lifetime bounds not in the subset")
                elif q.peek().k == "id":
                    g = q.ident()
                    bound = None
                    if q.eatp(":"):
                        segs = [q.ident()]
                        while q.eatp("::"):
                            segs.append(q.ident())
                        bound = segs[-1]
                        if q.isp("+") or q.isp("<"):
                            raise Unsupported("compound generic bound not in the subset")
                    self.generics[g] = bound
                else:
                    raise Unsupported("generic parameter list not in the subset")
                if not q.eatp(","):
                    break
        p.expectp("(")
        self.params = []            # (rust name, type)
        while not p.isp(")"):
            p.skip_attrs()
            if p.isp("&") and (p.isid("self", 1) or (p.peek(1).k == "life" and p.isid("self", 2))
                               or (p.isid("mut", 1) and p.isid("self", 2))):
                p.next()
                if p.peek().k == "life":
                    p.next()
                if p.eatid("mut"):
                    raise Unsupported("`&mut self` not in the subset")
                p.next()
                self.params.append(("self", ("named", "Self")))
            elif p.isid("self"):
                p.next()
                self.params.append(("self", ("named", "Self")))
            else:
                mut = p.eatid("mut")
                name = p.ident()
                if name == "_":
                    raise Unsupported("`_` parameter")
                p.expectp(":")
                if p.isp("&") and p.isid("mut", 1):
                    raise Unsupported("`&mut` parameter `%s` not in the subset" % name)
                ty = p.parse_type()
                self.params.append((name, ty))
            if not p.eatp(","):
                break
        p.expectp(")")
        self.ret = ("unit",)
        if p.eatp("->"):
            self.ret = p.parse_type()
        if p.isid("where"):
            raise Unsupported("where clause not in the subset")
        self.params = [(n, self.resolve(t)) for n, t in self.params]
        self.ret = self.resolve(self.ret)
        writers = [n for n, t in self.params if t == ("writer",)]
        if len(writers) > 1:
            raise Unsupported("more than one writer parameter")
        self.writer = writers[0] if writers else None
        self.body_parser = p

    def lean_name(self):
        base = (self.impl + "." if self.impl else "") + self.name
        dup = [f for f, i, _, n in FUNCS if i == self.impl and n == self.name]
        if len(dup) > 1 and dup[0] != self.file:
            stem = os.path.splitext(os.path.basename(self.file))[0]
            return "%s.%s" % (stem, base)          # e.g. iterator.read_u32
        return base

    def ret_value_type(self):
        return self.ret[1] if self.ret[0] == "res" else self.ret

    def lean_ret(self):
        t = lean_type(self.ret_value_type(), self.w)
        if self.writer:
            t = "(%s × Bytes)" % t
        return t

    # -- environment
    def push(self):
        self.scopes.append({})

    def pop(self):
        self.scopes.pop()

    def bind(self, name, ty):
        if name in RESERVED or name in self.w.sigs_names:
            raise Unsupported("local name `%s` clashes with a name used by the generated Lean" % name)
        self.scopes[-1][name] = ty

    def lookup(self, name):
        for s in reversed(self.scopes):
            if name in s:
                return s[name]
        return None

    def fresh(self):
        self.tmp += 1
        return "tmp%d" % self.tmp

    # -- types
    def concrete(self, t):
        if t is None:
            return False
        if t[0] == "flex":
            return False
        if t[0] in ("opt", "res", "vec", "slice"):
            return self.concrete(t[1])
        if t[0] == "array":
            return self.concrete(t[1])
        if t[0] == "tuple":
            return all(self.concrete(x) for x in t[1])
        return True

    def unify(self, a, b, what="types"):
        """most specific common type; flex (literal / .into()) types adopt the other side"""
        if a is None:
            return b
        if b is None:
            return a
        if a[0] == "never":
            return b
        if b[0] == "never":
            return a
        if a[0] == "flex" and b[0] == "flex":
            return ("flex", a[1] + b[1])
        if a[0] == "flex":
            a, b = b, a
        if b[0] == "flex":
            if a[0] != "int":
                raise Unsupported("integer expression used at type %s" % tystr(a))
            for c in b[1]:
                self.check_flex(c, a[1])
            return a
        if is_bytes(a) and is_bytes(b):
            return a if a[0] != "array" else b if b[0] != "array" else a
        if a[0] != b[0]:
            raise Unsupported("%s differ: %s vs %s" % (what, tystr(a), tystr(b)))
        if a[0] in ("opt", "res", "vec", "slice"):
            return (a[0], self.unify(a[1], b[1], what))
        if a[0] == "tuple":
            if len(a[1]) != len(b[1]):
                raise Unsupported("tuple arity")
            return ("tuple", tuple(self.unify(x, y, what) for x, y in zip(a[1], b[1])))
        if a != b:
            raise Unsupported("%s differ: %s vs %s" % (what, tystr(a), tystr(b)))
        return a

    def check_flex(self, c, target):
        lo, hi = INT_RANGE[target]
        if c[0] == "lit":
            if not (lo <= c[1] <= hi):
                raise Unsupported("literal %d out of range for %s" % (c[1], target))
        elif c[0] == "into":
            slo, shi = INT_RANGE[c[1]]
            if not (lo <= slo and shi <= hi) or (c[1].endswith("size") != target.endswith("size") and c[1] not in ("u8", "i8", "u16", "i16") ):
                raise Unsupported("no lossless `From<%s>` for %s" % (c[1], target))

    def default_flex(self, t):
        """an integer literal whose type nothing constrains is an i32"""
        if t is not None and t[0] == "flex":
            for c in t[1]:
                if c[0] != "lit":
                    raise NeedType("cannot infer the target type of `.into()`")
                self.check_flex(c, "i32")
            return ("int", "i32")
        return t

    # -- expressions: returns (lines, term, type); `lines` are do-block lines executed before
    def ex(self, e, want=None):
        ls, term, ty = self.ex0(e, want)
        if want is not None and ty is not None and ty[0] != "never":
            ty = self.unify(want, ty, "expected and found types")
        return ls, term, ty

    def call_res(self, ls, rhs):
        """bind the result of a primitive/callee that can panic or fail"""
        t = self.fresh()
        return ls + ["let %s ← Ctl.ofRes (%s)" % (t, rhs)], t

    def ex0(self, e, want):
        k = e.kind
        if k == "paren":
            return self.ex(e.e, want)
        if k in ("ref",):
            return self.ex(e.e, want)
        if k == "refmut":
            raise Unsupported("`&mut` expression not in the subset")
        if k == "un" and e.op == "*":
            return self.ex(e.e, want)
        if k == "int":
            if e.suffix:
                self.check_flex(("lit", e.value), e.suffix)
                return [], "(%d : Int)" % e.value, ("int", e.suffix)
            return [], "(%d : Int)" % e.value, ("flex", (("lit", e.value),))
        if k == "bool":
            return [], "true" if e.value else "false", ("bool",)
        if k == "unit":
            return [], "()", ("unit",)
        if k == "lit_other":
            raise Unsupported("%s literal not in the subset" % e.what)
        if k == "path":
            return self.ex_path(e, want)
        if k == "un":
            return self.ex_unary(e, want)
        if k == "bin":
            return self.ex_bin(e, want)
        if k == "cast":
            return self.ex_cast(e, want)
        if k == "field":
            ls, t, ty = self.ex(e.e)
            if ty[0] == "named" and ty[1] in self.w.structs:
                for fn, ft in self.w.structs[ty[1]]:
                    if fn == e.name:
                        return ls, "%s.%s" % (self.atom(t), lname(fn)), ft
            raise Unsupported("field `.%s` on %s" % (e.name, tystr(ty)))
        if k == "tfield":
            ls, t, ty = self.ex(e.e)
            if ty[0] == "tuple" and e.idx < len(ty[1]) and len(ty[1]) == 2:
                return ls, "%s.%d" % (self.atom(t), e.idx + 1), ty[1][e.idx]
            raise Unsupported("tuple field access not in the subset")
        if k == "index":
            return self.ex_index(e, want)
        if k == "mcall":
            return self.ex_mcall(e, want)
        if k == "call":
            return self.ex_call(e, want)
        if k == "try":
            return self.ex_try(e, want)
        if k == "struct":
            return self.ex_struct(e, want)
        if k == "array":
            terms, ls = [], []
            for it in e.items:
                l1, t1, ty1 = self.ex(it, ("int", "u8"))
                ls += l1
                terms.append(t1)
            return ls, "(Rs.bytesOf [%s])" % ", ".join(terms), ("array", ("int", "u8"), len(terms))
        if k == "tuple":
            wants = want[1] if (want is not None and want[0] == "tuple" and len(want[1]) == len(e.items)) else [None] * len(e.items)
            ls, terms, tys = [], [], []
            for it, w1 in zip(e.items, wants):
                l1, t1, ty1 = self.ex(it, w1)
                ls += l1; terms.append(t1); tys.append(ty1)
            return ls, "(" + ", ".join(terms) + ")", ("tuple", tuple(tys))
        if k == "macro":
            if e.name == "matches":
                p = Parser(list(e.toks) + [Tok("eof", None, 0)])
                scrut = p.parse_expr()
                p.expectp(",")
                pat = p.parse_pattern()
                guard = None
                if p.eatid("if"):
                    guard = p.parse_expr()
                p.eatp(",")
                if p.peek().k != "eof":
                    raise Unsupported("matches! arguments")
                ls, t, ty = self.ex(scrut)
                ty = self.default_flex(ty)
                cond, binds = self.const_pattern(pat, self.atom(t), ty)
                if binds:
                    raise Unsupported("binding inside matches!")
                if guard is not None:
                    lg, tg, _ = self.ex(guard, ("bool",))
                    if lg:
                        raise Unsupported("effectful guard")
                    cond = "(%s && %s)" % (cond, tg)
                return ls, cond, ("bool",)
            raise Unsupported("macro `%s!` not in the subset" % e.name)
        if k in ("if", "iflet", "match", "block"):
            ls, term, ty, div = self.ctl(e, "value", want)
            if div:
                return ls, "()", ("never",)
            return ls, term, ty
        if k == "return":
            return self.tail(e.e), "()", ("never",)
        if k == "range":
            raise Unsupported("range expression outside an index or `.collect()`")
        if k == "assign":
            raise Unsupported("assignment used as an expression")
        raise Unsupported("expression kind `%s` not in the subset" % k)

    def atom(self, t):
        return t if re.fullmatch(r"[A-Za-z_][A-Za-z0-9_.]*|\(.*\)|\d+", t) and self.balanced_atom(t) else "(%s)" % t

    @staticmethod
    def balanced_atom(t):
        if not t.startswith("("):
            return True
        d = 0
        for i, c in enumerate(t):
            if c == "(":
                d += 1
            elif c == ")":
                d -= 1
                if d == 0 and i != len(t) - 1:
                    return False
        return True

    def ity(self, t):
        return ".%s" % t[1]

    def ex_path(self, e, want):
        segs = e.segs
        if len(segs) == 1:
            x = segs[0]
            ty = self.lookup(x)
            if ty is not None:
                if ty == ("writer",):
                    raise Unsupported("the writer used as a value")
                return [], lname(x), ty
            if x in self.w.consts:
                ct = self.w.consts[x]
                if is_int(ct):
                    return [], "(C.%s : Int)" % x, ct
                raise Unsupported("constant `%s` of type %s" % (x, tystr(ct)))
            if x == "None":
                if want is not None and want[0] == "opt":
                    return [], "none", want
                raise NeedType("cannot infer the type of `None`")
            raise Unsupported("unknown name `%s`" % x)
        if len(segs) == 2:
            a, b = segs
            if a in INT_SUFFIXES and b in ("MIN", "MAX"):
                return [], "(Rs.IntTy.%s.%sVal)" % (a, b.lower()), ("int", a)
            if a == "f64" and b in ("NAN", "INFINITY", "NEG_INFINITY"):
                return [], "Rs.f64%s" % b, ("f64",)
            if a == "Ordering" and b in ("Less", "Equal", "Greater"):
                return [], {"Less": "Ordering.lt", "Equal": "Ordering.eq", "Greater": "Ordering.gt"}[b], ("ordering",)
            en = self.impl if a == "Self" else a
            if en in self.w.enums:
                for vn, tys in self.w.enums[en]:
                    if vn == b and not tys:
                        return [], "%s.%s" % (en, lname(vn)), ("named", en)
        raise Unsupported("path `%s` not in the subset" % "::".join(segs))

    def ex_unary(self, e, want):
        if e.op == "-":
            if e.e.kind == "int" and not e.e.suffix:
                return [], "(%d : Int)" % (-e.e.value), ("flex", (("lit", -e.e.value),))
            ls, t, ty = self.ex(e.e, want)
            ty = self.default_flex(ty)
            if not is_int(ty) or ty[1][0] != "i":
                raise Unsupported("unary minus on %s" % tystr(ty))
            ls, r = self.call_res(ls, "Rs.neg %s %s" % (self.ity(ty), self.atom(t)))
            return ls, r, ty
        if e.op == "!":
            ls, t, ty = self.ex(e.e, want)
            if ty == ("bool",):
                return ls, "(!%s)" % self.atom(t), ty
            raise Unsupported("`!` on %s" % tystr(ty))
        raise Unsupported("unary `%s`" % e.op)

    def pair(self, l, r, want=None):
        """translate two operands that must have the same type (left is evaluated first)"""
        save = self.tmp
        try:
            ll, lt, lty = self.ex(l, want)
        except NeedType:
            # the left operand needs the type of the right one: look at the right one first,
            # then emit both in evaluation order
            self.tmp = save
            _, _, rty = self.ex(r, want)
            if not self.concrete(rty):
                raise
            self.tmp = save
            ll, lt, lty = self.ex(l, rty)
            rl, rt, rty = self.ex(r, rty)
            return ll + rl, lt, rt, self.unify(lty, rty, "operand types")
        w2 = lty if self.concrete(lty) else want
        rl, rt, rty = self.ex(r, w2)
        ty = self.unify(lty, rty, "operand types")
        return ll + rl, lt, rt, ty

    def ex_bin(self, e, want):
        op = e.op
        if op in ("&&", "||"):
            ll, lt, _ = self.ex(e.l, ("bool",))
            rl, rt, _ = self.ex(e.r, ("bool",))
            if not rl:
                return ll, "(%s %s %s)" % (lt, op, rt), ("bool",)
            t = self.fresh()
            if op == "&&":
                lines = ["let %s ← (" % t, "  if %s then do" % lt] + ind(rl + ["pure %s" % rt], 4) + ["  else do", "    pure false)"]
            else:
                lines = ["let %s ← (" % t, "  if %s then do" % lt, "    pure true", "  else do"] + ind(rl + ["pure %s)" % rt], 4)
            return ll + lines, t, ("bool",)
        if op in ("==", "!=", "<", "<=", ">", ">="):
            ls, lt, rt, ty = self.pair(e.l, e.r)
            ty = self.default_flex(ty)
            sym = {"==": "=", "!=": "≠", "<": "<", "<=": "≤", ">": ">", ">=": "≥"}[op]
            if is_int(ty):
                return ls, "(decide (%s %s %s))" % (lt, sym, rt), ("bool",)
            if op in ("==", "!=") and (ty in (("bool",), ("ordering",)) or is_bytes(ty)):
                return ls, "(decide (%s %s %s))" % (lt, sym, rt), ("bool",)
            raise Unsupported("comparison `%s` on %s" % (op, tystr(ty)))
        if op in ("+", "-", "*", "/", "%"):
            ls, lt, rt, ty = self.pair(e.l, e.r, want if (want is not None and want[0] == "int") else None)
            if is_flex(ty):
                if ty[1] and all(c[0] == "lit" for c in ty[1]) and want is None:
                    raise NeedType("cannot infer the type of an integer literal expression")
                ty = self.default_flex(ty)
            if not is_int(ty):
                raise Unsupported("arithmetic `%s` on %s" % (op, tystr(ty)))
            fn = {"+": "add", "-": "sub", "*": "mul", "/": "div", "%": "rem"}[op]
            ls, r = self.call_res(ls, "Rs.%s %s %s %s" % (fn, self.ity(ty), self.atom(lt), self.atom(rt)))
            return ls, r, ty
        if op in ("<<", ">>"):
            ll, lt, lty = self.ex(e.l, want if (want is not None and want[0] == "int") else None)
            if is_flex(lty):
                raise NeedType("cannot infer the type of the shifted literal")
            if not is_int(lty):
                raise Unsupported("shift on %s" % tystr(lty))
            rl, rt, rty = self.ex(e.r)
            rty = self.default_flex(rty)
            if not is_int(rty):
                raise Unsupported("shift amount of type %s" % tystr(rty))
            fn = "shl" if op == "<<" else "shr"
            ls, r = self.call_res(ll + rl, "Rs.%s %s %s %s" % (fn, self.ity(lty), self.atom(lt), self.atom(rt)))
            return ls, r, lty
        if op in ("&", "|", "^"):
            ls, lt, rt, ty = self.pair(e.l, e.r, want if (want is not None and want[0] == "int") else None)
            if ty == ("bool",):
                raise Unsupported("non-short-circuit boolean operator")
            if is_flex(ty):
                raise NeedType("cannot infer the type of a literal bit expression")
            if not is_int(ty) or ty[1][0] != "u":
                raise Unsupported("bit operator `%s` on %s (only unsigned integers)" % (op, tystr(ty)))
            fn = {"&": "bitand", "|": "bitor", "^": "bitxor"}[op]
            return ls, "(Rs.%s %s %s)" % (fn, self.atom(lt), self.atom(rt)), ty
        raise Unsupported("operator `%s`" % op)

    def ex_cast(self, e, want):
        target = self.resolve(e.ty)
        ls, t, ty = self.ex(e.e)
        if is_flex(ty):
            if target[0] == "int":
                ty = self.unify(target, ty)
                return ls, t, target
            ty = self.default_flex(ty)
        if is_int(ty) and is_int(target):
            return ls, "(Rs.cast %s %s)" % (self.ity(target), self.atom(t)), target
        if is_int(ty) and target == ("f64",):
            return ls, "(Rs.intAsF64 %s)" % self.atom(t), target
        if ty == ("bool",) and is_int(target):
            return ls, "(if %s then (1 : Int) else (0 : Int))" % t, target
        raise Unsupported("cast from %s to %s" % (tystr(ty), tystr(target)))

    def ex_index(self, e, want):
        if e.e.kind == "path" and len(e.e.segs) == 1 and self.lookup(e.e.segs[0]) is None and e.e.segs[0] in STATICS:
            name = e.e.segs[0]
            sfile, sty = STATICS[name]
            hits = self.w.find(sfile, "static", name)
            if len(hits) != 1:
                raise Unsupported("static `%s` not found" % name)
            p = Parser(hits[0]["toks"])
            p.expectp(":")
            if p.parse_type() != sty:
                raise Unsupported("static `%s` changed its type" % name)
            il, it, ity = self.ex(e.idx, ("int", "usize"))
            ls, r = self.call_res(il, "Rs.indexTable C.%s %s" % (name, self.atom(it)))
            return ls, r, sty[1]
        ls, t, ty = self.ex(e.e)
        if not is_bytes(ty):
            raise Unsupported("indexing into %s" % tystr(ty))
        if e.idx.kind == "range":
            r = e.idx
            if r.incl:
                raise Unsupported("inclusive range index")
            if r.lo is not None and r.hi is None:
                l1, t1, _ = self.ex(r.lo, ("int", "usize"))
                ls, v = self.call_res(ls + l1, "Rs.sliceFrom %s %s" % (self.atom(t), self.atom(t1)))
            elif r.lo is None and r.hi is not None:
                l1, t1, _ = self.ex(r.hi, ("int", "usize"))
                ls, v = self.call_res(ls + l1, "Rs.sliceTo %s %s" % (self.atom(t), self.atom(t1)))
            elif r.lo is not None:
                l1, t1, _ = self.ex(r.lo, ("int", "usize"))
                l2, t2, _ = self.ex(r.hi, ("int", "usize"))
                ls, v = self.call_res(ls + l1 + l2, "Rs.slice %s %s %s" % (self.atom(t), self.atom(t1), self.atom(t2)))
            else:
                return ls, t, ("slice", ("int", "u8"))
            return ls, v, ("slice", ("int", "u8"))
        il, it, _ = self.ex(e.idx, ("int", "usize"))
        ls, r = self.call_res(ls + il, "Rs.index %s %s" % (self.atom(t), self.atom(it)))
        return ls, r, ("int", "u8")

    def ex_try(self, e, want):
        inner = e.e
        # writer.write_all(x)?
        if inner.kind == "mcall" and inner.name == "write_all" and inner.recv.kind == "path" \
                and len(inner.recv.segs) == 1 and self.writer and inner.recv.segs[0] == self.writer \
                and self.lookup(self.writer) == ("writer",):
            if len(inner.args) != 1:
                raise Unsupported("write_all arity")
            if self.ret[0] != "res":
                raise Unsupported("`?` in a function that does not return Result")
            ls, t, ty = self.ex(inner.args[0])
            if not is_bytes(ty):
                raise Unsupported("write_all of %s" % tystr(ty))
            w = lname(self.writer)
            return ls + ["let %s ← Ctl.ofRes (Rs.writeAll %s %s)" % (w, w, self.atom(t))], "()", ("unit",)
        ls, t, ty = self.ex(inner, ("res", want) if want is not None else None)
        if ty[0] != "res":
            raise Unsupported("`?` on %s" % tystr(ty))
        if self.ret[0] != "res":
            raise Unsupported("`?` in a function that does not return Result")
        ls, r = self.call_res(ls, t)
        return ls, r, ty[1]

    def ex_struct(self, e, want):
        name = self.impl if e.path == ["Self"] else e.path[-1]
        if len(e.path) != 1 or name not in self.w.structs:
            raise Unsupported("struct literal `%s`" % "::".join(e.path))
        decl = self.w.structs[name]
        given = dict(e.fields)
        if len(given) != len(e.fields) or set(given) != set(f for f, _ in decl):
            raise Unsupported("struct literal fields differ from the declaration of %s" % name)
        ls, parts = [], []
        vals = {}
        for fn, fe in e.fields:             # evaluation order = source order
            ft = dict(decl)[fn]
            l1, t1, _ = self.ex(fe, ft)
            ls += l1
            vals[fn] = t1
        for fn, _ in decl:
            parts.append("%s := %s" % (lname(fn), vals[fn]))
        return ls, "({ %s } : %s)" % (", ".join(parts), name), ("named", name)

    def ex_call(self, e, want):
        f = e.f
        if f.kind != "path":
            raise Unsupported("call of a computed function")
        segs = f.segs
        args = e.args
        if segs == ["Some"] and len(args) == 1:
            w1 = want[1] if (want is not None and want[0] == "opt") else None
            ls, t, ty = self.ex(args[0], w1)
            return ls, "(some %s)" % self.atom(t), ("opt", ty)
        if segs == ["Ok"] and len(args) == 1:
            raise Unsupported("`Ok(..)` outside return position")
        if segs == ["Err"]:
            raise Unsupported("`Err(..)` outside return position")
        if len(segs) == 2:
            a, b = segs
            if a in INT_SUFFIXES and b == "from_be_bytes" and len(args) == 1:
                n = (64 if a.endswith("size") else int(a[1:])) // 8
                ls, t, ty = self.ex(args[0], ("array", ("int", "u8"), n))
                if ty[0] != "array" or ty[2] != n:
                    raise Unsupported("from_be_bytes argument of type %s" % tystr(ty))
                return ls, "(Rs.fromBeBytes .%s %s)" % (a, self.atom(t)), ("int", a)
            if a == "f64" and b == "from_be_bytes" and len(args) == 1:
                ls, t, ty = self.ex(args[0], ("array", ("int", "u8"), 8))
                if ty[0] != "array" or ty[2] != 8:
                    raise Unsupported("from_be_bytes argument of type %s" % tystr(ty))
                return ls, "(Rs.f64FromBeBytes %s)" % self.atom(t), ("f64",)
            if a == "f64" and b == "from_bits" and len(args) == 1:
                ls, t, ty = self.ex(args[0], ("int", "u64"))
                return ls, "(Rs.f64FromBits %s)" % self.atom(t), ("f64",)
            en = self.impl if a == "Self" else a
            if en in self.w.enums:
                for vn, tys in self.w.enums[en]:
                    if vn == b and len(tys) == len(args) and tys:
                        ls, terms = [], []
                        for ae, at in zip(args, tys):
                            l1, t1, _ = self.ex(ae, at)
                            ls += l1
                            terms.append(self.atom(t1))
                        return ls, "(%s.%s %s)" % (en, lname(vn), " ".join(terms)), ("named", en)
            if self.find_sig(en, b):
                return self.user_call(self.find_sig(en, b), args)
        if segs == ["OrderedFloat"] and len(args) == 1:
            ls, t, ty = self.ex(args[0], ("f64",))
            return ls, t, ("named", "OrderedFloat")
        if len(segs) == 1 and self.find_sig(None, segs[0]) and self.lookup(segs[0]) is None:
            return self.user_call(self.find_sig(None, segs[0]), args)
        raise Unsupported("call of `%s` not in the subset" % "::".join(segs))

    def find_sig(self, impl, name):
        """signature of a translated function visible from this file: same file first"""
        if (self.file, impl, name) in self.w.sigs:
            return self.w.sigs[(self.file, impl, name)]
        hits = [v for (f, i, n), v in self.w.sigs.items() if i == impl and n == name]
        return hits[0] if len(hits) == 1 else None

    def user_call(self, sig, args, recv=None):
        params = sig["params"]
        if sig["writer"]:
            raise Unsupported("call of a function with a writer parameter")
        allargs = ([recv] if recv is not None else []) + list(args)
        if len(allargs) != len(params):
            raise Unsupported("arity of call to %s" % sig["lean"])
        ls, terms = [], []
        for ae, (_, pt) in zip(allargs, params):
            if isinstance(ae, tuple):
                l1, t1 = ae
            else:
                l1, t1, _ = self.ex(ae, pt)
            ls += l1
            terms.append(self.atom(t1))
        call = "%s %s" % (sig["lean"], " ".join(terms)) if terms else sig["lean"]
        ret = sig["ret"]
        if ret[0] == "res":
            return ls, "(%s)" % call, ret          # a Res value: only usable under `?` / in return position
        ls, r = self.call_res(ls, call)
        return ls, r, ret

    def ex_mcall(self, e, want):
        name, args = e.name, e.args
        # (a..=b).collect()
        recv = e.recv
        while recv.kind == "paren":
            recv = recv.e
        if name == "collect" and recv.kind == "range" and not args:
            if not recv.incl or recv.lo is None or recv.hi is None:
                raise Unsupported("only `(a..=b).collect()` is in the subset")
            if want is None or want[0] != "vec" or not is_int(want[1]):
                raise NeedType("cannot infer the target of `.collect()`")
            l1, t1, _ = self.ex(recv.lo, want[1])
            l2, t2, _ = self.ex(recv.hi, want[1])
            return l1 + l2, "(Rs.rangeInclusive %s %s)" % (self.atom(t1), self.atom(t2)), want
        if name in ("unwrap", "expect"):
            if name == "unwrap" and args:
                raise Unsupported("unwrap arity")
            ls, t, ty = self.ex(e.recv, ("opt", want) if want is not None else None)
            if ty[0] != "opt":
                raise Unsupported("`.%s()` on %s" % (name, tystr(ty)))
            ls, r = self.call_res(ls, "Rs.unwrap %s" % self.atom(t))
            return ls, r, ty[1]
        if name == "ok_or" and len(args) == 1:
            ls, t, ty = self.ex(e.recv, ("opt", want[1]) if (want is not None and want[0] == "res") else None)
            if ty[0] != "opt":
                raise Unsupported("`.ok_or()` on %s" % tystr(ty))
            return ls, "(Rs.okOr %s %s)" % (self.atom(t), self.error_name(args[0])), ("res", ty[1])
        if name in ("into", "try_into") and not args:
            ls, t, ty = self.ex(e.recv)
            ty = self.default_flex(ty) if is_flex(ty) and all(c[0] == "lit" for c in ty[1]) else ty
            if name == "into":
                if is_int(ty):
                    return ls, t, ("flex", (("into", ty[1]),))
                if is_flex(ty):
                    return ls, t, ty
                raise Unsupported("`.into()` on %s" % tystr(ty))
            if is_int(ty):
                if want is None or want[0] != "opt" or not is_int(want[1]):
                    raise NeedType("cannot infer the target of `.try_into()`")
                return ls, "(Rs.tryInto %s %s)" % (self.ity(want[1]), self.atom(t)), want
            if is_bytes(ty):
                if want is None or want[0] != "opt" or want[1][0] != "array" or want[1][1] != ("int", "u8"):
                    raise NeedType("cannot infer the target of `.try_into()`")
                return ls, "(Rs.tryIntoArray %d %s)" % (want[1][2], self.atom(t)), want
            raise Unsupported("`.try_into()` on %s" % tystr(ty))
        ls, t, ty = self.ex(e.recv)
        a = self.atom(t)
        if ty == ("named", "OrderedFloat"):
            if name == "cmp" and len(args) == 1:
                l1, t1, ty1 = self.ex(args[0])
                if ty1 != ("named", "OrderedFloat"):
                    raise Unsupported("OrderedFloat::cmp argument")
                return ls + l1, "(Rs.orderedFloatCmp %s %s)" % (a, self.atom(t1)), ("ordering",)
            raise Unsupported("method `.%s()` on OrderedFloat" % name)
        ty = self.default_flex(ty) if is_flex(ty) else ty
        if is_int(ty):
            if name == "to_be_bytes" and not args:
                n = (64 if ty[1].endswith("size") else int(ty[1][1:])) // 8
                return ls, "(Rs.toBeBytes %s %s)" % (self.ity(ty), a), ("array", ("int", "u8"), n)
            if name == "cmp" and len(args) == 1:
                l1, t1, _ = self.ex(args[0], ty)
                return ls + l1, "(compare %s %s)" % (a, self.atom(t1)), ("ordering",)
            if name == "clone" and not args:
                return ls, t, ty
        if ty == ("f64",) and not args:
            m = {"is_nan": ("Rs.f64IsNan", ("bool",)), "is_infinite": ("Rs.f64IsInfinite", ("bool",)),
                 "is_sign_negative": ("Rs.f64IsSignNegative", ("bool",)), "to_bits": ("Rs.f64ToBits", ("int", "u64")),
                 "to_be_bytes": ("Rs.f64ToBeBytes", ("array", ("int", "u8"), 8))}
            if name in m:
                return ls, "(%s %s)" % (m[name][0], a), m[name][1]
        if ty == ("ordering",) and name == "reverse" and not args:
            return ls, "(Ordering.swap %s)" % a, ty
        if is_bytes(ty):
            if name == "is_empty" and not args:
                return ls, "(Rs.isEmpty %s)" % a, ("bool",)
            if name == "len" and not args:
                return ls, "(Rs.len %s)" % a, ("int", "usize")
            if name == "first" and not args:
                return ls, "(Rs.first %s)" % a, ("opt", ("int", "u8"))
            if name == "eq" and len(args) == 1:
                l1, t1, ty1 = self.ex(args[0])
                if not is_bytes(ty1):
                    raise Unsupported("`.eq()` argument")
                return ls + l1, "(decide (%s = %s))" % (a, self.atom(t1)), ("bool",)
            if name == "get" and len(args) == 1 and args[0].kind == "range":
                r = args[0]
                if r.incl or r.lo is None or r.hi is None:
                    raise Unsupported("only `.get(a..b)` is in the subset")
                l1, t1, _ = self.ex(r.lo, ("int", "usize"))
                l2, t2, _ = self.ex(r.hi, ("int", "usize"))
                return ls + l1 + l2, "(Rs.getRange %s %s %s)" % (a, self.atom(t1), self.atom(t2)), ("opt", ("slice", ("int", "u8")))
        if ty[0] == "named" and self.find_sig(ty[1], name):
            return self.user_call(self.find_sig(ty[1], name), args, recv=(ls, t))
        raise Unsupported("method `.%s()` on %s not in the whitelist" % (name, tystr(ty)))

    def error_name(self, e):
        if e.kind == "path" and len(e.segs) == 2 and e.segs[0] == "Error":
            return '"%s"' % e.segs[1]
        raise Unsupported("only unit variants `Error::X` are in the subset")

    # -- assigned outer variables of a statement-level construct
    def assigned(self, node):
        out = []

        def pat_names(p, acc):
            if p is None:
                return
            if p.kind == "p_path" and len(p.path) == 1:
                acc.add(p.path[0])
            elif p.kind == "p_bind":
                acc.add(p.name); pat_names(p.sub, acc)
            elif p.kind in ("p_tuple",):
                for q in p.items:
                    pat_names(q, acc)
            elif p.kind == "p_ctor":
                for q in p.args:
                    pat_names(q, acc)
            elif p.kind == "p_or":
                for q in p.alts:
                    pat_names(q, acc)

        def walk(x, declared):
            if isinstance(x, (list, tuple)):
                for y in x:
                    walk(y, declared)
                return
            if not isinstance(x, N):
                return
            if x.kind == "block":
                d = set(declared)
                for s in x.stmts:
                    if s.kind == "let":
                        walk(s.init, d)
                        pat_names(s.pat, d)
                    else:
                        walk(s.e, d)
                walk(x.tail, d)
                return
            if x.kind == "assign":
                if x.lhs.kind == "path" and len(x.lhs.segs) == 1:
                    v = x.lhs.segs[0]
                    if v not in declared and v not in out:
                        out.append(v)
                else:
                    raise Unsupported("assignment to a place expression not in the subset")
                walk(x.rhs, declared)
                return
            if x.kind == "mcall" and x.name == "write_all" and x.recv.kind == "path" and x.recv.segs == [self.writer]:
                if self.writer not in declared and self.writer not in out:
                    out.append(self.writer)
                walk(x.args, declared)
                return
            if x.kind == "match":
                walk(x.scrut, declared)
                for a in x.arms:
                    d = set(declared)
                    pat_names(a.pat, d)
                    walk(a.guard, d)
                    walk(a.body, d)
                return
            if x.kind == "iflet":
                walk(x.scrut, declared)
                d = set(declared)
                pat_names(x.pat, d)
                walk(x.then, d)
                walk(x.els, declared)
                return
            for k, v in x.__dict__.items():
                if k not in ("kind", "toks"):
                    walk(v, declared)

        walk(node, set())
        for v in out:
            if self.lookup(v) is None:
                raise Unsupported("assignment to unknown variable `%s`" % v)
        return out

    # -- return
    def mk_ret(self, kind, term):
        w = lname(self.writer) if self.writer else None
        if kind == "ok":
            return "Ctl.ret (.ok %s)" % (("(%s, %s)" % (term, w)) if w else self.atom(term))
        if kind == "err":
            return "Ctl.ret (.err %s)" % term
        if w:
            return "Ctl.ret (Res.map (fun r__ => (r__, %s)) %s)" % (w, self.atom(term))
        return "Ctl.ret %s" % self.atom(term)

    def tail(self, e):
        """lines that compute `e` and leave the function with it"""
        if e is None:
            if self.ret_value_type() != ("unit",):
                raise Unsupported("`return;` in a non-unit function")
            return [self.mk_ret("ok", "()")]
        k = e.kind
        if k == "return":
            return self.tail(e.e)
        if k == "paren":
            return self.tail(e.e)
        if k in ("if", "iflet", "match", "block"):
            ls, _, _, _ = self.ctl(e, "tail", None)
            return ls
        if self.ret[0] == "res":
            if k == "call" and e.f.kind == "path" and e.f.segs == ["Ok"] and len(e.args) == 1:
                ls, t, ty = self.ex(e.args[0], self.ret[1])
                self.need_concrete(ty)
                return ls + [self.mk_ret("ok", t)]
            if k == "call" and e.f.kind == "path" and e.f.segs == ["Err"] and len(e.args) == 1:
                return [self.mk_ret("err", self.error_name(e.args[0]))]
            ls, t, ty = self.ex(e, self.ret)
            if ty[0] == "never":
                return ls
            if ty[0] != "res":
                raise Unsupported("returned expression of type %s in a Result function" % tystr(ty))
            return ls + [self.mk_ret("res", t)]
        ls, t, ty = self.ex(e, self.ret)
        if ty[0] == "never":
            return ls
        self.need_concrete(ty)
        return ls + [self.mk_ret("ok", t)]

    def need_concrete(self, ty):
        if not self.concrete(ty):
            raise Unsupported("could not infer a type (%s)" % tystr(ty))

    # -- blocks and statements
    def body_as_block(self, b):
        return b if b.kind == "block" else N("block", stmts=[], tail=b)

    def tr_block(self, b, mode, want):
        """-> (lines, term, type, diverges); in tail mode the lines end by leaving the function"""
        b = self.body_as_block(b)
        self.push()
        try:
            lines = []
            div = False
            for s in b.stmts:
                if div:
                    raise Unsupported("statements after a diverging statement")
                l1, d1 = self.tr_stmt(s)
                lines += l1
                div = div or d1
            if b.tail is not None:
                if div:
                    raise Unsupported("expression after a diverging statement")
                if mode == "tail":
                    return lines + self.tail(b.tail), None, ("never",), True
                l1, t1, ty1 = self.ex(b.tail, want)
                if ty1 is not None and ty1[0] == "never":
                    return lines + l1, None, ty1, True
                return lines + l1, t1, ty1, False
            if div:
                return lines, None, ("never",), True
            if mode == "tail":
                return lines + self.tail(None), None, ("never",), True
            return lines, "()", ("unit",), False
        finally:
            self.pop()

    def let_pattern(self, pat, ty):
        """-> (lean pattern, [(name, type)]) for an irrefutable pattern"""
        if pat.kind == "p_wild":
            return "_", []
        if pat.kind == "p_path" and len(pat.path) == 1:
            x = pat.path[0]
            if x in self.w.consts or x[0].isupper():
                raise Unsupported("refutable pattern in `let`")
            return lname(x), [(x, ty)]
        if pat.kind == "p_tuple":
            if ty[0] != "tuple" or len(ty[1]) != len(pat.items):
                raise Unsupported("tuple pattern against %s" % tystr(ty))
            parts, binds = [], []
            for q, qt in zip(pat.items, ty[1]):
                s, b = self.let_pattern(q, qt)
                parts.append(s); binds += b
            return "(" + ", ".join(parts) + ")", binds
        raise Unsupported("pattern in `let` not in the subset")

    def tr_stmt(self, s):
        """-> (lines, diverges)"""
        if s.kind == "let":
            if s.init is None:
                raise Unsupported("`let` without initialiser")
            want = self.resolve(s.ty) if s.ty is not None else None
            ls, t, ty = self.ex(s.init, want)
            if ty is not None and ty[0] == "never":
                return ls, True
            ty = self.default_flex(ty)
            self.need_concrete(ty)
            if ty == ("writer",) or ty[0] == "res":
                raise Unsupported("binding a value of type %s" % tystr(ty))
            pat, binds = self.let_pattern(s.pat, ty)
            for n, bt in binds:
                self.bind(n, bt)
            # peephole: `let tmpN ← rhs` immediately renamed
            if ls and re.fullmatch(r"tmp\d+", t):
                for idx in range(len(ls) - 1, -1, -1):
                    if not ls[idx].startswith(" "):
                        break
                pre = "let %s ← " % t
                if ls[idx].startswith(pre):
                    ls = ls[:idx] + ["let %s ← %s" % (pat, ls[idx][len(pre):])] + ls[idx + 1:]
                    return ls, False
            return ls + ["let %s := %s" % (pat, t)], False
        e = s.e
        if e.kind == "return":
            return self.tail(e.e), True
        if e.kind in ("if", "iflet", "match", "block"):
            ls, _, _, div = self.ctl(e, "stmt", None)
            return ls, div
        if e.kind == "assign":
            if not (e.lhs.kind == "path" and len(e.lhs.segs) == 1):
                raise Unsupported("assignment to a place expression not in the subset")
            x = e.lhs.segs[0]
            xt = self.lookup(x)
            if xt is None or xt == ("writer",):
                raise Unsupported("assignment to `%s`" % x)
            if e.op == "=":
                ls, t, _ = self.ex(e.rhs, xt)
            else:
                ls, t, _ = self.ex(N("bin", op=e.op[:-1], l=e.lhs, r=e.rhs), xt)
            return ls + ["let %s := %s" % (lname(x), t)], False
        ls, t, ty = self.ex(e)
        return ls, (ty is not None and ty[0] == "never")

    # -- patterns of `match` / `matches!` on integers, booleans, orderings
    def const_pattern(self, pat, s, ty):
        """-> (condition term or None when irrefutable, [names bound to the scrutinee])"""
        k = pat.kind
        if k == "p_wild":
            return None, []
        if k == "p_bind":
            c, b = self.const_pattern(pat.sub, s, ty)
            return c, b + [pat.name]
        if k == "p_or":
            conds = []
            for a in pat.alts:
                c, b = self.const_pattern(a, s, ty)
                if b:
                    raise Unsupported("binding inside an alternation pattern")
                if c is None:
                    return None, []
                conds.append(c)
            return "(" + " || ".join(conds) + ")", []
        if k == "p_lit":
            return self.eq_cond(s, pat.lit, ty), []
        if k == "p_range":
            if not is_int(ty):
                raise Unsupported("range pattern on %s" % tystr(ty))
            _, lo, _ = self.ex(pat.lo, ty)
            _, hi, _ = self.ex(pat.hi, ty)
            return "(decide (%s ≤ %s) && decide (%s ≤ %s))" % (lo, s, s, hi), []
        if k == "p_path":
            if len(pat.path) == 1:
                x = pat.path[0]
                if x in ("true", "false") and ty == ("bool",):
                    return "(decide (%s = %s))" % (s, x), []
                if x in self.w.consts:
                    return self.eq_cond(s, N("path", segs=[x]), ty), []
                if x[0].isupper() or x == "None":
                    raise Unsupported("pattern `%s` not in the subset" % x)
                return None, [x]
            return self.eq_cond(s, N("path", segs=pat.path), ty), []
        raise Unsupported("pattern not in the subset for a match on %s" % tystr(ty))

    def eq_cond(self, s, e, ty):
        ls, t, ty2 = self.ex(e, ty)
        if ls:
            raise Unsupported("effectful pattern")
        return "(decide (%s = %s))" % (s, t)

    # -- patterns of `match` / `if let` on enums, Option, tuples of them
    def ctor_pattern(self, pat, ty, top=False):
        """-> (lean pattern, [(name, type)])"""
        k = pat.kind
        if k == "p_wild":
            if top and ty[0] == "tuple":
                return ", ".join("_" for _ in ty[1]), []
            return "_", []
        if k == "p_tuple":
            if ty[0] != "tuple" or len(ty[1]) != len(pat.items):
                raise Unsupported("tuple pattern against %s" % tystr(ty))
            parts, binds = [], []
            for q, qt in zip(pat.items, ty[1]):
                s1, b1 = self.ctor_pattern(q, qt)
                parts.append(s1); binds += b1
            return (", ".join(parts) if top else "(" + ", ".join(parts) + ")"), binds
        if k == "p_path":
            if len(pat.path) == 1:
                x = pat.path[0]
                if x == "None" and ty[0] == "opt":
                    return "none", []
                if x in self.w.consts or x[0].isupper():
                    raise Unsupported("pattern `%s` not in the subset here" % x)
                if top and ty[0] == "tuple":
                    raise Unsupported("binding a whole tuple scrutinee")
                return lname(x), [(x, ty)]
            en = self.impl if pat.path[0] == "Self" else pat.path[0]
            if len(pat.path) == 2 and ty == ("named", en) and en in self.w.enums:
                for vn, tys in self.w.enums[en]:
                    if vn == pat.path[1] and not tys:
                        return ".%s" % lname(vn), []
            raise Unsupported("pattern `%s` against %s" % ("::".join(pat.path), tystr(ty)))
        if k == "p_ctor":
            if pat.path == ["Some"] and ty[0] == "opt" and len(pat.args) == 1:
                s1, b1 = self.ctor_pattern(pat.args[0], ty[1])
                return "(some %s)" % s1, b1
            en = self.impl if pat.path[0] == "Self" else pat.path[0]
            if len(pat.path) == 2 and ty == ("named", en) and en in self.w.enums:
                for vn, tys in self.w.enums[en]:
                    if vn == pat.path[1] and len(tys) == len(pat.args) and tys:
                        parts, binds = [], []
                        for q, qt in zip(pat.args, tys):
                            if q.kind not in ("p_wild", "p_path") or (q.kind == "p_path" and len(q.path) != 1):
                                raise Unsupported("nested pattern inside `%s`" % "::".join(pat.path))
                            s1, b1 = self.ctor_pattern(q, qt)
                            parts.append(s1); binds += b1
                        return "(.%s %s)" % (lname(vn), " ".join(parts)), binds
            raise Unsupported("pattern `%s(..)` against %s" % ("::".join(pat.path), tystr(ty)))
        raise Unsupported("pattern not in the subset for a match on %s" % tystr(ty))

    # -- control flow
    def ctl(self, e, mode, want):
        """if / if let / match / block in `tail`, `value` or `stmt` mode
        -> (lines, term, type, diverges)"""
        M = [] if mode == "tail" else self.assigned(e)
        k = e.kind
        if k == "block":
            if mode == "tail":
                return self.tr_block(e, "tail", None)
            branches = [dict(kind="only", body=e, binds=[])]
            shape = ("block",)
        elif k == "if":
            branches = []
            cur = e
            shape = ("chain",)
            first = True
            while True:
                if cur is None:
                    branches.append(dict(cl=[], cond=None, body=N("block", stmts=[], tail=None), binds=[], pre=[]))
                    break
                if cur.kind == "if":
                    cl, ct, _ = self.ex(cur.cond, ("bool",))
                    branches.append(dict(cl=cl, cond=ct, body=cur.then, binds=[], pre=[]))
                    cur = cur.els
                    first = False
                    continue
                if cur.kind == "iflet":
                    branches.append(dict(cl=[], cond=None, body=N("block", stmts=[], tail=cur) if mode != "stmt" else N("block", stmts=[N("expr", e=cur, semi=False)], tail=None), binds=[], pre=[]))
                    break
                branches.append(dict(cl=[], cond=None, body=cur, binds=[], pre=[]))
                break
            pre_lines = branches[0]["cl"]
            branches[0]["cl"] = []
        elif k == "iflet":
            sl, st, sty = self.ex(e.scrut)
            pat, binds = self.ctor_pattern(e.pat, sty, top=False)
            els = e.els if e.els is not None else N("block", stmts=[], tail=None)
            branches = [dict(pat=pat, binds=binds, body=e.then), dict(pat="_", binds=[], body=els)]
            shape = ("match", [st])
            pre_lines = sl
        elif k == "match":
            return self.ctl_match(e, mode, want, M)
        else:
            raise Unsupported("control flow kind %s" % k)
        if k == "block":
            pre_lines = []
        return self.finish_ctl(shape, pre_lines, branches, mode, want, M)

    def ctl_match(self, e, mode, want, M):
        scrut = e.scrut
        while scrut.kind == "paren":
            scrut = scrut.e
        if scrut.kind == "tuple":
            sl, sts, stys = [], [], []
            for it in scrut.items:
                l1, t1, ty1 = self.ex(it)
                sl += l1; sts.append(t1); stys.append(self.default_flex(ty1))
            sty = ("tuple", tuple(stys))
            top = True
        else:
            sl, st, sty = self.ex(scrut)
            sty = self.default_flex(sty)
            sts = [st]
            top = False
        if sty[0] in ("int", "bool", "ordering"):
            s = sts[0]
            if not re.fullmatch(r"[A-Za-z_][A-Za-z0-9_]*", s):
                t = self.fresh()
                sl = sl + ["let %s := %s" % (t, s)]
                s = t
            branches = []
            catch_all = False
            for a in e.arms:
                if catch_all:
                    raise Unsupported("match arm after a catch-all arm")
                cond, names = self.const_pattern(a.pat, s, sty)
                binds = [(n, sty) for n in names]
                pre = ["let %s := %s" % (lname(n), s) for n in names if lname(n) != s]
                if a.guard is not None:
                    self.push()
                    try:
                        for n, bt in binds:
                            self.bind(n, bt)
                        gl, gt, _ = self.ex(a.guard, ("bool",))
                    finally:
                        self.pop()
                    if gl:
                        raise Unsupported("effectful match guard")
                    for n in names:
                        if lname(n) != s and re.search(r"\b%s\b" % re.escape(lname(n)), gt):
                            raise Unsupported("match guard uses a pattern binding")
                    cond = gt if cond is None else "(%s && %s)" % (cond, gt)
                if cond is None:
                    catch_all = True
                branches.append(dict(cl=[], cond=cond, body=a.body, binds=binds, pre=pre))
            if not catch_all:
                raise Unsupported("match on %s without a catch-all arm" % tystr(sty))
            if branches[-1]["cond"] is None and len(branches) == 1:
                return self.finish_ctl(("block",), sl, [dict(kind="only", body=branches[0]["body"], binds=branches[0]["binds"], pre=branches[0]["pre"])], mode, want, M)
            return self.finish_ctl(("chain",), sl, branches, mode, want, M)
        if sty[0] in ("named", "opt", "tuple"):
            if sty[0] == "named" and sty[1] not in self.w.enums:
                raise Unsupported("match on %s" % tystr(sty))
            branches = []
            for a in e.arms:
                if a.guard is not None:
                    raise Unsupported("guard on an enum match arm")
                alts = a.pat.alts if a.pat.kind == "p_or" else [a.pat]
                pats, binds = [], []
                for alt in alts:
                    p1, b1 = self.ctor_pattern(alt, sty, top=top)
                    if b1 and len(alts) > 1:
                        raise Unsupported("binding inside an alternation pattern")
                    pats.append(p1); binds += b1
                branches.append(dict(pat=" | ".join(pats), binds=binds, body=a.body))
            return self.finish_ctl(("match", sts), sl, branches, mode, want, M)
        raise Unsupported("match on a value of type %s" % tystr(sty))

    def pack(self, term, M):
        names = [lname(m) for m in M]
        if not names:
            return term
        if term == "()":
            return names[0] if len(names) == 1 else "(" + ", ".join(names) + ")"
        return "(" + ", ".join([term] + names) + ")"

    def finish_ctl(self, shape, pre_lines, branches, mode, want, M):
        # translate the branch bodies (two passes when a branch needs the type of another)
        results = [None] * len(branches)
        ty = want

        def run(i, w):
            br = branches[i]
            self.push()
            try:
                for n, bt in br.get("binds", []):
                    self.bind(n, bt)
                return self.tr_block(br["body"], "tail" if mode == "tail" else "value", w)
            finally:
                self.pop()

        pending = []
        for i in range(len(branches)):
            save = self.tmp
            try:
                results[i] = run(i, want)
            except NeedType:
                if mode == "tail" or want is not None:
                    raise
                self.tmp = save
                pending.append(i)
                continue
            if mode != "tail" and not results[i][3]:
                ty = self.unify(ty, results[i][2], "branch types")
        for i in pending:
            if ty is None or not self.concrete(ty):
                raise NeedType("cannot infer the type of a branch")
            results[i] = run(i, ty)
            if not results[i][3]:
                ty = self.unify(ty, results[i][2], "branch types")
        alldiv = all(r[3] for r in results)
        if mode == "stmt":
            for r in results:
                if not r[3] and r[2] is not None and r[2][0] not in ("unit", "never"):
                    if not (is_flex(r[2])):
                        raise Unsupported("statement-level branch with a value of type %s" % tystr(r[2]))
        # pure form
        if mode == "value" and not M and not alldiv and all((not r[0]) and (not r[3]) for r in results) \
                and all(not b.get("pre") for b in branches) and ty is not None and ty[0] != "unit":
            if shape[0] == "chain":
                term = ""
                for b, r in zip(branches, results):
                    if b["cond"] is not None:
                        if b["cl"]:
                            break
                        term += "if %s then %s else " % (b["cond"], r[1])
                    else:
                        term += r[1]
                else:
                    return pre_lines, "(" + term + ")", ty, False
            elif shape[0] == "match":
                term = "(match %s with" % ", ".join(shape[1])
                for b, r in zip(branches, results):
                    term += " | %s => %s" % (b["pat"], r[1])
                return pre_lines, term + ")", ty, False
        # monadic form
        blines = []
        for b, r in zip(branches, results):
            l = list(b.get("pre", [])) + list(r[0])
            if mode != "tail" and not r[3]:
                l.append("pure %s" % self.pack(r[1] if (ty is None or ty[0] != "unit") else "()", M))
            blines.append(l)
        if shape[0] == "chain":
            def chain(i):
                b = branches[i]
                out = ["if %s then do" % b["cond"]] + ind(blines[i])
                nb = branches[i + 1]
                if nb["cond"] is None:
                    out += ["else do"] + ind(blines[i + 1])
                elif not nb["cl"]:
                    sub = chain(i + 1)
                    out += ["else " + sub[0]] + sub[1:]
                else:
                    out += ["else do"] + ind(nb["cl"] + chain(i + 1))
                return out
            body = chain(0)
        elif shape[0] == "match":
            body = ["match %s with" % ", ".join(shape[1])]
            for b, l in zip(branches, blines):
                body += ["| %s => do" % b["pat"]] + ind(l)
        else:
            body = ["do"] + ind(blines[0])
        if mode == "tail":
            return pre_lines + body, None, ("never",), True
        unit = ty is None or ty[0] in ("unit", "never") or alldiv
        if unit and not M:
            body[0] = "(" + body[0]
            body[-1] = body[-1] + ")"
            return pre_lines + body, "()", ("never",) if alldiv else ("unit",), alldiv
        if unit:
            pat = self.pack("()", M)
            term = "()"
        else:
            term = self.fresh()
            pat = self.pack(term, M)
        body[-1] = body[-1] + ")"
        return pre_lines + ["let %s ← (" % pat] + ind(body), term, ("never",) if alldiv else ty, alldiv

    # -- whole function
    def translate(self):
        p = self.body_parser
        body = p.parse_block()
        if p.peek().k != "eof":
            raise Unsupported("tokens after the function body")
        self.scopes = []
        self.push()
        params = []
        for n, t in self.params:
            if n == "self":
                t = self.resolve(t)
            self.bind(n, t)
            if t == ("writer",):
                params.append("(%s : Bytes)" % lname(n))
            else:
                params.append("(%s : %s)" % (lname(n), lean_type(t, self.w)))
        if self.ret[0] == "res" and self.ret[1][0] == "res":
            raise Unsupported("nested Result")
        lines, _, _, _ = self.tr_block(body, "tail", None)
        head = "def %s %s: Res %s := Ctl.run do" % (self.lean_name(), "".join(x + " " for x in params), self.lean_ret())
        return [head] + ind(lines)


# ----------------------------------------------------------------------------- driver

HEADER = """-- GENERATED by tools/rs2lean.py from the Rust sources of the crate (src/*.rs); do not edit.
-- One block per translated declaration.  The meaning of every `Rs.*` / `Ctl.*` name is in
-- JsonbModel/RustPrelude.lean (+ RustPreludeFloat.lean); the agreement theorems are in Proofs/TranslatedAgree*.lean.
import JsonbModel.RustPrelude
import JsonbModel.RustPreludeFloat

namespace Jsonb.Tr
open Jsonb.Rs (Ctl)
"""
FOOTER = "end Jsonb.Tr\n"

BLOCK_RE = re.compile(r"^-- BEGIN (.*?)\n(.*?)^-- END \1\n", re.S | re.M)


def emit_type(world, file, kind, name):
    hits = world.find(file, kind, name)
    if not hits:
        if file in world.file_errors:
            raise Unsupported("cannot read %s: %s" % (file, world.file_errors[file]))
        return None
    if len(hits) > 1:
        raise Unsupported("declared more than once")
    if kind == "struct":
        fields = parse_struct(hits[0])
        for _, t in fields:
            if t[0] not in ("int", "bool", "f64"):
                raise Unsupported("field type %s" % tystr(t))
        world.structs[name] = fields
        lines = ["structure %s where" % name]
        for f, t in fields:
            lines.append("  %s : %s" % (lname(f), lean_type(t, world)))
        lines.append("  deriving Repr, DecidableEq")
        return lines
    variants = parse_enum(hits[0])
    for _, tys in variants:
        for t in tys:
            if t[0] not in ("int", "bool", "f64"):
                raise Unsupported("payload type %s" % tystr(t))
    world.enums[name] = variants
    lines = ["inductive %s where" % name]
    for v, tys in variants:
        lines.append("  | %s%s" % (lname(v), "".join(" (a%d : %s)" % (i, lean_type(t, world)) for i, t in enumerate(tys))))
    lines.append("  deriving Repr, DecidableEq")
    return lines


def generate(repo, prev_text):
    world = World(repo)
    world.load_consts()
    status = {}
    blocks = []          # (key, lines or None)
    prev = {m.group(1): m.group(2) for m in BLOCK_RE.finditer(prev_text or "")}
    for file, kind, name in TYPES:
        key = "%s::%s %s" % (file, kind, name)
        try:
            lines = emit_type(world, file, kind, name)
            if lines is None:
                status[key] = "missing"
            else:
                status[key] = "translated"
        except Unsupported as e:
            lines = None
            status[key] = "unsupported: %s" % e
        except Exception as e:
            lines = None
            status[key] = "unsupported: translator error (%s: %s)" % (type(e).__name__, e)
        blocks.append((key, lines))
    # signatures first (calls between translated functions), then bodies
    trs = {}
    for file, impl, trait, name in FUNCS:
        key = key_of(file, impl, name)
        hits = world.find(file, "fn", name, impl, trait)
        if not hits:
            status[key] = ("unsupported: cannot read %s: %s" % (file, world.file_errors[file])) if file in world.file_errors else "missing"
            continue
        if len(hits) > 1:
            status[key] = "unsupported: defined more than once"
            continue
        try:
            tr = FnTr(world, file, impl, trait, name, hits[0])
            for _, t in tr.params:
                if t != ("writer",):
                    lean_type(tr.resolve(t), world)
            lean_type(tr.ret_value_type(), world)
            trs[key] = tr
            world.sigs[(file, impl, name)] = dict(params=[(n, tr.resolve(t)) for n, t in tr.params], ret=tr.ret,
                                            lean=tr.lean_name(), writer=tr.writer)
        except Unsupported as e:
            status[key] = "unsupported: %s" % e
        except Exception as e:           # a bug in this tool must not take the whole run down
            status[key] = "unsupported: translator error (%s: %s)" % (type(e).__name__, e)
    for file, impl, trait, name in FUNCS:
        key = key_of(file, impl, name)
        lines = None
        if key in trs:
            try:
                lines = trs[key].translate()
                status[key] = "translated"
            except Unsupported as e:
                status[key] = "unsupported: %s" % e
            except RecursionError:
                status[key] = "unsupported: expression too deeply nested"
            except Exception as e:
                lines = None
                status[key] = "unsupported: translator error (%s: %s)" % (type(e).__name__, e)
        blocks.append((key, lines))
    out = [HEADER]
    ok = True
    for key, lines in blocks:
        out.append("-- BEGIN %s\n" % key)
        if lines is not None:
            out.append("\n".join(lines) + "\n")
        else:
            ok = False
            if key in prev:
                out.append(prev[key])
                status[key] += " (kept the previously generated block)"
            else:
                out.append("-- (no translation available)\n")
        out.append("-- END %s\n\n" % key)
    out.append(FOOTER)
    return "".join(out), status, ok


def main(argv):
    to_stdout = "--stdout" in argv
    try:
        prev_text = open(PREV, encoding="utf-8").read()
    except OSError:
        prev_text = ""
    text, status, ok = generate(REPO, prev_text)
    changed = False
    if to_stdout:
        sys.stdout.write(text)
        return 0
    try:
        old = open(OUT, encoding="utf-8").read()
    except OSError:
        old = None
    if old != text:
        changed = True
        os.makedirs(os.path.dirname(OUT), exist_ok=True)
        tmp_out = OUT + ".tmp%d" % os.getpid()
        with open(tmp_out, "w", encoding="utf-8") as f:
            f.write(text)
        os.replace(tmp_out, OUT)
    print(json.dumps({"ok": ok, "functions": status, "changed": changed}))
    return 0


if __name__ == "__main__":
    sys.exit(main(sys.argv[1:]))
