#!/usr/bin/env python3
"""Self-test of the phase-5b Rust -> Lean translator (tools/rs2lean5b.py: the recursive relational functions of
functions.rs - `compare`, `convert_to_comparable` and their groups) and of its agreement theorems
(lean/JsonbModel/Proofs/TranslatedAgreeF*.lean).  Same three questions as the self-tests of phases 1-4:

  (a) robustness: re-formatting the source leaves the generated Lean text byte-identical; a change
      that leaves the subset keeps the committed block and says so;
  (b) sensitivity: each small LOGIC mutation of a target function (wrong tag, missing length, wrong
      offset, entry not patched, loops / operands swapped, inverted test, wrong error, ...), applied one at a
      time, changes the generated text and makes an agreement proof FAIL, while the unmutated source PASSES;
  (c) tolerance: harmless re-spellings are still proved.

Works on a copy of $VERIF_REPO/src (default /repo) in a temporary directory under /tmp; Lean runs on
scratch files in a second temporary directory (nothing under lean/ is written).  The Lean project
is $RS2LEAN5B_LEAN (default <verif>/lean); its `JsonbModel.Proofs.TranslatedAgreeF` must be built.
Python 3 stdlib only.  Exit code 0 iff everything behaved as expected."""
import concurrent.futures, json, os, re, shutil, subprocess, sys, tempfile, time

HERE = os.path.dirname(os.path.abspath(__file__))
VERIF = os.path.normpath(os.path.join(HERE, ".."))
LEAN = os.environ.get("RS2LEAN5B_LEAN", os.path.join(VERIF, "lean"))
REPO = os.environ.get("VERIF_REPO", "/repo")
TOOL = os.path.join(HERE, "rs2lean5b.py")
JOBS = int(os.environ.get("RS2LEAN_SELFTEST_JOBS", "4"))
COMMITTED = os.path.join(LEAN, "JsonbModel", "Generated", "Translated5b.lean")

sys.path.insert(0, HERE)
import rs2lean  # noqa: E402
import rs2lean2  # noqa: E402
import rs2lean3  # noqa: E402
import rs2lean4  # noqa: E402
import rs2lean5b  # noqa: E402
from rs2lean_selftest import reformat_variants, mutate  # noqa: E402

PARTS = {}
for _f in sorted(os.listdir(os.path.join(LEAN, "JsonbModel", "Proofs"))):
    _m = re.fullmatch(r"TranslatedAgreeF(\d+)\.lean", _f)
    if _m:
        PARTS[int(_m.group(1))] = _f

F = "src/functions.rs"
CMP = [9]                   # the compare family (needs 1-8)
ENC = [10]                  # ... on encoded documents
KEY = [17]                  # the convert_to_comparable family (needs 1-16)
CON = [21]                  # the containment family (needs 1-20)
NUM = "src/number.rs"

CA_HEAD = ("    let mut jentry_offset = 0;\n    let mut left_val_offset = 4 * left_length;\n"
           "    let mut right_val_offset = 4 * right_length;\n")
CA_MIN = ("    let length = if left_length <= right_length {\n        left_length\n    } else {\n        right_length\n    };\n"
          "    for _ in 0..length {\n        let left_encoded = read_u32(left, jentry_offset)?;")
CO_KEYCHK = "        if key_order != Ordering::Equal {\n            return Ok(key_order);\n        }\n"
AC_HEAD = ("fn array_convert_to_comparable(depth: u8, length: usize, value: &[u8], buf: &mut Vec<u8>) {\n"
           "    let mut jentry_offset = 0;\n    let mut val_offset = 4 * length;\n")

# (id, file, old text, new text, which occurrence (0-based), agreement parts to check, theorem expected to fail)
MUTATIONS = [
    # compare_scalar
    ("cs-levels-compared-backwards", F, "        return Ok(left_level.cmp(&right_level));", "        return Ok(right_level.cmp(&left_level));", 0, CMP, "compare_scalar_step"),
    ("cs-true-true-less", F, "        (TRUE_TAG, TRUE_TAG) => Ok(Ordering::Equal),", "        (TRUE_TAG, TRUE_TAG) => Ok(Ordering::Less),", 0, CMP, "compare_scalar_step"),
    ("cs-right-string-left-length", F, "            let right_offset = right_jentry.length as usize;\n            let right_str", "            let right_offset = left_jentry.length as usize;\n            let right_str", 0, CMP, "compare_scalar_step"),
    ("cs-numbers-compared-backwards", F, "            Ok(left_num.cmp(&right_num))", "            Ok(right_num.cmp(&left_num))", 0, CMP, "compare_scalar_step"),
    ("cs-strings-as-numbers", F, "        (STRING_TAG, STRING_TAG) => {\n            let left_offset = left_jentry.length as usize;\n            let left_str", "        (STRING_TAG, NUMBER_TAG) => {\n            let left_offset = left_jentry.length as usize;\n            let left_str", 0, CMP, "compare_scalar_step"),
    # compare_container
    ("cc-array-below-object", F, "        (ARRAY_CONTAINER_TAG, OBJECT_CONTAINER_TAG) => Ok(Ordering::Greater),", "        (ARRAY_CONTAINER_TAG, OBJECT_CONTAINER_TAG) => Ok(Ordering::Less),", 1, CMP, "compare_container_step"),
    ("cc-payload-from-0", F, "            compare_array(left_header, &left[4..], right_header, &right[4..])", "            compare_array(left_header, &left[0..], right_header, &right[4..])", 1, CMP, "compare_container_step"),
    # compare_array
    ("ca-values-after-8n", F, CA_HEAD, CA_HEAD.replace("left_val_offset = 4 * left_length", "left_val_offset = 8 * left_length"), 0, CMP, "compare_array_step"),
    ("ca-entry-offset-8", F, "        jentry_offset += 4;\n\n        left_val_offset += left_jentry.length as usize;", "        jentry_offset += 8;\n\n        left_val_offset += left_jentry.length as usize;", 0, CMP, "ca_loop1_step"),
    ("ca-right-value-not-advanced", F, "        left_val_offset += left_jentry.length as usize;\n        right_val_offset += right_jentry.length as usize;\n", "        left_val_offset += left_jentry.length as usize;\n", 0, CMP, "ca_loop1_step"),
    ("ca-longer-length", F, CA_MIN, CA_MIN.replace("        left_length\n    } else {\n        right_length\n", "        right_length\n    } else {\n        left_length\n"), 0, CMP, "compare_array_step"),
    ("ca-unequal-element-ignored", F, "        if order != Ordering::Equal {\n            return Ok(order);\n        }\n", "", 0, CMP, "ca_loop1_step"),
    # compare_object
    ("co-keys-after-4n", F, "    let mut left_key_offset = 8 * left_length;", "    let mut left_key_offset = 4 * left_length;", 0, CMP, "compare_object_step"),
    ("co-key-loop-no-value-advance", F, "        left_val_offset += left_key_jentry.length as usize;\n", "", 0, CMP, "co_loop1_step"),
    ("co-key-order-ignored", F, CO_KEYCHK, "", 0, CMP, "co_loop3_step"),
    ("co-value-not-advanced", F, "        left_val_offset += left_val_jentry.length as usize;\n", "", 0, CMP, "co_loop3_step"),
    ("co-key-not-advanced", F, "        left_key_offset += left_key_jentry.length as usize;\n", "", 0, CMP, "co_loop3_step"),
    ("co-right-value-from-key-offset", F, "            &right_val_jentry,\n            &right[right_val_offset..],", "            &right_val_jentry,\n            &right[right_key_offset..],", 0, CMP, "co_loop3_step"),
    # compare
    ("cmp-null-below-containers", F, "                NULL_TAG => Ok(Ordering::Greater),\n                _ => Ok(Ordering::Less),", "                NULL_TAG => Ok(Ordering::Less),\n                _ => Ok(Ordering::Greater),", 0, CMP, "compare_jsonb_agrees"),
    ("cmp-scalar-payload-from-4", F, "            compare_scalar(&left_jentry, &left[8..], &right_jentry, &right[8..])", "            compare_scalar(&left_jentry, &left[4..], &right_jentry, &right[8..])", 0, CMP, "compare_jsonb_agrees"),
    ("cmp-sniff-or", F, "    if !is_jsonb(left) && !is_jsonb(right) {\n        let lres = parse_value(left);", "    if !is_jsonb(left) || !is_jsonb(right) {\n        let lres = parse_value(left);", 0, CMP, "compare_text_agrees"),
    ("cmp-object-above-array", F, "        (OBJECT_CONTAINER_TAG, ARRAY_CONTAINER_TAG) => Ok(Ordering::Less),", "        (OBJECT_CONTAINER_TAG, ARRAY_CONTAINER_TAG) => Ok(Ordering::Greater),", 0, CMP, "compare_jsonb_agrees"),
    # scalar_convert_to_comparable
    ("sc-depth-plus-one", F, "                    array_convert_to_comparable(depth.saturating_add(1), length, &value[4..], buf);", "                    array_convert_to_comparable(depth + 1, length, &value[4..], buf);", 0, KEY, "scalar_key_step"),
    ("sc-object-with-array-level", F, "                    buf.push(OBJECT_LEVEL);\n                    object_convert_to_comparable(depth.saturating_add(1)", "                    buf.push(ARRAY_LEVEL);\n                    object_convert_to_comparable(depth.saturating_add(1)", 0, KEY, "scalar_key_step"),
    ("sc-sign-byte-not-toggled", F, "                        b[0] ^= 0x80;\n", "", 0, KEY, "scalar_key_step"),
    ("sc-shift-62", F, "let v = s ^ (((s >> 63) as u64) >> 1) as i64;", "let v = s ^ (((s >> 62) as u64) >> 1) as i64;", 0, KEY, "scalar_key_step"),
    ("sc-mask-keeps-sign", F, "let v = s ^ (((s >> 63) as u64) >> 1) as i64;", "let v = s ^ ((s >> 63) as u64) as i64;", 0, KEY, "scalar_key_step"),
    ("sc-level-byte-missing", F, "        _ => {\n            buf.push(level);\n            match jentry.type_code {", "        _ => {\n            match jentry.type_code {", 0, KEY, "scalar_key_step"),
    ("sc-string-tag-number", F, "                STRING_TAG => {\n                    let length = jentry.length as usize;\n                    buf.extend_from_slice(&value[..length]);", "                TRUE_TAG => {\n                    let length = jentry.length as usize;\n                    buf.extend_from_slice(&value[..length]);", 0, KEY, "scalar_key_step"),
    # array_ / object_convert_to_comparable
    ("ac-values-after-8n", F, AC_HEAD, AC_HEAD.replace("4 * length", "8 * length"), 0, KEY, "array_key_step"),
    ("ac-value-not-advanced", F, "        jentry_offset += 4;\n        val_offset += jentry.length as usize;\n    }\n}\n", "        jentry_offset += 4;\n    }\n}\n", 0, KEY, "ka_loop1_step"),
    ("oc-key-not-advanced", F, "        jentry_offset += 4;\n        key_offset += key_jentry.length as usize;\n        val_offset += val_jentry.length as usize;\n", "        jentry_offset += 4;\n        val_offset += val_jentry.length as usize;\n", 0, KEY, "ko_loop2_step"),
    ("oc-value-key-swapped", F, "        scalar_convert_to_comparable(depth, &val_jentry, &value[val_offset..], buf);", "        scalar_convert_to_comparable(depth, &val_jentry, &value[key_offset..], buf);", 0, KEY, "ko_loop2_step"),
    ("oc-keys-after-4n", F, "    let mut key_offset = 8 * length;", "    let mut key_offset = 4 * length;", 0, KEY, "object_key_step"),
    # convert_to_comparable
    ("ctc-array-depth-0", F, "            array_convert_to_comparable(depth + 1, length, &value[4..], buf);", "            array_convert_to_comparable(depth, length, &value[4..], buf);", 0, KEY, "convert_to_comparable_jsonb_agrees"),
    ("ctc-scalar-payload-from-4", F, "            scalar_convert_to_comparable(depth, &jentry, &value[8..], buf);", "            scalar_convert_to_comparable(depth, &jentry, &value[4..], buf);", 0, KEY, "convert_to_comparable_jsonb_agrees"),
    ("ctc-object-level-array", F, "            buf.push(depth);\n            buf.push(OBJECT_LEVEL);", "            buf.push(depth);\n            buf.push(ARRAY_LEVEL);", 0, KEY, "convert_to_comparable_jsonb_agrees"),
    # Number::eq, scalar_eq, array_contains
    ("neq-less-is-equal", NUM, "        self.cmp(other) == Ordering::Equal", "        self.cmp(other) == Ordering::Less", 0, CON, "number_eq_agrees"),
    ("se-strings-decoded", F, "    if type_code == NUMBER_TAG {\n        match (Number::decode(left), Number::decode(right)) {", "    if type_code == STRING_TAG {\n        match (Number::decode(left), Number::decode(right)) {", 0, CON, "scalar_eq_agrees"),
    ("se-numbers-unequal", F, "            (Ok(l), Ok(r)) => l == r,", "            (Ok(l), Ok(r)) => l != r,", 0, CON, "scalar_eq_agrees"),
    ("se-undecodable-equal", F, "            (Ok(l), Ok(r)) => l == r,\n            _ => false,", "            (Ok(l), Ok(r)) => l == r,\n            _ => true,", 0, CON, "scalar_eq_agrees"),
    ("ac-type-check-dropped", F, "        if jentry.type_code != val_jentry.type_code {\n            continue;\n        }\n", "", 0, CON, "ac_loop1_step"),
    ("ac-match-answers-false", F, "        if scalar_eq(jentry.type_code, arr_val, val) {\n            return true;", "        if scalar_eq(jentry.type_code, arr_val, val) {\n            return false;", 0, CON, "ac_loop1_step"),
    # contains_jsonb, contains
    ("cj-scalar-payload-from-4", F, "        return Ok(array_contains(left, l_header, &right[8..], r_jentry));", "        return Ok(array_contains(left, l_header, &right[4..], r_jentry));", 0, CON, "contains_jsonb_step"),
    ("cj-size-test-inverted", F, "            if l_size < r_size {\n                return Ok(false);", "            if l_size > r_size {\n                return Ok(false);", 0, CON, "contains_jsonb_step"),
    ("cj-kind-mismatch-true", F, "    if l_type != r_type {\n        return Ok(false);", "    if l_type != r_type {\n        return Ok(true);", 0, CON, "contains_jsonb_step"),
    ("cj-missing-member-true", F, "                    None => return Ok(false),", "                    None => return Ok(true),", 0, CON, "cj_loop1_step"),
    ("cj-member-type-ignored", F, "                        if l_jentry.type_code != r_jentry.type_code {\n                            return Ok(false);\n                        }\n", "", 0, CON, "cj_loop1_step"),
    ("cj-member-value-from-0", F, "                        let l_val = &left[l_val_offset..l_val_offset + l_jentry.length as usize];", "                        let l_val = &left[0..l_val_offset + l_jentry.length as usize];", 0, CON, "cj_loop1_step"),
    ("cj-nested-scalars-searched", F, "                        .filter(|(l_jentry, _)| l_jentry.type_code == CONTAINER_TAG)", "                        .filter(|(l_jentry, _)| l_jentry.type_code != CONTAINER_TAG)", 0, CON, "cj_loop3_step"),
    ("cj-nested-no-break", F, "                            contains_nested = true;\n                            break;", "                            contains_nested = true;", 1, CON, "cj_loop2_step"),
    ("cj-nested-result-ignored", F, "                    if !contains_nested {\n                        return Ok(false);\n                    }\n", "", 0, CON, "cj_loop3_step"),
    ("cj-scalar-types-differ", F, "            Ok(l_jentry.type_code == r_jentry.type_code\n                && scalar_eq(", "            Ok(l_jentry.type_code != r_jentry.type_code\n                && scalar_eq(", 0, CON, "contains_jsonb_step"),
    ("ct-error-is-true", F, "    contains_jsonb(left, right).unwrap_or(false)", "    contains_jsonb(left, right).unwrap_or(true)", 0, CON, "contains_jsonb_doc_agrees"),
    ("ct-sniff-and", F, "    if !is_jsonb(left) || !is_jsonb(right) {\n        return match (from_slice(left), from_slice(right)) {", "    if !is_jsonb(left) && !is_jsonb(right) {\n        return match (from_slice(left), from_slice(right)) {", 0, CON, "contains_text_agrees"),
]

# harmless re-spellings: different generated text, same logic -> the proofs must still go through
RESPELLINGS = [
    ("ca-offset-commuted", F, CA_HEAD, CA_HEAD.replace("left_val_offset = 4 * left_length", "left_val_offset = left_length * 4"), 0, CMP),
    ("cs-level-test-flipped", F, "    if left_level != right_level {", "    if right_level != left_level {", 0, CMP),
    ("ca-entry-offset-explicit-sum", F, "        jentry_offset += 4;\n\n        left_val_offset += left_jentry.length as usize;", "        jentry_offset = jentry_offset + 4;\n\n        left_val_offset += left_jentry.length as usize;", 0, CMP),
    ("ca-min-test-flipped", F, CA_MIN, CA_MIN.replace("if left_length <= right_length {", "if right_length >= left_length {"), 0, CMP),
    ("co-key-offset-commuted", F, "    let mut left_key_offset = 8 * left_length;", "    let mut left_key_offset = left_length * 8;", 0, CMP),
    ("cs-explicit-return", F, "        (FALSE_TAG, FALSE_TAG) => Ok(Ordering::Equal),", "        (FALSE_TAG, FALSE_TAG) => {\n            return Ok(Ordering::Equal);\n        }", 0, CMP),
    ("ac-offset-commuted", F, AC_HEAD, AC_HEAD.replace("4 * length", "length * 4"), 0, KEY),
    ("oc-key-offset-commuted", F, "    let mut key_offset = 8 * length;", "    let mut key_offset = length * 8;", 0, KEY),
    ("sc-mask-spelled-hex", F, "                        b[0] ^= 0x80;\n", "                        b[0] ^= 128;\n", 0, KEY),
    ("cj-size-test-flipped", F, "            if l_size < r_size {\n                return Ok(false);", "            if r_size > l_size {\n                return Ok(false);", 0, CON),
    ("cj-kind-test-flipped", F, "    if l_type != r_type {\n        return Ok(false);", "    if r_type != l_type {\n        return Ok(false);", 0, CON),
    ("cj-container-test-flipped", F, "                        if r_jentry.type_code != CONTAINER_TAG {", "                        if CONTAINER_TAG != r_jentry.type_code {", 0, CON),
    ("ac-type-test-flipped", F, "        if jentry.type_code != val_jentry.type_code {\n            continue;", "        if val_jentry.type_code != jentry.type_code {\n            continue;", 0, CON),
]

# changes that leave the subset / remove a target: the tool must say so and keep the committed block
RETENTION = [
    ("out-of-subset-wrapping-add", F, "                    array_convert_to_comparable(depth.saturating_add(1), length, &value[4..], buf);", "                    array_convert_to_comparable(depth.wrapping_add(1), length, &value[4..], buf);", 0,
     "src/functions.rs::scalar_convert_to_comparable", "unsupported"),
    ("renamed-away", F, "fn compare_array(\n", "fn compare_arr(\n", 0,
     "src/functions.rs::compare_array", "missing"),
    ("out-of-subset-skip", F, "                    let l_nested: Vec<_> = iterate_array(left, l_header)\n                        .filter", "                    let l_nested: Vec<_> = iterate_array(left, l_header)\n                        .skip(1)\n                        .filter", 0,
     "src/functions.rs::contains_jsonb", "unsupported"),
    ("out-of-subset-text-chain", F, "    } else if !is_jsonb(right) {\n        match parse_value(right) {", "    } else if right.is_empty() {\n        match parse_value(right) {", 0,
     "src/functions.rs::compare", "unsupported"),
]


def run_tool(src_root, out_path):
    """-> (generated text, status dict)"""
    env = dict(os.environ, VERIF_REPO=src_root, RS2LEAN5B_OUT=out_path, RS2LEAN5B_PREV=COMMITTED)
    if os.path.exists(out_path):
        os.remove(out_path)
    r = subprocess.run([sys.executable, TOOL], env=env, capture_output=True, text=True)
    if r.returncode != 0:
        raise RuntimeError("rs2lean5b.py crashed: " + r.stderr[-2000:])
    status = json.loads(r.stdout.strip().splitlines()[-1])
    r2 = subprocess.run([sys.executable, TOOL, "--stdout"], env=env, capture_output=True, text=True)
    if r2.returncode != 0:
        raise RuntimeError("rs2lean5b.py --stdout crashed: " + r2.stderr[-2000:])
    text = open(out_path, encoding="utf-8").read()
    if text != r2.stdout:
        raise RuntimeError("--stdout and the written file differ")
    return text, status


def scratch_lean(scratch, generated, parts, name):
    """one self-contained Lean file: generated definitions + the agreement parts"""
    imports, bodies = [], []
    texts = [generated] + [open(os.path.join(LEAN, "JsonbModel", "Proofs", PARTS[p]), encoding="utf-8").read() for p in parts]
    for t in texts:
        body = []
        for line in t.splitlines():
            m = re.match(r"import\s+(\S+)", line)
            if m:
                mod = m.group(1)
                if mod == "JsonbModel.Generated.Translated5b" or re.fullmatch(r"JsonbModel\.Proofs\.TranslatedAgreeF\d*", mod):
                    continue
                if mod not in imports:
                    imports.append(mod)
            else:
                body.append(line)
        bodies.append("\n".join(body))
    path = os.path.join(scratch, name + ".lean")
    with open(path, "w", encoding="utf-8") as f:
        f.write("\n".join("import " + m for m in imports) + "\n\n" + "\n\n".join(bodies) + "\n")
    return path


def lean_check(path):
    """-> (ok, first failing theorem or None, seconds)"""
    t0 = time.time()
    r = subprocess.run(["lake", "env", "lean", path], cwd=LEAN, capture_output=True, text=True)
    out = r.stdout + r.stderr
    dt = time.time() - t0
    errs = [int(m.group(1)) for m in re.finditer(r"^[^\n:]+:(\d+):\d+: error", out, re.M)]
    if r.returncode == 0 and not errs:
        return True, None, dt
    first = None
    if errs:
        lines = open(path, encoding="utf-8").read().splitlines()
        for ln in range(min(errs) - 1, -1, -1):
            m = re.match(r"\s*(?:theorem|def|instance)\s+(\S+)", lines[ln] if ln < len(lines) else "")
            if m:
                first = m.group(1)
                break
    return False, first or "(lean failed: %s)" % (out.strip().splitlines() or ["?"])[-1][:80], dt


def all_parts(parts):
    """a part needs the parts before it that it imports"""
    need = set()
    for p in parts:
        need.add(p)
        text = open(os.path.join(LEAN, "JsonbModel", "Proofs", PARTS[p]), encoding="utf-8").read()
        for m in re.finditer(r"^import JsonbModel\.Proofs\.TranslatedAgreeF(\d+)", text, re.M):
            need |= set(all_parts([int(m.group(1))]))
    return sorted(need)


def main():
    only = [a for a in sys.argv[1:] if not a.startswith("-")]
    t_start = time.time()
    tmp = tempfile.mkdtemp(prefix="rs2lean5b_selftest_src_", dir="/tmp")
    scratch = tempfile.mkdtemp(prefix="rs2lean5b_selftest_lean_", dir="/tmp")
    failures, rows = [], []
    have_parts = sorted(PARTS)
    try:
        shutil.copytree(os.path.join(REPO, "src"), os.path.join(tmp, "src"))
        out = os.path.join(scratch, "Translated5b.out.lean")
        base, status = run_tool(tmp, out)
        bad = {k: v for k, v in status["functions"].items() if v != "translated"}
        if bad:
            failures.append("baseline: not everything translated: %s" % bad)
        committed = open(COMMITTED, encoding="utf-8").read()
        rows.append(("baseline", "generated == committed Translated5b.lean", "yes" if committed == base else "NO", ""))
        if committed != base:
            failures.append("baseline: generated text differs from the committed Generated/Translated5b.lean")

        # (a) formatting robustness
        files = sorted(set(f[0] for f in rs2lean5b.FUNCS5B) | set(f[0] for f in rs2lean4.FUNCS4) | {"src/builder.rs", "src/iterator.rs", "src/jentry.rs"}
                       | set(f[0] for f in rs2lean3.FUNCS3) | set(f for f, _, _ in rs2lean3.TYPES3)
                       | set(f for f, _, _, _, _ in rs2lean2.FUNCS2) | set(f for f, _, _ in rs2lean2.TYPES2)
                       | set(f for f, _, _, _ in rs2lean.FUNCS) | set(f for f, _, _ in rs2lean.TYPES)
                       | {"src/constants.rs", "src/error.rs"})
        originals = {f: open(os.path.join(tmp, f), encoding="utf-8").read() for f in files}
        if not only:
            for vi in range(3):
                name = None
                for f in files:
                    name, text = reformat_variants(originals[f])[vi]
                    open(os.path.join(tmp, f), "w", encoding="utf-8", newline="").write(text)
                text, st = run_tool(tmp, out)
                same = text == base
                rows.append(("format", name, "identical" if same else "DIFFERENT", ""))
                if not same:
                    failures.append("format variant %s changed the output" % name)
                for f in files:
                    open(os.path.join(tmp, f), "w", encoding="utf-8").write(originals[f])

            # (a') retention of committed blocks
            for mid, file, old, new, occ, key, want in RETENTION:
                saved = mutate(tmp, file, old, new, occ)
                try:
                    text, st = run_tool(tmp, out)
                finally:
                    open(os.path.join(tmp, file), "w", encoding="utf-8").write(saved)
                got = st["functions"].get(key, "?")
                good = got.startswith(want) and text == base and st["ok"] is False
                rows.append(("retention", mid, ("%s, committed block kept" % want) if good else "WRONG: %s" % got[:70], ""))
                if not good:
                    failures.append("retention %s: status %r, text identical: %s" % (mid, got, text == base))

        jobs = []     # (kind, id, path, expected_ok, expected_theorem)
        if not only:
            jobs.append(("baseline", "unmutated", scratch_lean(scratch, base, have_parts, "base"), True, None))
        for kind, table in (("mutation", MUTATIONS), ("respelling", RESPELLINGS)):
            for row in table:
                mid, file, old, new, occ, parts = row[:6]
                if only and mid not in only:
                    continue
                expect = row[6] if kind == "mutation" else None
                if any(p not in have_parts for p in parts):
                    rows.append((kind, mid, "SKIPPED (part missing)", ""))
                    continue
                saved = mutate(tmp, file, old, new, occ)
                try:
                    text, st = run_tool(tmp, out)
                finally:
                    open(os.path.join(tmp, file), "w", encoding="utf-8").write(saved)
                nb = {k: v for k, v in st["functions"].items() if v != "translated"}
                if nb:
                    if kind == "mutation" and expect is None:
                        rows.append((kind, mid, "leaves the subset (reported, block kept)", ""))
                        continue
                    rows.append((kind, mid, "UNSUPPORTED", str(nb)[:100]))
                    failures.append("%s %s left the subset: %s" % (kind, mid, nb))
                    continue
                if text == base:
                    if kind == "respelling":
                        rows.append((kind, mid, "generated text identical (nothing to re-prove)", ""))
                        continue
                    rows.append((kind, mid, "NO CHANGE in generated text", ""))
                    failures.append("%s %s did not change the generated text" % (kind, mid))
                    continue
                jobs.append((kind, mid, scratch_lean(scratch, text, all_parts(parts), mid), kind == "respelling", expect))

        with concurrent.futures.ThreadPoolExecutor(max_workers=JOBS) as ex:
            results = list(ex.map(lambda j: lean_check(j[2]), jobs))
        for (kind, mid, path, exp_ok, exp_thm), (ok, thm, dt) in zip(jobs, results):
            if exp_ok:
                verdict = "proofs PASS" if ok else "proofs FAIL at %s" % thm
                if not ok:
                    failures.append("%s %s: expected the agreement proofs to pass, failed at %s" % (kind, mid, thm))
            else:
                verdict = ("proof FAILS at %s" % thm) if not ok else "NOT DETECTED (proofs pass)"
                if ok:
                    failures.append("mutation %s was not detected" % mid)
                elif exp_thm and thm != exp_thm:
                    verdict += " (expected %s)" % exp_thm
            rows.append((kind, mid, verdict, "%.1fs" % dt))
    finally:
        shutil.rmtree(tmp, ignore_errors=True)
        if not os.environ.get("RS2LEAN5B_KEEP"):
            shutil.rmtree(scratch, ignore_errors=True)

    w1 = max(len(r[0]) for r in rows)
    w2 = max(len(r[1]) for r in rows)
    w3 = max(len(r[2]) for r in rows)
    print("%-*s  %-*s  %-*s  %s" % (w1, "kind", w2, "case", w3, "result", "time"))
    for r in rows:
        print("%-*s  %-*s  %-*s  %s" % (w1, r[0], w2, r[1], w3, r[2], r[3]))
    n_mut = sum(1 for r in rows if r[0] == "mutation" and not r[2].startswith("SKIPPED"))
    n_det = sum(1 for r in rows if r[0] == "mutation" and r[2].startswith("proof FAILS"))
    print("mutations detected: %d / %d; wall %.0fs" % (n_det, n_mut, time.time() - t_start))
    if failures:
        print("SELFTEST FAILED:")
        for f in failures:
            print("  - " + f)
        return 1
    print("SELFTEST OK")
    return 0


if __name__ == "__main__":
    sys.exit(main())
