#!/usr/bin/env python3
"""Self-test of the phase-4 Rust -> Lean translator (tools/rs2lean4.py: the builders of builder.rs, the
ObjectEntryIterator of iterator.rs, the byte-level editors of functions.rs) and of its agreement theorems
(lean/JsonbModel/Proofs/TranslatedAgreeD*.lean).  Same three questions as the self-tests of phases 1-3:

  (a) robustness: re-formatting the source leaves the generated Lean text byte-identical; a change
      that leaves the subset keeps the committed block and says so;
  (b) sensitivity: each small LOGIC mutation of a target function (wrong tag, missing length, wrong
      offset, entry not patched, loops / operands swapped, inverted test, wrong error, ...), applied one at a
      time, changes the generated text and makes an agreement proof FAIL, while the unmutated source PASSES;
  (c) tolerance: harmless re-spellings are still proved.

Works on a copy of $VERIF_REPO/src (default /repo) in a temporary directory under /tmp; Lean runs on
scratch files in a second temporary directory (nothing under lean/ is written).  The Lean project
is $RS2LEAN4_LEAN (default <verif>/lean); its `JsonbModel.Proofs.TranslatedAgreeD` must be built.
Python 3 stdlib only.  Exit code 0 iff everything behaved as expected."""
import concurrent.futures, json, os, re, shutil, subprocess, sys, tempfile, time

HERE = os.path.dirname(os.path.abspath(__file__))
VERIF = os.path.normpath(os.path.join(HERE, ".."))
LEAN = os.environ.get("RS2LEAN4_LEAN", os.path.join(VERIF, "lean"))
REPO = os.environ.get("VERIF_REPO", "/repo")
TOOL = os.path.join(HERE, "rs2lean4.py")
JOBS = int(os.environ.get("RS2LEAN_SELFTEST_JOBS", "4"))
COMMITTED = os.path.join(LEAN, "JsonbModel", "Generated", "Translated4.lean")

sys.path.insert(0, HERE)
import rs2lean  # noqa: E402
import rs2lean2  # noqa: E402
import rs2lean3  # noqa: E402
import rs2lean4  # noqa: E402
from rs2lean_selftest import reformat_variants, mutate  # noqa: E402

PARTS = {}
for _f in sorted(os.listdir(os.path.join(LEAN, "JsonbModel", "Proofs"))):
    _m = re.fullmatch(r"TranslatedAgreeD(\d+)\.lean", _f)
    if _m:
        PARTS[int(_m.group(1))] = _f

B = "src/builder.rs"
F = "src/functions.rs"
I = "src/iterator.rs"
BLD = [1, 2]                # the builder parts
DBI = [4]                   # delete_by_index (needs 1-3)
CAT = [7]                   # concat (needs 1-6)
DBN = [8]                   # delete_by_name
OBJ = [9]                   # object_delete / object_pick
INS = [10]                  # array_insert
OIN = [11]                  # object_insert
DIS = [11]                  # array_distinct
SET = [13]                  # array_intersection / array_except (needs 12)
ITER = [5]                  # ObjectEntryIterator

AB_LOOP = ("            let jentry = write_entry(buf, entry);\n"
           "            array_len += jentry.length as usize;\n"
           "            replace_jentry(buf, jentry, &mut jentry_index);\n")

# (id, file, old text, new text, which occurrence (0-based), agreement parts to check, theorem expected to fail)
MUTATIONS = [
    # builder.rs
    ("ab-header-object-tag", B, "let header = ARRAY_CONTAINER_TAG | self.entries.len() as u32;", "let header = OBJECT_CONTAINER_TAG | self.entries.len() as u32;", 0, BLD, "array_build_into_succ"),
    ("ab-header-count-u16", B, "let header = ARRAY_CONTAINER_TAG | self.entries.len() as u32;", "let header = ARRAY_CONTAINER_TAG | self.entries.len() as u16 as u32;", 0, BLD, "array_build_into_succ"),
    ("ab-len-without-header", B, "let mut array_len = 4 + self.entries.len() * 4;", "let mut array_len = self.entries.len() * 4;", 0, BLD, "array_build_into_succ"),
    ("ab-reserve-8", B, "let mut jentry_index = reserve_jentries(buf, self.entries.len() * 4);", "let mut jentry_index = reserve_jentries(buf, self.entries.len() * 8);", 0, BLD, "array_build_into_succ"),
    ("ab-len-not-accumulated", B, AB_LOOP, AB_LOOP.replace("            array_len += jentry.length as usize;\n", ""), 0, BLD, "ab_loop1_step"),
    ("ab-entry-not-patched", B, AB_LOOP, AB_LOOP.replace("replace_jentry(buf, jentry, &mut jentry_index);", "jentry_index += 4;"), 0, BLD, "ab_loop1_step"),
    ("ob-header-array-tag", B, "let header = OBJECT_CONTAINER_TAG | self.entries.len() as u32;", "let header = ARRAY_CONTAINER_TAG | self.entries.len() as u32;", 0, BLD, "object_build_into_succ"),
    ("ob-len-4-per-pair", B, "let mut object_len = 4 + self.entries.len() * 8;", "let mut object_len = 4 + self.entries.len() * 4;", 0, BLD, "object_build_into_succ"),
    ("ob-key-entry-number-tag", B, "let jentry = JEntry::make_string_jentry(key_len);", "let jentry = JEntry::make_number_jentry(key_len);", 0, BLD, "ob_loop1_step"),
    ("ob-key-bytes-not-written", B, "            buf.extend_from_slice(key.as_bytes());\n", "", 0, BLD, "ob_loop1_step"),
    ("ob-key-len-not-accumulated", B, "            object_len += key_len;\n", "", 0, BLD, "ob_loop1_step"),
    ("ob-value-len-not-accumulated", B, "            object_len += jentry.length as usize;\n", "", 0, BLD, "ob_loop2_step"),
    ("ob-loops-swapped", B,
     "        for (key, _) in self.entries.iter() {\n            let key_len = key.len();\n            object_len += key_len;\n            buf.extend_from_slice(key.as_bytes());\n            let jentry = JEntry::make_string_jentry(key_len);\n            replace_jentry(buf, jentry, &mut jentry_index)\n        }\n\n        for (_, entry) in self.entries.into_iter() {\n            let jentry = write_entry(buf, entry);\n            object_len += jentry.length as usize;\n            replace_jentry(buf, jentry, &mut jentry_index);\n        }\n",
     "        for (_, entry) in self.entries.iter() {\n            let jentry = write_entry(buf, entry);\n            object_len += jentry.length as usize;\n            replace_jentry(buf, jentry, &mut jentry_index);\n        }\n\n        for (key, _) in self.entries.into_iter() {\n            let key_len = key.len();\n            object_len += key_len;\n            buf.extend_from_slice(key.as_bytes());\n            let jentry = JEntry::make_string_jentry(key_len);\n            replace_jentry(buf, jentry, &mut jentry_index)\n        }\n",
     0, BLD, None),
    ("we-array-entry-string-tag", B, "            let size = builder.build_into(buf);\n            JEntry::make_container_jentry(size)", "            let size = builder.build_into(buf);\n            JEntry::make_string_jentry(size)", 0, BLD, "write_entry_arr"),
    ("we-raw-data-not-written", B, "            buf.extend_from_slice(data);\n", "", 0, BLD, "write_entry_raw"),
    ("ab-push-raw-dropped", B, "        self.entries.push(Entry::Raw(jentry, data));\n", "", 0, BLD, "array_push_raw_agrees"),
    ("ob-push-raw-empty-key", B, "        self.entries.insert(key, Entry::Raw(jentry, data));", "        self.entries.insert(\"\", Entry::Raw(jentry, data));", 0, BLD, "object_push_raw_agrees"),
    # iterator.rs: ObjectEntryIterator
    ("oei-key-offset-4-per-pair", I, "        key_offset: 4 + length * 8,", "        key_offset: 4 + length * 4,", 0, ITER, "iterate_object_entries_agrees"),
    ("oei-fill-keys-no-val-advance", I, "            self.val_offset += key_jentry.length as usize;\n", "", 0, ITER, "fk_loop1_step"),
    ("oei-next-jentry-offset-8", I, "                self.jentry_offset += 4;\n                self.val_offset += val_length;", "                self.jentry_offset += 8;\n                self.val_offset += val_length;", 0, ITER, "obj_next_cons"),
    ("oei-next-val-not-advanced", I, "                self.jentry_offset += 4;\n                self.val_offset += val_length;\n", "                self.jentry_offset += 4;\n", 0, ITER, "obj_next_cons"),
    ("oei-fill-keys-keeps-keys-on-error", I, "                    self.keys = None;\n                    return;", "                    self.keys = Some(keys);\n                    return;", 0, ITER, "fk_loop1_step"),
    # functions.rs: delete_by_index
    ("dbi-keeps-only-index", F, "                    if i != index {\n                        builder.push_raw(entry.0, entry.1);", "                    if i == index {\n                        builder.push_raw(entry.0, entry.1);", 0, DBI, "dbi_loop1_step"),
    ("dbi-negative-index-subtracted", F, "            let len = (header & CONTAINER_HEADER_LEN_MASK) as i32;\n            let index = if index < 0 { len + index } else { index };", "            let len = (header & CONTAINER_HEADER_LEN_MASK) as i32;\n            let index = if index < 0 { len - index } else { index };", 0, DBI, "delete_jsonb_by_index_agrees"),
    ("dbi-bound-gt", F, "            if index < 0 || index >= len {\n                buf.extend_from_slice(value);", "            if index < 0 || index > len {\n                buf.extend_from_slice(value);", 0, DBI, "delete_jsonb_by_index_agrees"),
    ("dbi-out-of-range-writes-nothing", F, "            if index < 0 || index >= len {\n                buf.extend_from_slice(value);\n", "            if index < 0 || index >= len {\n", 0, DBI, "delete_jsonb_by_index_agrees"),
    ("dbi-swapped-item-halves", F, "builder.push_raw(entry.0, entry.1);", "builder.push_raw(entry.0, value);", 1, DBI, "dbi_loop1_step"),
    # functions.rs: concat
    ("cat-object-left-twice", F, "            for (key, jentry, item) in iterate_object_entries(right, right_header) {\n                builder.push_raw(key, jentry, item);\n            }\n            builder.build_into(buf);", "            for (key, jentry, item) in iterate_object_entries(left, left_header) {\n                builder.push_raw(key, jentry, item);\n            }\n            builder.build_into(buf);", 0, CAT, "concat_jsonb_agrees"),
    ("cat-array-right-first", F, "            for (jentry, item) in iterate_array(left, left_header) {\n                builder.push_raw(jentry, item);\n            }\n            for (jentry, item) in iterate_array(right, right_header) {\n                builder.push_raw(jentry, item);\n            }", "            for (jentry, item) in iterate_array(right, right_header) {\n                builder.push_raw(jentry, item);\n            }\n            for (jentry, item) in iterate_array(left, left_header) {\n                builder.push_raw(jentry, item);\n            }", 0, CAT, "concat_jsonb_agrees"),
    ("cat-scalar-payload-offset-4", F, "                    builder.push_raw(jentry, &left[8..]);", "                    builder.push_raw(jentry, &left[4..]);", 0, CAT, "concat_jsonb_agrees"),
    ("cat-object-as-string-entry", F, "                    let jentry = JEntry::make_container_jentry(left.len());", "                    let jentry = JEntry::make_string_jentry(left.len());", 0, CAT, "concat_jsonb_agrees"),
    ("cat-arm-patterns-swapped", F, "        (_, ARRAY_CONTAINER_TAG) => {\n            let mut builder = ArrayBuilder::new(right_len + 1);", "        (ARRAY_CONTAINER_TAG, _) => {\n            let mut builder = ArrayBuilder::new(right_len + 1);", 0, CAT, "concat_jsonb_agrees"),
    ("cat-entry-word-at-0", F, "                    let jentry = JEntry::decode_jentry(read_u32(right, 4)?);", "                    let jentry = JEntry::decode_jentry(read_u32(right, 0)?);", 0, CAT, "concat_jsonb_agrees"),
    ("cat-sniff-and", F, "    if !is_jsonb(left) || !is_jsonb(right) {", "    if !is_jsonb(left) && !is_jsonb(right) {", 1, CAT, "concat_agrees"),
    # functions.rs: delete_by_name, object_delete / object_pick
    ("dbn-keeps-only-name", F, "                if !key.eq(name) {\n                    builder.push_raw(key, jentry, item);", "                if key.eq(name) {\n                    builder.push_raw(key, jentry, item);", 1, DBN, "dbn_loop1_step"),
    ("dbn-number-tag", F, "                    STRING_TAG => {\n                        let v = unsafe { from_utf8_unchecked(item) };\n                        v.eq(name)", "                    NUMBER_TAG => {\n                        let v = unsafe { from_utf8_unchecked(item) };\n                        v.eq(name)", 0, DBN, "dbn_loop2_step"),
    ("dbn-array-error", F, "            builder.build_into(buf);\n        }\n        _ => return Err(Error::InvalidJsonType),\n    }\n    Ok(())\n}\n\n/// Deletes the array element", "            builder.build_into(buf);\n        }\n        _ => return Err(Error::InvalidJsonb),\n    }\n    Ok(())\n}\n\n/// Deletes the array element", 0, DBN, "delete_jsonb_by_name_agrees"),
    # functions.rs: array_insert
    ("ai-clamp-to-len-minus-1", F, "    } else if idx > len {\n        len\n    } else {", "    } else if idx > len {\n        len - 1\n    } else {", 0, INS, "array_insert_jsonb_agrees"),
    ("ai-negative-clamped-to-len", F, "    let idx = if idx < 0 {\n        0\n    } else if idx > len {", "    let idx = if idx < 0 {\n        len\n    } else if idx > len {", 0, INS, "array_insert_jsonb_agrees"),
    ("ai-one-element-more-before", F, "            i += 1;\n            if i >= idx {\n                break;", "            i += 1;\n            if i > idx {\n                break;", 0, INS, "ai_loop2_run"),
    ("ai-new-value-after-rest", F, "    while let Some((jentry, item)) = items.pop_front() {\n        builder.push_raw(jentry, item);\n    }\n    builder.build_into(buf);", "    builder.build_into(buf);", 0, INS, "ai_loop3_run"),
    ("ai-object-not-wrapped", F, "        OBJECT_CONTAINER_TAG => {\n            let jentry = JEntry::make_container_jentry(value.len());\n            items.push_back((jentry, value));", "        OBJECT_CONTAINER_TAG => {\n            let jentry = JEntry::make_string_jentry(value.len());\n            items.push_back((jentry, value));", 0, INS, "array_insert_jsonb_agrees"),
    ("ai-scalar-len-zero", F, "        (header & CONTAINER_HEADER_LEN_MASK) as i32\n    } else {\n        1\n    };", "        (header & CONTAINER_HEADER_LEN_MASK) as i32\n    } else {\n        0\n    };", 0, INS, "array_insert_jsonb_agrees"),
    # functions.rs: the set functions
    ("ad-keeps-duplicates", F, "                if !item_set.contains(&(jentry.clone(), item)) {\n                    item_set.insert((jentry.clone(), item));", "                if !item_set.contains(&(jentry.clone(), item)) {", 0, DIS, "ad_loop1_step"),
    ("ad-keeps-only-duplicates", F, "                if !item_set.contains(&(jentry.clone(), item)) {", "                if item_set.contains(&(jentry.clone(), item)) {", 0, DIS, "ad_loop1_step"),
    ("ad-object-not-wrapped", F, "        OBJECT_CONTAINER_TAG => {\n            let jentry = JEntry::make_container_jentry(value.len());\n            builder.push_raw(jentry, value);", "        OBJECT_CONTAINER_TAG => {\n            let jentry = JEntry::make_string_jentry(value.len());\n            builder.push_raw(jentry, value);", 0, DIS, "array_distinct_jsonb_agrees"),
    ("ai2-count-not-incremented", F, "                    *cnt += 1;", "                    *cnt += 0;", 0, SET, "array_intersection_jsonb_loop1_step"),
    ("ai2-first-count-2", F, "                    item_map.insert((jentry2, item2), 1);", "                    item_map.insert((jentry2, item2), 2);", 0, SET, "array_intersection_jsonb_loop1_step"),
    ("ai2-count-not-used-up", F, "                    if *cnt > 0 {\n                        *cnt -= 1;\n                        builder.push_raw(jentry1, item1);", "                    if *cnt > 0 {\n                        builder.push_raw(jentry1, item1);", 0, SET, "array_intersection_jsonb_loop2_step"),
    ("ai2-keeps-at-zero", F, "                    if *cnt > 0 {\n                        *cnt -= 1;\n                        builder.push_raw(jentry1, item1);", "                    if *cnt >= 0 {\n                        *cnt -= 1;\n                        builder.push_raw(jentry1, item1);", 0, SET, "array_intersection_jsonb_loop2_step"),
    ("ai2-object-operand-inverted", F, "            if item_map.contains_key(&(jentry1.clone(), value1)) {", "            if !item_map.contains_key(&(jentry1.clone(), value1)) {", 0, SET, "array_intersection_jsonb_agrees"),
    ("ae-count-not-used-up", F, "                    if *cnt > 0 {\n                        *cnt -= 1;\n                        continue;", "                    if *cnt > 0 {\n                        continue;", 0, SET, "array_except_jsonb_loop2_step"),
    ("ae-continue-dropped", F, "                    if *cnt > 0 {\n                        *cnt -= 1;\n                        continue;\n", "                    if *cnt > 0 {\n                        *cnt -= 1;\n", 0, SET, "array_except_jsonb_loop2_step"),
    ("ae-object-operand-inverted", F, "            if !item_map.contains_key(&(jentry1.clone(), value1)) {", "            if item_map.contains_key(&(jentry1.clone(), value1)) {", 0, SET, "array_except_jsonb_agrees"),
    ("od-keeps-listed", F, "        if keys.contains(key) {\n            continue;\n        }", "        if !keys.contains(key) {\n            continue;\n        }", 0, OBJ, "od_loop1_step"),
    ("op-drops-listed", F, "        if !keys.contains(key) {\n            continue;\n        }", "        if keys.contains(key) {\n            continue;\n        }", 0, OBJ, "op_loop1_step"),
    ("od-accepts-arrays", F, "    if header & CONTAINER_HEADER_TYPE_MASK != OBJECT_CONTAINER_TAG {\n        return Err(Error::InvalidObject);\n    }\n\n    let mut builder = ObjectBuilder::new();\n    for (key, jentry, item) in iterate_object_entries(value, header) {\n        if keys.contains(key) {", "    if header & CONTAINER_HEADER_TYPE_MASK != ARRAY_CONTAINER_TAG {\n        return Err(Error::InvalidObject);\n    }\n\n    let mut builder = ObjectBuilder::new();\n    for (key, jentry, item) in iterate_object_entries(value, header) {\n        if keys.contains(key) {", 0, OBJ, "object_delete_jsonb_agrees"),
]

# harmless re-spellings: different generated text, same logic -> the proofs must still go through
RESPELLINGS = [
    ("ab-len-commuted", B, "let mut array_len = 4 + self.entries.len() * 4;", "let mut array_len = self.entries.len() * 4 + 4;", 0, BLD),
    ("ob-len-commuted", B, "let mut object_len = 4 + self.entries.len() * 8;", "let mut object_len = 4 + 8 * self.entries.len();", 0, BLD),
    ("ab-header-or-commuted", B, "let header = ARRAY_CONTAINER_TAG | self.entries.len() as u32;", "let header = self.entries.len() as u32 | ARRAY_CONTAINER_TAG;", 0, BLD),
    ("ab-len-explicit-sum", B, "            array_len += jentry.length as usize;", "            array_len = array_len + jentry.length as usize;", 0, BLD),
    ("ab-reserve-commuted", B, "let mut jentry_index = reserve_jentries(buf, self.entries.len() * 4);", "let mut jentry_index = reserve_jentries(buf, 4 * self.entries.len());", 0, BLD),
    ("we-explicit-return", B, "            buf.extend_from_slice(data);\n            jentry\n", "            buf.extend_from_slice(data);\n            return jentry;\n", 0, BLD),
    ("dbi-test-flipped", F, "                    if i != index {\n                        builder.push_raw(entry.0, entry.1);", "                    if index != i {\n                        builder.push_raw(entry.0, entry.1);", 0, DBI),
    ("dbi-index-sum-commuted", F, "            let len = (header & CONTAINER_HEADER_LEN_MASK) as i32;\n            let index = if index < 0 { len + index } else { index };", "            let len = (header & CONTAINER_HEADER_LEN_MASK) as i32;\n            let index = if index < 0 { index + len } else { index };", 0, DBI),
    ("oei-offsets-commuted", I, "        key_offset: 4 + length * 8,\n        val_offset: 4 + length * 8,", "        key_offset: length * 8 + 4,\n        val_offset: 8 * length + 4,", 0, ITER),
    ("ai-clamp-test-flipped", F, "    } else if idx > len {\n        len\n    } else {", "    } else if len < idx {\n        len\n    } else {", 0, INS),
    ("ai-break-test-flipped", F, "            i += 1;\n            if i >= idx {\n                break;", "            i += 1;\n            if idx <= i {\n                break;", 0, INS),
    ("ai2-count-sum-commuted", F, "                    *cnt += 1;", "                    *cnt = 1 + *cnt;", 0, SET),
    ("ai2-positive-test-flipped", F, "                    if *cnt > 0 {\n                        *cnt -= 1;\n                        builder.push_raw(jentry1, item1);", "                    if 0 < *cnt {\n                        *cnt -= 1;\n                        builder.push_raw(jentry1, item1);", 0, SET),
    ("dbn-test-as-equality", F, "                if !key.eq(name) {\n                    builder.push_raw(key, jentry, item);", "                if key != name {\n                    builder.push_raw(key, jentry, item);", 1, DBN),
]

# changes that leave the subset / remove a target: the tool must say so and keep the committed block
RETENTION = [
    ("out-of-subset-endianness", B, "        buf.write_u32::<BigEndian>(header).unwrap();\n\n        let mut array_len", "        buf.write_u32::<LittleEndian>(header).unwrap();\n\n        let mut array_len", 0,
     "src/builder.rs::ArrayBuilder::build_into", "unsupported"),
    ("renamed-away", B, "fn write_entry(buf: &mut Vec<u8>, entry: Entry<'_>) -> JEntry {", "fn write_one(buf: &mut Vec<u8>, entry: Entry<'_>) -> JEntry {", 0,
     "src/builder.rs::write_entry", "missing"),
    ("out-of-subset-reversed-iteration", F, "                for (i, entry) in iterate_array(value, header).enumerate() {", "                for (i, entry) in iterate_array(value, header).enumerate().rev() {", 0,
     "src/functions.rs::delete_jsonb_by_index", "unsupported"),
    ("out-of-subset-closure-filter", F, "            for (key, jentry, item) in iterate_object_entries(value, header) {\n                if !key.eq(name) {", "            for (key, jentry, item) in iterate_object_entries(value, header).filter(|x| true) {\n                if !key.eq(name) {", 1,
     "src/functions.rs::delete_jsonb_by_name", "unsupported"),
]


def run_tool(src_root, out_path):
    """-> (generated text, status dict)"""
    env = dict(os.environ, VERIF_REPO=src_root, RS2LEAN4_OUT=out_path, RS2LEAN4_PREV=COMMITTED)
    if os.path.exists(out_path):
        os.remove(out_path)
    r = subprocess.run([sys.executable, TOOL], env=env, capture_output=True, text=True)
    if r.returncode != 0:
        raise RuntimeError("rs2lean4.py crashed: " + r.stderr[-2000:])
    status = json.loads(r.stdout.strip().splitlines()[-1])
    r2 = subprocess.run([sys.executable, TOOL, "--stdout"], env=env, capture_output=True, text=True)
    if r2.returncode != 0:
        raise RuntimeError("rs2lean4.py --stdout crashed: " + r2.stderr[-2000:])
    text = open(out_path, encoding="utf-8").read()
    if text != r2.stdout:
        raise RuntimeError("--stdout and the written file differ")
    return text, status


def scratch_lean(scratch, generated, parts, name):
    """one self-contained Lean file: generated definitions + the agreement parts"""
    imports, bodies = [], []
    texts = [generated] + [open(os.path.join(LEAN, "JsonbModel", "Proofs", PARTS[p]), encoding="utf-8").read() for p in parts]
    for t in texts:
        body = []
        for line in t.splitlines():
            m = re.match(r"import\s+(\S+)", line)
            if m:
                mod = m.group(1)
                if mod == "JsonbModel.Generated.Translated4" or re.fullmatch(r"JsonbModel\.Proofs\.TranslatedAgreeD\d*", mod):
                    continue
                if mod not in imports:
                    imports.append(mod)
            else:
                body.append(line)
        bodies.append("\n".join(body))
    path = os.path.join(scratch, name + ".lean")
    with open(path, "w", encoding="utf-8") as f:
        f.write("\n".join("import " + m for m in imports) + "\n\n" + "\n\n".join(bodies) + "\n")
    return path


def lean_check(path):
    """-> (ok, first failing theorem or None, seconds)"""
    t0 = time.time()
    r = subprocess.run(["lake", "env", "lean", path], cwd=LEAN, capture_output=True, text=True)
    out = r.stdout + r.stderr
    dt = time.time() - t0
    errs = [int(m.group(1)) for m in re.finditer(r"^[^\n:]+:(\d+):\d+: error", out, re.M)]
    if r.returncode == 0 and not errs:
        return True, None, dt
    first = None
    if errs:
        lines = open(path, encoding="utf-8").read().splitlines()
        for ln in range(min(errs) - 1, -1, -1):
            m = re.match(r"\s*(?:theorem|def|instance)\s+(\S+)", lines[ln] if ln < len(lines) else "")
            if m:
                first = m.group(1)
                break
    return False, first or "(lean failed: %s)" % (out.strip().splitlines() or ["?"])[-1][:80], dt


def all_parts(parts):
    """a part needs the parts before it that it imports"""
    need = set()
    for p in parts:
        need.add(p)
        text = open(os.path.join(LEAN, "JsonbModel", "Proofs", PARTS[p]), encoding="utf-8").read()
        for m in re.finditer(r"^import JsonbModel\.Proofs\.TranslatedAgreeD(\d+)", text, re.M):
            need |= set(all_parts([int(m.group(1))]))
    return sorted(need)


def main():
    only = [a for a in sys.argv[1:] if not a.startswith("-")]
    t_start = time.time()
    tmp = tempfile.mkdtemp(prefix="rs2lean4_selftest_src_", dir="/tmp")
    scratch = tempfile.mkdtemp(prefix="rs2lean4_selftest_lean_", dir="/tmp")
    failures, rows = [], []
    have_parts = sorted(PARTS)
    try:
        shutil.copytree(os.path.join(REPO, "src"), os.path.join(tmp, "src"))
        out = os.path.join(scratch, "Translated4.out.lean")
        base, status = run_tool(tmp, out)
        bad = {k: v for k, v in status["functions"].items() if v != "translated"}
        if bad:
            failures.append("baseline: not everything translated: %s" % bad)
        committed = open(COMMITTED, encoding="utf-8").read()
        rows.append(("baseline", "generated == committed Translated4.lean", "yes" if committed == base else "NO", ""))
        if committed != base:
            failures.append("baseline: generated text differs from the committed Generated/Translated4.lean")

        # (a) formatting robustness
        files = sorted(set(f[0] for f in rs2lean4.FUNCS4) | {B, I, "src/jentry.rs"}
                       | set(f[0] for f in rs2lean3.FUNCS3) | set(f for f, _, _ in rs2lean3.TYPES3)
                       | set(f for f, _, _, _, _ in rs2lean2.FUNCS2) | set(f for f, _, _ in rs2lean2.TYPES2)
                       | set(f for f, _, _, _ in rs2lean.FUNCS) | set(f for f, _, _ in rs2lean.TYPES)
                       | {"src/constants.rs", "src/error.rs"})
        originals = {f: open(os.path.join(tmp, f), encoding="utf-8").read() for f in files}
        if not only:
            for vi in range(3):
                name = None
                for f in files:
                    name, text = reformat_variants(originals[f])[vi]
                    open(os.path.join(tmp, f), "w", encoding="utf-8", newline="").write(text)
                text, st = run_tool(tmp, out)
                same = text == base
                rows.append(("format", name, "identical" if same else "DIFFERENT", ""))
                if not same:
                    failures.append("format variant %s changed the output" % name)
                for f in files:
                    open(os.path.join(tmp, f), "w", encoding="utf-8").write(originals[f])

            # (a') retention of committed blocks
            for mid, file, old, new, occ, key, want in RETENTION:
                saved = mutate(tmp, file, old, new, occ)
                try:
                    text, st = run_tool(tmp, out)
                finally:
                    open(os.path.join(tmp, file), "w", encoding="utf-8").write(saved)
                got = st["functions"].get(key, "?")
                good = got.startswith(want) and text == base and st["ok"] is False
                rows.append(("retention", mid, ("%s, committed block kept" % want) if good else "WRONG: %s" % got[:70], ""))
                if not good:
                    failures.append("retention %s: status %r, text identical: %s" % (mid, got, text == base))

        jobs = []     # (kind, id, path, expected_ok, expected_theorem)
        if not only:
            jobs.append(("baseline", "unmutated", scratch_lean(scratch, base, have_parts, "base"), True, None))
        for kind, table in (("mutation", MUTATIONS), ("respelling", RESPELLINGS)):
            for row in table:
                mid, file, old, new, occ, parts = row[:6]
                if only and mid not in only:
                    continue
                expect = row[6] if kind == "mutation" else None
                if any(p not in have_parts for p in parts):
                    rows.append((kind, mid, "SKIPPED (part missing)", ""))
                    continue
                saved = mutate(tmp, file, old, new, occ)
                try:
                    text, st = run_tool(tmp, out)
                finally:
                    open(os.path.join(tmp, file), "w", encoding="utf-8").write(saved)
                nb = {k: v for k, v in st["functions"].items() if v != "translated"}
                if nb:
                    if kind == "mutation" and expect is None:
                        rows.append((kind, mid, "leaves the subset (reported, block kept)", ""))
                        continue
                    rows.append((kind, mid, "UNSUPPORTED", str(nb)[:100]))
                    failures.append("%s %s left the subset: %s" % (kind, mid, nb))
                    continue
                if text == base:
                    if kind == "respelling":
                        rows.append((kind, mid, "generated text identical (nothing to re-prove)", ""))
                        continue
                    rows.append((kind, mid, "NO CHANGE in generated text", ""))
                    failures.append("%s %s did not change the generated text" % (kind, mid))
                    continue
                jobs.append((kind, mid, scratch_lean(scratch, text, all_parts(parts), mid), kind == "respelling", expect))

        with concurrent.futures.ThreadPoolExecutor(max_workers=JOBS) as ex:
            results = list(ex.map(lambda j: lean_check(j[2]), jobs))
        for (kind, mid, path, exp_ok, exp_thm), (ok, thm, dt) in zip(jobs, results):
            if exp_ok:
                verdict = "proofs PASS" if ok else "proofs FAIL at %s" % thm
                if not ok:
                    failures.append("%s %s: expected the agreement proofs to pass, failed at %s" % (kind, mid, thm))
            else:
                verdict = ("proof FAILS at %s" % thm) if not ok else "NOT DETECTED (proofs pass)"
                if ok:
                    failures.append("mutation %s was not detected" % mid)
                elif exp_thm and thm != exp_thm:
                    verdict += " (expected %s)" % exp_thm
            rows.append((kind, mid, verdict, "%.1fs" % dt))
    finally:
        shutil.rmtree(tmp, ignore_errors=True)
        if not os.environ.get("RS2LEAN4_KEEP"):
            shutil.rmtree(scratch, ignore_errors=True)

    w1 = max(len(r[0]) for r in rows)
    w2 = max(len(r[1]) for r in rows)
    w3 = max(len(r[2]) for r in rows)
    print("%-*s  %-*s  %-*s  %s" % (w1, "kind", w2, "case", w3, "result", "time"))
    for r in rows:
        print("%-*s  %-*s  %-*s  %s" % (w1, r[0], w2, r[1], w3, r[2], r[3]))
    n_mut = sum(1 for r in rows if r[0] == "mutation" and not r[2].startswith("SKIPPED"))
    n_det = sum(1 for r in rows if r[0] == "mutation" and r[2].startswith("proof FAILS"))
    print("mutations detected: %d / %d; wall %.0fs" % (n_det, n_mut, time.time() - t_start))
    if failures:
        print("SELFTEST FAILED:")
        for f in failures:
            print("  - " + f)
        return 1
    print("SELFTEST OK")
    return 0


if __name__ == "__main__":
    sys.exit(main())
