"""Per-property configuration of /verif/check: op classification and descriptive texts."""

# op -> kind.  corr: Rust vs implementation model (correspondence).  oracle: Rust vs the spec
# answer that the property theorems say must come out (property oracle on the real code).
OPS = {
    "numenc": "oracle", "numdec": "oracle", "enc": "corr", "encinto": "corr", "dec": "corr",
    "encspec": "oracle", "rtdec": "oracle", "rtenc": "oracle",
    # number ops: the model functions are proved equal to the mathematical definitions for every
    # input (C18 theorems: codec round trip, order = order of exact values, views exact or absent),
    # so the model's answer IS the specified answer and a disagreement is a property failure
    "numcmp": "oracle", "numview": "oracle", "numlaws": "oracle", "cmplaws": "oracle", "containslaws": "oracle", "keyorder": "oracle", 
}


# oracle ops whose expected answer is a constant: the request carries the intended result, or the
# law is evaluated on the real code alone; anything but these answers is an oracle failure
CONST_OK = {"numlaws", "cmplaws", "containslaws", "keyorder", "tostrcheck", "jpexpect", "kpexpect", "jexpect", "jreject", "fsexpect", "fsreject", "kpreject", "bigpayload", "tjtext", "numcast",
            "jproundtrip", "kproundtrip", "modes", "selreuse", "tj", "serdecheck", "sniffbig", "chaincheck", "deep"}
OK_ANSWERS = ("ok", "not-accepted", "not-applicable", "skip", "bad-path")


def kind_of(op):
    if op in CONST_OK:
        return "oracle"
    if op.startswith("spec:"):
        return "oracle"
    return OPS.get(op, "corr")

# source-translator tie (tools/rs2lean.py): agreement theorems (namespace Jsonb.TrAgree, Proofs/TranslatedAgree*.lean)
# `function translated from /repo's current source = hand-written model function` that each property relies on
_JE = ["decode_jentry_agrees", "encoded_agrees", "make_null_jentry_agrees", "make_true_jentry_agrees", "make_false_jentry_agrees",
       "make_string_jentry_agrees", "make_number_jentry_agrees", "make_container_jentry_agrees", "string_word_agrees", "number_word_agrees",
       "container_word_agrees", "null_word_agrees", "true_word_agrees", "false_word_agrees"]
_RD = ["read_u32_agrees", "iterator_read_u32_agrees", "decode_jentry_agrees"]
_NUMV = ["as_i64_agrees", "as_u64_agrees", "as_f64_agrees"]
_NUMO = ["cmp_int_float_agrees", "orderedFloatCmp_eq", "cmp_agrees"]
_IDX = ["convert_index_agrees", "convert_slice_agrees"]
TIE = {
    "C01": _JE + ["compact_encode_agrees", "decode_agrees"],
    "C02": ["decode_hex_val_agrees"],
    "C03": ["pretty_opts_new_agrees", "pretty_opts_inc_indent_agrees", "read_u32_agrees", "decode_jentry_agrees", "decode_agrees"],
    "C04": ["jentry_compare_level_agrees", "read_u32_agrees", "decode_jentry_agrees", "decode_agrees"] + _NUMO,
    "C05": _RD + ["is_jsonb_agrees", "decode_agrees"] + _NUMV,
    "C06": _RD + _JE,
    "C07": _RD + _JE + _IDX,
    "C08": _IDX + ["cmp_agrees", "decode_agrees"],
    "C09": ["decode_hex_val_agrees"],
    "C10": ["decode_agrees", "decode_jentry_agrees"],
    "C11": ["is_jsonb_agrees"],
    "C12": ["read_u32_agrees", "decode_jentry_agrees", "decode_agrees", "cmp_agrees"],
    "C13": _RD + ["make_container_jentry_agrees", "container_word_agrees"],
    "C14": ["jentry_compare_level_agrees", "as_f64_agrees", "decode_agrees", "read_u32_agrees"] + _NUMO,
    "C15": _IDX,
    "C16": ["decode_hex_val_agrees"],
    "C17": ["encoded_agrees", "string_word_agrees", "number_word_agrees", "container_word_agrees", "compact_encode_agrees"],
    "C18": ["compact_encode_agrees", "decode_agrees"] + _NUMV + _NUMO,
    "C19": _NUMV + ["decode_agrees", "read_u32_agrees", "decode_jentry_agrees"],
    "C20": _IDX + ["read_u32_overflow", "iterator_read_u32_overflow", "cmp_int_float_agrees"],
}

# phase 2 (tools/rs2lean2.py, Proofs/TranslatedAgreeB*.lean): walkers, iterators, writers, escaper
_WALK = ["get_jentry_by_index_agrees", "get_jentry_by_name_agrees", "extract_by_jentry_agrees"]
_ITER = ["iterate_array_agrees", "array_iterator_next_agrees", "iterate_array_drain", "iteate_object_keys_agrees", "object_key_iterator_next_agrees", "iteate_object_keys_drain"]
_KIND = ["is_array_agrees", "is_object_agrees", "array_length_agrees"]
_PATCH = ["reserve_jentries_agrees", "replace_jentry_agrees"]
_ENCP = ["encoder_reserve_jentries_agrees", "encoder_replace_jentry_agrees"]
for _p, _l in {"C01": _ENCP, "C02": ["decode_hex_escape_agrees"], "C03": ["escape_scalar_string_agrees", "escape_scalar_string_run"],
               "C05": _WALK + _ITER + _KIND, "C06": _WALK + _ITER + _PATCH, "C07": _WALK + _ITER + _PATCH, "C09": ["decode_hex_escape_agrees"],
               "C11": _KIND, "C12": _WALK + _ITER, "C13": _ITER + _PATCH, "C16": ["decode_hex_escape_agrees"], "C17": _PATCH + _ENCP,
               "C19": ["escape_scalar_string_agrees"], "C20": ["get_jentry_by_index_overflow"]}.items():
    TIE[_p] = TIE[_p] + [x for x in _l if x not in TIE[_p]]

# phase 3 (tools/rs2lean3.py, Proofs/TranslatedAgreeC*.lean): the recursive codec (Decoder of de.rs, Encoder of ser.rs)
_DEC = ["dec_agrees", "parse_jsonb_agrees", "parse_jsonb_ne_fuel", "decoder_decode_agrees", "from_slice_agrees", "from_slice_whole", "decode_jentries_agrees"]
_ENC = ["enc_value_agrees", "encode_value_agrees", "encode_array_agrees", "encode_object_agrees", "encode_scalar_agrees", "encode_agrees", "write_to_vec_agrees", "to_vec_agrees"]
for _p, _l in {"C01": _DEC[:3] + _ENC, "C10": _DEC, "C11": ["from_slice_whole"], "C17": ["write_to_vec_agrees", "encode_agrees", "enc_value_agrees"], "C07": ["to_vec_agrees", "parse_jsonb_agrees"]}.items():
    TIE[_p] = TIE[_p] + [x for x in _l if x not in TIE[_p]]

# phase 4 (tools/rs2lean4.py, Proofs/TranslatedAgreeD*.lean): builders, ObjectEntryIterator, byte-level editors
_BLD = ["write_entry_agrees", "array_build_into_agrees", "object_build_into_agrees", "array_build_raw", "object_build_raw", "array_push_raw_agrees", "object_push_raw_agrees"]
_EDT = ["delete_jsonb_by_index_agrees", "delete_by_index_agrees", "concat_jsonb_agrees", "concat_agrees", "delete_jsonb_by_name_agrees", "array_insert_jsonb_agrees",
        "object_delete_jsonb_agrees", "object_pick_jsonb_agrees", "iterate_object_entries_drain"]
_SETS = ["array_distinct_jsonb_agrees", "array_intersection_jsonb_agrees", "array_except_jsonb_agrees", "lawful_key_cmp"]
for _p, _l in {"C06": _EDT + _BLD, "C07": _EDT + _BLD + _SETS, "C13": _SETS + _BLD[:3], "C17": _BLD + ["concat_jsonb_agrees", "array_insert_jsonb_agrees"], "C05": ["iterate_object_entries_drain"],
               "C11": ["delete_by_index_agrees", "concat_agrees"], "C20": ["delete_jsonb_by_index_agrees", "array_insert_jsonb_agrees"]}.items():
    TIE[_p] = TIE[_p] + [x for x in _l if x not in TIE[_p]]

# agreement theorem -> the source declarations (keys of the translator's status) it is about
TIE_SOURCES = {
    "decode_jentry_agrees": ["src/jentry.rs::struct JEntry", "src/jentry.rs::JEntry::decode_jentry"],
    "encoded_agrees": ["src/jentry.rs::struct JEntry", "src/jentry.rs::JEntry::encoded"],
    "compact_encode_agrees": ["src/number.rs::enum Number", "src/number.rs::Number::compact_encode"],
    "decode_agrees": ["src/number.rs::enum Number", "src/number.rs::Number::decode"],
    "as_i64_agrees": ["src/number.rs::enum Number", "src/number.rs::Number::as_i64"],
    "as_u64_agrees": ["src/number.rs::enum Number", "src/number.rs::Number::as_u64"],
    "as_f64_agrees": ["src/number.rs::enum Number", "src/number.rs::Number::as_f64"],
    "cmp_int_float_agrees": ["src/number.rs::cmp_int_float"],
    "orderedFloatCmp_eq": [],
    "cmp_agrees": ["src/number.rs::enum Number", "src/number.rs::Number::cmp", "src/number.rs::cmp_int_float"],
    "convert_index_agrees": ["src/jsonpath/path.rs::enum Index", "src/jsonpath/selector.rs::Selector::convert_index"],
    "convert_slice_agrees": ["src/jsonpath/path.rs::enum Index", "src/jsonpath/selector.rs::Selector::convert_slice"],
    "jentry_compare_level_agrees": ["src/jentry.rs::struct JEntry", "src/functions.rs::jentry_compare_level"],
    "is_jsonb_agrees": ["src/functions.rs::is_jsonb"],
    "read_u32_agrees": ["src/functions.rs::read_u32"], "read_u32_overflow": ["src/functions.rs::read_u32"],
    "iterator_read_u32_agrees": ["src/iterator.rs::read_u32"], "iterator_read_u32_overflow": ["src/iterator.rs::read_u32"],
    "decode_hex_val_agrees": ["src/util.rs::decode_hex_val"],
    "pretty_opts_new_agrees": ["src/functions.rs::struct PrettyOpts", "src/functions.rs::PrettyOpts::new"],
    "pretty_opts_inc_indent_agrees": ["src/functions.rs::struct PrettyOpts", "src/functions.rs::PrettyOpts::inc_indent"],
}
TIE_SOURCES.update({
    "get_jentry_by_index_agrees": ["src/functions.rs::get_jentry_by_index"], "get_jentry_by_index_overflow": ["src/functions.rs::get_jentry_by_index"],
    "get_jentry_by_name_agrees": ["src/functions.rs::get_jentry_by_name"], "extract_by_jentry_agrees": ["src/functions.rs::extract_by_jentry"],
    "is_array_agrees": ["src/functions.rs::is_array"], "is_object_agrees": ["src/functions.rs::is_object"], "array_length_agrees": ["src/functions.rs::array_length"],
    "decode_hex_escape_agrees": ["src/util.rs::decode_hex_escape"],
    "escape_scalar_string_agrees": ["src/functions.rs::escape_scalar_string"], "escape_scalar_string_run": ["src/functions.rs::escape_scalar_string"],
    "reserve_jentries_agrees": ["src/builder.rs::reserve_jentries"], "replace_jentry_agrees": ["src/builder.rs::replace_jentry"],
    "encoder_reserve_jentries_agrees": ["src/ser.rs::struct Encoder", "src/ser.rs::Encoder::reserve_jentries"],
    "encoder_replace_jentry_agrees": ["src/ser.rs::struct Encoder", "src/ser.rs::Encoder::replace_jentry"],
    "iterate_array_agrees": ["src/iterator.rs::struct ArrayIterator", "src/iterator.rs::iterate_array"],
    "array_iterator_next_agrees": ["src/iterator.rs::struct ArrayIterator", "src/iterator.rs::ArrayIterator::next"],
    "iterate_array_drain": ["src/iterator.rs::struct ArrayIterator", "src/iterator.rs::iterate_array", "src/iterator.rs::ArrayIterator::next"],
    "iteate_object_keys_agrees": ["src/iterator.rs::struct ObjectKeyIterator", "src/iterator.rs::iteate_object_keys"],
    "object_key_iterator_next_agrees": ["src/iterator.rs::struct ObjectKeyIterator", "src/iterator.rs::ObjectKeyIterator::next"],
    "iteate_object_keys_drain": ["src/iterator.rs::struct ObjectKeyIterator", "src/iterator.rs::iteate_object_keys", "src/iterator.rs::ObjectKeyIterator::next"],
})
_DECSRC = ["src/value.rs::enum Value", "src/de.rs::struct Decoder", "src/de.rs::Decoder::decode_jentries", "src/de.rs::Decoder::decode_jsonb", "src/de.rs::Decoder::decode_scalar",
           "src/de.rs::Decoder::decode_array", "src/de.rs::Decoder::decode_object", "src/number.rs::Number::decode"]
_ENCSRC = ["src/value.rs::enum Value", "src/ser.rs::struct Encoder", "src/ser.rs::Encoder::encode_value", "src/ser.rs::Encoder::encode_array", "src/ser.rs::Encoder::encode_object",
           "src/ser.rs::Encoder::reserve_jentries", "src/ser.rs::Encoder::replace_jentry", "src/number.rs::Number::compact_encode"]
TIE_SOURCES.update({
    "dec_agrees": _DECSRC, "decode_jentries_agrees": ["src/de.rs::struct Decoder", "src/de.rs::Decoder::decode_jentries"],
    "parse_jsonb_agrees": _DECSRC + ["src/de.rs::Decoder::new", "src/de.rs::Decoder::decode", "src/de.rs::parse_jsonb"], "parse_jsonb_ne_fuel": [],
    "decoder_decode_agrees": _DECSRC + ["src/de.rs::Decoder::decode"],
    "from_slice_agrees": _DECSRC + ["src/de.rs::Decoder::new", "src/de.rs::Decoder::decode", "src/de.rs::from_slice"],
    "from_slice_whole": _DECSRC + ["src/de.rs::Decoder::new", "src/de.rs::Decoder::decode", "src/de.rs::from_slice"],
    "enc_value_agrees": _ENCSRC, "encode_value_agrees": _ENCSRC, "encode_array_agrees": _ENCSRC, "encode_object_agrees": _ENCSRC,
    "encode_scalar_agrees": _ENCSRC + ["src/ser.rs::Encoder::encode_scalar"], "encode_agrees": _ENCSRC + ["src/ser.rs::Encoder::encode_scalar", "src/ser.rs::Encoder::encode"],
    "write_to_vec_agrees": _ENCSRC + ["src/ser.rs::Encoder::encode_scalar", "src/ser.rs::Encoder::encode", "src/ser.rs::Encoder::new", "src/value.rs::Value::write_to_vec"],
    "to_vec_agrees": _ENCSRC + ["src/ser.rs::Encoder::encode_scalar", "src/ser.rs::Encoder::encode", "src/ser.rs::Encoder::new", "src/value.rs::Value::write_to_vec", "src/value.rs::Value::to_vec"],
})
_BLDSRC = ["src/builder.rs::types Entry, ArrayBuilder, ObjectBuilder", "src/builder.rs::ArrayBuilder::build_into", "src/builder.rs::ObjectBuilder::build_into", "src/builder.rs::write_entry",
           "src/builder.rs::reserve_jentries", "src/builder.rs::replace_jentry"]
_PUSH = ["src/builder.rs::ArrayBuilder::new", "src/builder.rs::ArrayBuilder::push_raw", "src/builder.rs::ObjectBuilder::new", "src/builder.rs::ObjectBuilder::push_raw"]
_AIT = ["src/iterator.rs::struct ArrayIterator", "src/iterator.rs::iterate_array", "src/iterator.rs::ArrayIterator::next"]
_OIT = ["src/iterator.rs::struct ObjectEntryIterator", "src/iterator.rs::iterate_object_entries", "src/iterator.rs::ObjectEntryIterator::fill_keys", "src/iterator.rs::ObjectEntryIterator::next"]
TIE_SOURCES.update({
    "write_entry_agrees": _BLDSRC, "array_build_into_agrees": _BLDSRC, "object_build_into_agrees": _BLDSRC, "array_build_raw": _BLDSRC, "object_build_raw": _BLDSRC,
    "array_push_raw_agrees": _BLDSRC[:1] + _PUSH[:2], "object_push_raw_agrees": _BLDSRC[:1] + _PUSH[2:],
    "iterate_object_entries_drain": _OIT,
    "delete_jsonb_by_index_agrees": _BLDSRC + _PUSH + _AIT + ["src/functions.rs::delete_jsonb_by_index"],
    "delete_by_index_agrees": _BLDSRC + _PUSH + _AIT + ["src/functions.rs::delete_jsonb_by_index", "src/functions.rs::delete_by_index", "src/functions.rs::is_jsonb"],
    "concat_jsonb_agrees": _BLDSRC + _PUSH + _AIT + _OIT + ["src/functions.rs::concat_jsonb"],
    "concat_agrees": _BLDSRC + _PUSH + _AIT + _OIT + ["src/functions.rs::concat_jsonb", "src/functions.rs::concat", "src/functions.rs::is_jsonb"],
    "delete_jsonb_by_name_agrees": _BLDSRC + _PUSH + _AIT + _OIT + ["src/functions.rs::delete_jsonb_by_name"],
    "array_insert_jsonb_agrees": _BLDSRC + _PUSH + _AIT + ["src/functions.rs::array_insert_jsonb"],
    "object_delete_jsonb_agrees": _BLDSRC + _PUSH + _OIT + ["src/functions.rs::object_delete_jsonb"],
    "object_pick_jsonb_agrees": _BLDSRC + _PUSH + _OIT + ["src/functions.rs::object_pick_jsonb"],
    "array_distinct_jsonb_agrees": _BLDSRC + _PUSH + _AIT + ["src/functions.rs::array_distinct_jsonb", "src/jentry.rs::derive(Ord) for JEntry"],
    "array_intersection_jsonb_agrees": _BLDSRC + _PUSH + _AIT + ["src/functions.rs::array_intersection_jsonb", "src/jentry.rs::derive(Ord) for JEntry"],
    "array_except_jsonb_agrees": _BLDSRC + _PUSH + _AIT + ["src/functions.rs::array_except_jsonb", "src/jentry.rs::derive(Ord) for JEntry"],
    "lawful_key_cmp": ["src/jentry.rs::derive(Ord) for JEntry"],
})
for _k in ("null", "true", "false", "string", "number", "container"):
    TIE_SOURCES["make_%s_jentry_agrees" % _k] = ["src/jentry.rs::struct JEntry", "src/jentry.rs::JEntry::make_%s_jentry" % _k]
    TIE_SOURCES["%s_word_agrees" % _k] = ["src/jentry.rs::struct JEntry", "src/jentry.rs::JEntry::make_%s_jentry" % _k, "src/jentry.rs::JEntry::encoded"]

EXTRA_THEOREMS = {
    "C09": {"modules": ["JsonbModel.Proofs.PathEscapes", "JsonbModel.Proofs.PathArith"],
            "theorems": ["C09_every_rendering_rooted_esc", "C09_every_rendering_predicate_esc", "C09_esc_contains_plain", "C09_C16_string_decodes",
                         "C09_every_rendering_rooted_arith", "C09_every_rendering_predicate_arith", "C09_arith_contains_esc",
                         "C09_arith_binary_predicate", "C09_arith_unary_predicate", "C09_print_parse_arith"]},
    "C16": {"modules": ["JsonbModel.Proofs.PathEscapes"],
            "theorems": ["C16_every_rendering_esc", "C16_esc_contains_plain", "C09_C16_string_decodes"]},
}

# translator phases: (tool, root module of its agreement theorems)
TIE_PHASES = [("rs2lean.py", "TranslatedAgree"), ("rs2lean2.py", "TranslatedAgreeB"), ("rs2lean3.py", "TranslatedAgreeC"),
              ("rs2lean4.py", "TranslatedAgreeD"), ("rs2lean5a.py", "TranslatedAgreeE"), ("rs2lean5b.py", "TranslatedAgreeF"),
              ("rs2lean6a.py", "TranslatedAgreeG"), ("rs2lean6b.py", "TranslatedAgreeH"),
              ("rs2lean6c.py", "TranslatedAgreeI"), ("rs2lean6d.py", "TranslatedAgreeJ"), (None, "TranslatedAgreeJ8"),
              ("rs2lean7.py", "TranslatedAgreeK")]

# phase 7 (the public dispatchers of the editors and set functions WITH their JSON-text branch, Proofs/TranslatedAgreeK*)
_K_ED = ["array_insert_whole", "object_insert_whole", "delete_by_index_whole", "delete_by_name_whole", "object_delete_whole", "object_pick_whole",
         "strip_nulls_whole", "strip_value_nulls_agrees", "concat_whole", "concat_values_agrees"]
_K_SET = ["array_distinct_whole", "array_intersection_whole", "array_except_whole", "array_overlap_whole"]
_K_TIE = {"C06": _K_ED, "C07": ["concat_whole", "delete_by_index_whole", "delete_by_name_whole", "strip_nulls_whole"], "C13": _K_SET,
          "C17": ["array_distinct_whole", "array_insert_whole", "object_insert_whole", "concat_whole", "strip_nulls_whole", "object_delete_whole"],
          "C10": ["array_length_whole_text", "value_array_length_agrees"], "C11": ["array_length_whole_text", "array_distinct_whole", "concat_whole"]}

# phase 6c (renderer, serde bridge, remaining editors: Proofs/TranslatedAgreeI*), 6d (path parsers / printers: TranslatedAgreeJ*, bridge J8)
_REN = ["to_string_encodeSpec_agrees", "to_string_encodeSpec_spec", "to_pretty_string_encodeSpec_agrees", "to_pretty_string_encodeSpec_spec", "to_string_agrees", "container_to_string_agrees"]
_SER = ["to_serde_json_encodeSpec_agrees", "to_serde_json_encodeSpec_spec", "to_serde_json_object_encodeSpec_agrees"]
_ED2 = ["strip_nulls_encodeSpec_agrees", "object_insert_jsonb_agrees", "object_insert_encodeSpec_agrees", "delete_by_keypath_encodeSpec_agrees", "delete_by_keypath_jsonb_agrees",
        "build_array_agrees", "build_object_agrees"]
_KPP = ["check_escaped_split", "raw_string_agrees", "string_agrees", "parse_key_paths_agrees", "parse_key_paths_model", "key_path_fmt_agrees", "key_paths_fmt_agrees", "parse_key_paths_translated"]
_JPP = ["check_escaped_split", "raw_string_agrees", "string_agrees", "expr_or_agr", "json_path_agr", "parse_json_path_agrees", "parse_json_path_model", "index_fmt_agrees",
        "array_index_fmt_agrees", "path_value_fmt_agrees", "binary_operator_fmt_agrees", "unary_arith_operator_fmt_agrees", "binary_arith_operator_fmt_agrees",
        "path_fmt_agrees", "expr_fmt_agrees", "json_path_fmt_agrees", "parse_json_path_translated"]
for _p, _l in {"C03": _REN, "C19": _SER + _REN[:2], "C06": _ED2, "C07": _ED2[:5], "C13": ["array_overlap_encodeSpec_agrees"], "C17": ["build_array_agrees", "build_object_agrees"],
               "C16": _KPP, "C09": _JPP, "C20": ["delete_by_keypath_encodeSpec_agrees", "to_pretty_string_encodeSpec_agrees"]}.items():
    TIE[_p] = TIE[_p] + [x for x in _l if x not in TIE[_p]]

# phase 6a (selector.rs + path functions, Proofs/TranslatedAgreeG*), 6b (parser.rs + util.rs, Proofs/TranslatedAgreeH*)
_SELW = ["select_object_values_agrees", "select_array_values_agrees", "select_by_name_agrees", "select_by_indices_agrees", "select_path_agrees", "find_positions_agrees",
         "filter_expr_agrees", "compare_agrees", "partial_cmp_agrees", "convert_expr_val_paths"]
_SELM = ["select_agrees'", "exists_agrees", "predicate_match_agrees", "is_predicate_agrees", "path_exists_agrees", "path_match_agrees", "get_by_path_agrees",
         "get_by_path_first_agrees", "get_by_path_array_agrees", "path_exists_whole", "path_match_whole", "get_by_path_whole", "get_by_path_first_whole", "get_by_path_array_whole"]
_SELB = ["build_values_agrees", "build_scalar_array_agrees", "build_predicate_result_agrees"]
_JPAR = ["parse_value_agrees", "parse_value_ne_fuel", "parse_json_value_agrees", "parser_parse_json_string_agrees", "parser_parse_json_number_agrees", "parser_skip_unused_agrees",
         "parser_step_digits_agrees", "parse_string_sim", "parse_escaped_string_sim", "encode_invalid_unicode_agrees", "parser_parse_json_null_agrees",
         "parser_parse_json_true_agrees", "parser_parse_json_false_agrees", "parser_next_agrees", "parser_must_is_agrees", "parser_parse_agrees"]
for _p, _l in {"C08": _SELW + _SELM[:4], "C15": _SELM + _SELB, "C17": _SELB, "C07": ["select_agrees'"], "C20": ["select_by_indices_agrees"],
               "C02": _JPAR, "C10": ["parse_value_agrees", "parse_value_ne_fuel", "from_slice_text_whole"], "C11": ["parse_value_agrees", "from_slice_text_whole"] + _SELM[9:]}.items():
    TIE[_p] = TIE[_p] + [x for x in _l if x not in TIE[_p]]

# phase 5b (tools/rs2lean5b.py, Proofs/TranslatedAgreeF*.lean): compare, comparable key, contains
_CMP = ["compare_encodeSpec_agrees", "compare_jsonb_agrees", "compare_text_agrees", "compare_scalar_agrees", "compare_container_agrees", "keysAreStrings_encodeSpec"]
_KEY = ["convert_to_comparable_encodeSpec_agrees", "convert_to_comparable_jsonb_agrees", "convert_to_comparable_text_agrees", "scalar_convert_to_comparable_agrees", "key_image"]
_CON = ["contains_encodeSpec_agrees", "contains_jsonb_doc_agrees", "contains_text_agrees", "contains_jsonb_agrees", "scalar_eq_agrees", "array_contains_agrees", "number_eq_agrees"]
for _p, _l in {"C04": _CMP, "C14": _KEY + _CMP[:2], "C12": _CON, "C11": ["compare_text_agrees", "contains_text_agrees", "convert_to_comparable_text_agrees"],
               "C17": ["convert_to_comparable_jsonb_agrees"], "C20": ["compare_encodeSpec_agrees", "convert_to_comparable_encodeSpec_agrees"]}.items():
    TIE[_p] = TIE[_p] + [x for x in _l if x not in TIE[_p]]
_GC = ["src/functions.rs::compare_scalar", "src/functions.rs::compare_container", "src/functions.rs::compare_array", "src/functions.rs::compare_object", "src/functions.rs::compare"]
_GK = ["src/functions.rs::scalar_convert_to_comparable", "src/functions.rs::array_convert_to_comparable", "src/functions.rs::object_convert_to_comparable", "src/functions.rs::convert_to_comparable"]
_GN = ["src/number.rs::Number::eq", "src/functions.rs::scalar_eq", "src/functions.rs::array_contains", "src/functions.rs::contains_jsonb", "src/functions.rs::contains"]
TIE_SOURCES.update({n: _GC for n in _CMP[:5]})
TIE_SOURCES.update({"keysAreStrings_encodeSpec": []})
TIE_SOURCES.update({n: _GK for n in _KEY})
TIE_SOURCES.update({n: _GN for n in _CON})

# phase 5a (tools/rs2lean5a.py, Proofs/TranslatedAgreeE*.lean): the read-only accessors and casts
_ACC = ["get_by_index_agrees", "get_by_name_agrees", "object_keys_agrees", "array_values_agrees", "object_each_agrees", "type_of_agrees",
        "as_null_agrees", "as_bool_agrees", "as_number_agrees", "as_str_agrees", "get_by_keypath_agrees",
        "exists_jsonb_key_lazy", "exists_jsonb_key_model", "exists_jsonb_key_cases", "exists_all_keys_agrees", "exists_all_keys_model",
        "exists_any_keys_agrees", "exists_any_keys_model", "traverse_check_string_agrees"]
_CASTS = ["as_i64_fn_agrees", "as_u64_fn_agrees", "as_f64_fn_agrees", "to_bool_agrees", "to_i64_agrees", "to_u64_agrees", "to_f64_agrees", "to_str_agrees",
          "to_bool_jsonb", "to_i64_jsonb", "to_u64_jsonb"]
_WHOLE = ["get_by_index_whole", "get_by_name_whole", "object_keys_whole", "array_values_whole", "object_each_whole", "type_of_whole", "as_null_whole", "as_bool_whole",
          "as_number_whole", "as_str_whole", "get_by_keypath_whole", "traverse_check_string_whole", "exists_all_keys_whole", "exists_any_keys_whole"]
for _p, _l in {"C05": _ACC + _CASTS, "C11": _WHOLE, "C18": _CASTS, "C07": ["get_by_index_agrees", "get_by_name_agrees", "get_by_keypath_agrees", "object_keys_agrees"],
               "C20": ["get_by_keypath_agrees"]}.items():
    TIE[_p] = TIE[_p] + [x for x in _l if x not in TIE[_p]]


for _p, _l in _K_TIE.items():
    TIE[_p] = TIE[_p] + [x for x in _l if x not in TIE[_p]]
TIE_SOURCES.update({"build_array_agrees": ["src/functions.rs::build_array", "src/functions.rs::build_array_into"],
                    "build_object_agrees": ["src/functions.rs::build_object", "src/functions.rs::build_object_into"],
                    "value_array_length_agrees": ["src/value.rs::Value::array_length"],
                    "array_length_whole_text": ["src/functions.rs::array_length", "src/value.rs::Value::array_length"]})


def tie_sources(name, functions):
    """the source declarations an agreement theorem is about: the explicit table, or by its name
    (suffixes such as _agrees / _whole / _encodeSpec_spec / _translated stripped, `parser_` prefix dropped)"""
    if name in TIE_SOURCES:
        return TIE_SOURCES[name]
    import re as _re
    stem = name
    while True:
        t = _re.sub(r"(_fn_agrees|_agrees_eq|_agrees'|_agrees|_agr|_sim|_whole|_jsonb|_doc|_lazy|_model|_cases|_loop|_drain|_run|_overflow|_encodeSpec|_spec|_translated|_split|_text)$", "", stem)
        if t == stem:
            break
        stem = t
    stem = _re.sub(r"^parser_", "", stem)
    hits = [k for k in functions if k.endswith("::" + stem) or k.endswith("::" + stem + "_jsonb")]
    # a recursive group is ONE block: `src/parser.rs::group parser (parse_json_value, parse_json_array, …)`
    hits += [k for k in functions if _re.search(r"::(?:group|types)\b.*[(, ]%s[,)]" % _re.escape(stem), k)]
    if not hits and stem.endswith("_fmt"):
        # Display impls: `path_value_fmt` is about `PathValue::fmt`
        want = stem[:-4].replace("_", "")
        hits = [k for k in functions if k.endswith("::fmt") and k.split("::")[-2].lower() == want]
    if not hits:
        # functions whose public name differs from the translated worker
        extra = {"strip_nulls": ["strip_nulls_jsonb", "strip_nulls_array", "strip_nulls_object"], "convert_expr_val_paths": ["convert_expr_val"],
                 "delete_by_keypath": ["delete_by_keypath_jsonb"]}
        for e in extra.get(stem, []) + extra.get(name, []):
            hits += [k for k in functions if k.endswith("::" + e)]
    return hits

def stale_closure(gen_dir, unsupported):
    """the translated blocks whose meaning depends on a block in `unsupported` (declarations whose current source is
    outside the translators' subset, so that their LAST translation was kept): a block that calls a stale
    definition is about old code too.  Over-approximation by names (a definition of block A occurring as a token
    in block B makes B depend on A)."""
    import re as _re, os as _os
    blocks = {}
    for fn in sorted(_os.listdir(gen_dir)):
        if not _re.match(r"Translated\w*\.lean$", fn):
            continue
        for m in _re.finditer(r"^-- BEGIN (.+?)\n(.*?)^-- END ", open(_os.path.join(gen_dir, fn)).read(), _re.S | _re.M):
            blocks[m.group(1)] = m.group(2)
    defs = {k: set(_re.findall(r"^\s*(?:partial\s+|private\s+|protected\s+)*(?:def|structure|inductive|abbrev)\s+([\w.']+)", b, _re.M)) for k, b in blocks.items()}
    toks = {k: set(_re.findall(r"[\w.']+", b)) for k, b in blocks.items()}
    def uses(b, a):
        # the translators emit fully qualified calls (`Parser.next self`, `cmp_int_float i f`) in one flat namespace
        return any(n in toks[b] or ("Tr." + n) in toks[b] or ("Jsonb.Tr." + n) in toks[b] for n in defs[a])
    stale = {k for k in unsupported if k in blocks}
    work = list(stale)
    while work:
        a = work.pop()
        for b in blocks:
            if b not in stale and uses(b, a):
                stale.add(b); work.append(b)
    return stale | set(unsupported)


TRUSTED_BASE = [
    "Lean 4.33.0 kernel (thorough tier re-checks the theorem module with leanchecker)",
    "axioms: only propext, Classical.choice, Quot.sound (audited per theorem by #print axioms on every run); no native_decide, no bv_decide, no user axioms, no sorry",
    "tools/rs2lean.py + rs2lean2.py + rs2lean3.py + rs2lean4.py + rs2lean5a.py + rs2lean5b.py + rs2lean6a.py + rs2lean6b.py + rs2lean6c.py + rs2lean6d.py + rs2lean7.py (translators of about 310 declarations — practically every function of the crate the properties are about of /repo/src to Lean: number codec and order, entry words, index arithmetic, byte walkers, iterators, entry patching, escaper, the recursive Decoder of de.rs and Encoder of ser.rs, the builders of builder.rs and eleven byte-level editors / set functions and 31 read-only accessors and casts, the compare / comparable-key / contains families of functions.rs, the JSONPath selector and the path functions, the JSON text parser with util.rs, the renderer, the serde bridge, the remaining editors, the JSONPath / key-path parsers and printers over a table nom combinator -> Nom.lean definition, and the public dispatchers of the editors and set functions with their JSON-text branches; regenerated every run) with lean/JsonbModel/RustPrelude*.lean (hand-written meaning of the Rust primitives they emit: integer casts, checked arithmetic, byte conversions, slices, loops as bounded folds, recursion on explicit fuel, BTreeMap as a sorted list, from_utf8 as validUtf8, OrderedFloat); the agreement theorems tie their output to the model",
    "tools/gen_constants.py (translator constants.rs -> Lean) and the line-protocol glue (lean/JsonbModel/Driver/*.lean, harness/src/wire.rs)",
    "the correspondence check itself: the hand-written implementation model is tied to /repo by sampled differential runs (request stream of this run, see coverage)",
    "modelled, not verified: Rust slice/Vec/integer-cast semantics, BTreeMap ordering, byteorder; the spec layer is my reading of the README and the property text",
]

PROPS = {
    "C01": {
        "panic_is_violation": True,
        "proved": "decode(encodeSpec v) = norm v for every good v (any nesting, unbounded); re-encode identity; the reserve-and-patch Encoder model writes exactly the README layout (toVec v = encodeSpec v); injectivity; shortest number width; entry length exactness",
        "missing": "",
        "assumptions": ["values within the format's field widths (count < 2^29, nested payload < 2^28 bytes: `goodTop`), strings valid UTF-8 (guaranteed by Rust's str)"],
    },
    "C18": {
        "panic_is_violation": True,
        "proved": "codec round trip for every i64/u64/f64 bit pattern (NaN -> canonical NaN, +/-inf preserved), shortest width, malformed shapes rejected, decoder never panics; the literal model of impl Ord for Number (incl. cmp_int_float and OrderedFloat) equals the order of exact values (NaN greatest, -0 = +0), hence reflexive/antisymmetric/transitive; int = uint iff same integer; int = float iff the float's exact value is that integer; as_i64/as_u64 exact or absent; as_f64 of a u64 is within half an ulp, exact below 2^53, monotone",
        "missing": "nothing known (the nearest-double statement covers every i64, negative ones included: C18_as_f64_int, monotone: C18_as_f64_int_monotone)",
        "assumptions": [],
    },
    "C10": {
        "panic_is_violation": True,
        "proved": "for every byte string the decoder model returns ok or err (never a panic site, never out of fuel: C10_total); every string and key it returns is valid UTF-8 (C10_utf8); every proper prefix of a valid encoding is rejected and a valid encoding is consumed exactly (C10_prefix_rejected, C10_valid_decodes); every text shorter than 2^27 bytes whose first byte can start a JSON text (other than a space) is rejected by the binary decoder, so from_slice hands it to the text parser (C10_text_fallback); from_slice never panics",
        "missing": "nothing: the text-fallback theorem is sharp now (no bound for first bytes other than '[' and the backslash; for those, fewer than 8 * header-count bytes after the first four, in particular every text below 3 623 878 660 bytes); beyond that bound the statement is FALSE (known finding D23, C10_finding_long_text_read_as_binary, confirmed on the real code by hand)",
        "assumptions": [],
    },
    "C05": {
        "panic_is_violation": True,
        "proved": 'refinement theorems for EVERY accessor on the README layout of any good document (unbounded, any nesting): array_length, get_by_index (all indices), get_by_name (exact first, then first ignore-case match in key order), get_by_keypath (negative indices, i = len, past scalars), object_keys, object_each, array_values, type_of, as_null/bool/number/str, is_array/object, exists_all/any_keys, traverse_check_string (hit iff some string or key satisfies the test); every sub-value handed back is the canonical encoding of a good value',
        "missing": 'casts are proved against tree-level specifications (C05_to_bool / to_i64 / to_u64 / to_f64 / to_str, as_i64 / as_u64 / as_f64, is_*; views exact or absent); what remains external is Rust str::parse itself (modelled as Fn.parseI64 / parseU64 / parseF64, validated by the strf64 / toi64 / tou64 requests)',
        "assumptions": ['documents are canonical encodings of good values (field widths, valid UTF-8, sorted unique keys)'],
    },
    "C06": {
        "panic_is_violation": True,
        "proved": 'builder frame/layout theorem (nested builders, unconditional); refinement theorems into ANY prior buffer for concat (all five cases), delete_by_name, delete_by_index (every i32), delete_by_keypath (every key path), array_insert (every i32 position, clamping), object_insert (insert/update and both documented errors, returned before the buffer is touched), object_delete, object_pick, strip_nulls (nulls at every depth), build_array, build_object (keys in any order, repeats: last wins)',
        "missing": "none of the listed editors is left without a refinement theorem; side conditions are the format's field widths on the RESULT (count < 2^29, embedded payload < 2^28)",
        "assumptions": ['documents are canonical encodings of good values (field widths, valid UTF-8, sorted unique keys)'],
    },
    "C12": {
        "panic_is_violation": True,
        "proved": "for the rule set as a tree function: array rule (every right element matched, scalars by equality, containers by containment), invariance under permutation and duplication of the right array, object rule (every member under the same key), bare-scalar rule, scalar equality = compare equality, reflexivity (good documents), transitivity (unconditional for well-formed numbers; the top-level special case composes), fuel independence",
        "missing": "nothing known: the byte-level refinement Fn.contains (enc a) (enc b) = Spec.contains a b is now proved for all good documents (C12_contains_refines); outside good documents (e.g. raw bytes with duplicate keys) the two differ, which the property does not cover",
        "assumptions": ["documents are canonical encodings of good values"],
    },
    "C13": {
        "panic_is_violation": True,
        "proved": 'list-level laws (first occurrence, no repeats, idempotence, intersection/except partition the first list by one decision sequence, overlap iff intersection non-empty) and byte-level refinement of array_distinct, array_intersection, array_except, array_overlap for array, object and scalar operands, results canonical arrays in any prior buffer',
        "missing": 'nothing known (count formula: C13_counts)',
        "assumptions": ['documents are canonical encodings of good values (field widths, valid UTF-8, sorted unique keys)'],
    },
    "C14": {
        "panic_is_violation": True,
        "proved": "NEGATIONS with concrete witnesses (kernel-evaluated on the byte-level model of convert_to_comparable): the key is not an order embedding (string bytes vs depth markers), not injective (string prefix + control bytes; integers beyond 2^53), and separates -0.0 from 0. These are the known findings D14a/b/c.",
        "missing": "positive theorems (C14_embedding_partial, C14_key_eq_iff_partial, C14_key_refines) hold on the restricted domain only: flat-enough documents whose string bytes exceed the depth markers that can follow them, numbers exactly representable as f64, no -0.0; C14_not_embedding_deep shows the restriction is needed; outside the finding classes the real code is decided by the keyorder oracle and by correspondence of the key bytes",
        "assumptions": ["documents are canonical encodings of good values", "nesting below 255 (depth + 1 overflows a u8 beyond that: see C20)"],
    },
    "C04": {
        "panic_is_violation": True,
        "proved": 'Fn.compareDocs (enc a) (enc b) = cmpJV a b for ANY two good documents (byte walker refinement, unbounded); cmpJV reflexive, antisymmetric, transitive; Equal iff equal as JSON values (numbers by exact value across encodings); different kinds by the documented ranking; arrays element-wise then length',
        "missing": "the text/JSONB equivalence of compare's arguments is C11",
        "assumptions": ['documents are canonical encodings of good values'],
    },
    "C02": {
        "panic_is_violation": True,
        "proved": 'the parser model (parser.rs + util.rs as written, every index / slice / unwrap an explicit panic outcome) is total for every byte string; THE ACCEPTED LANGUAGE IS EXACTLY THE DOCUMENTED ONE: parseValue t = ok v iff Relaxed.parse t = some v, where Relaxed.parse is a specification of RFC 8259 plus exactly the listed relaxations written independently of the parser (C02_exactly_the_documented_language, C02_everything_else_rejected); every RFC 8259 document accepted with the value it denotes against an independent strict reader (C02_rfc8259_accepted); integers exact in u64 / i64, every other number the correctly rounded double, last duplicate key wins',
        "missing": "float rounding is exact big-Nat arithmetic (F64.ofDecimal) shared by model and specification, validated against the real parser and std's parse on 1..19-digit decimals; three undocumented quirks of the unpaired-surrogate relaxation are part of the specification and listed in DESIGN 13.6",
        "assumptions": [],
    },
    "C03": {
        "panic_is_violation": True,
        "proved": "for every good document and every float formatter that is good on the document's floats: to_string and to_pretty_string (byte-level walker model over the binary layout) produce text that the independent strict RFC 8259 parser accepts, reading back a value equal to the original (identical when non-negative integers are stored unsigned, hence identical re-encoding); pretty = compact after removing insignificant whitespace; the escaper emits no byte < 0x20 and the strict string reader inverts it for every byte string; integers print/parse exactly",
        "missing": "nothing about ryu itself: fmtOK (grammar + correctly rounded value = the bits) is checked per instance on ryu's real output by goodFmt; the two-space / one-member-per-line shape is checked on the real text by the harness",
        "assumptions": ["finite numbers (NaN excluded; infinities print as non-JSON tokens and are outside the property)", "documents are canonical encodings of good values"],
    },
    "C08": {
        "panic_is_violation": True,
        "proved": 'REFINEMENT of the byte-level selector (find_positions frontier, select_* walkers, filter dispatch, value collection, comparison, writers) against the tree-level denotation evalPaths, for every good document and every path: all mode appends exactly the canonical encodings of the denoted items in document order with their end offsets (sound at every fuel; complete; no panic; error iff the path denotes nothing); first / array / mixed / predicate modes; path_exists / path_match exact; EVERY AST parse_json_path accepts is covered (C08_parser_builds_supported, C08_parser_wellformed); the fuel the functions run with is adequate (C08_fuel_adequate, quantitative termination) and END TO END for every accepted text and good document (C08_end_to_end); frame property of the writers; exact in-range index arithmetic',
        "missing": "nothing known for the four modes (first / array / mixed are exact too: C08_select_first_exact / array_exact / mixed_exact, no panic in any mode); cross-kind comparisons follow the code's derived order (not judged by the property)",
        "assumptions": ['documents are canonical encodings of good values; array/mixed: document below 2^28 bytes and fewer than 2^29 items'],
    },
    "C09": {
        "panic_is_violation": True,
        "proved": 'parser model over a model of the nom 7.1.3 combinators total for every byte string; print -> parse identity for the whole documented language: steps, index lists, ranges, `last` offsets, filter steps and predicates with comparisons of `$`/`@` operand paths and literals of every scalar kind (negative, fractional, exponent numbers, the empty string), `&&` / `||` in any nesting (printer parentheses faithful), `exists` with nested filters (C09_print_parse); `&&` binds tighter than `||` (C09_precedence); EVERY rendering with arbitrary white-space runs, `last`/`to` in any case, any quoting style of names, escapes in quoted strings, `!=`/`<>` parses to the structure it renders (C09_every_rendering_*, C09_every_style); accepted ASTs are well formed (i32 indices, u64/i64 literals, valid UTF-8)',
        "missing": 'known findings D22a (`."5e"` prints as `.5e`, rejected) and D22b (`-1e999` prints as `-inf`, rejected), proved as C09_finding_*; float literals depend on the formatter hypothesis goodFloat; arithmetic atoms (C09_arith_*, C09_print_parse_arith) and `\\u{…}` / surrogate-pair escapes in quoted names and string literals (C09_every_rendering_*_esc) are proved; escapes in UNQUOTED names and unpaired surrogates (kept literal, proved as such) rest on correspondence',
        "assumptions": [],
    },
    "C15": {
        "panic_is_violation": True,
        "proved": "on every good document and every path with well-formed operands, between the MODEL results of the modes: one item list gives all four modes for every prior buffer, or all four fail alike (C15_modes_consistent); array-mode holds exactly the documents delimited by the all-mode offsets (C15_array_holds_all_items, C15_offsets_cut_items); first = bytes up to the first all-mode offset or nothing (C15_first_from_all); mixed rule; exists iff all-mode non-empty; predicate paths give path_match's boolean in every mode with exists true",
        "missing": 'array / mixed statements need the document below 2^28 bytes and fewer than 2^29 items (field widths)',
        "assumptions": [],
    },
    "C16": {
        "panic_is_violation": True,
        "proved": 'key path parser total for every byte string; every brace-delimited rendering with arbitrary white space around braces, commas and elements parses to its elements (signed integer -> index, quoted string with escapes decoded -> quoted name, name characters -> plain name; C16_every_rendering, C16_empty_any_spacing); print -> parse identity whenever names need no escapes; unterminated quotes / missing braces are errors',
        "missing": 'nothing known for quoted names (every escaped spelling incl. `\\u{…}` and surrogate pairs: C16_every_rendering_esc); escapes in UNQUOTED names rest on correspondence',
        "assumptions": [],
    },
    "C17": {
        "panic_is_violation": True,
        "proved": 'UNCONDITIONAL frame theorems — every input (valid or not), every prior buffer — for every buffer-writing function: concat, delete_by_name / index / keypath, array_insert, object_insert / delete / pick, strip_nulls, array_distinct / intersection / except, build_array, build_object, convert_to_comparable (incl. its text branch), path selection in every mode incl. predicate paths with offsets as positions in that same buffer (C17_select); Encoder (reserve and patch) frame for good values; a documented error carries no buffer',
        "missing": 'nothing known: the encoder frame holds for EVERY value, also outside the field widths (C17_write_to_vec_any / _total); the offsets reported by path selection are positions in the caller buffer (C17_select); the clause `nothing is appended when the call fails` is outside the model (its functions return no buffer on error): it is decided on the real code by the err / err-dirty / err-prefix-clobbered answers of the streams (defect D24 of build_array / build_object found this way and repaired in /repo)',
        "assumptions": [],
    },
    "C11": {
        "panic_is_violation": True,
        "proved": "for every text t sniffed as text with parse_value t = Ok v (v inside the field widths, fewer than 2^24 top-level members) and every other argument: each public function of functions.rs, modelled WITH its sniffing and its text branch (T.*), returns on t exactly what it returns on encodeSpec v = parse_value(t).to_vec(): generic theorems for the parse-encode-run shape with one and two document arguments in all four text/binary combinations (array_insert, object_insert, array_distinct/intersection/except/overlap, object_delete/pick, to_serde_json), and individual theorems through the C05/C06/C04 refinements for the functions with a tree implementation of the text branch (array_length, type_of, get_by_index/name/keypath, object_keys, as_null/bool/number/str, exists_all_keys, strip_nulls, delete_by_name, traverse_check_string, convert_to_comparable, path_exists, get_by_path*, compare in its three text cases, parse_lazy_value, contains and concat in all three text/binary combinations (through from_slice + C10_text_fallback + the C12 / C06 refinements), delete_by_index on any text; and the remaining wrappers, so that every is_jsonb sniffing site of functions.rs is covered: path_match, get_by_path*, exists_any_keys, object_each, array_values, is_array / is_object / is_null / is_boolean / is_number / is_string, as_i64 / as_u64 / as_f64, is_i64 / is_u64 / is_f64, to_bool / to_i64 / to_u64 / to_f64 / to_str, to_serde_json_object, delete_by_keypath, to_string / to_pretty_string (text is echoed; both renderings denote the same document))",
        "missing": 'f64-valued results are stated up to NaN canonicalisation (no text denotes a NaN); D21: first byte of a valid array with >= 2^24 elements is 0x81.., which is_jsonb takes for text (C11_sniff_false_huge, known finding)',
        "assumptions": ["text accepted by parse_value, not starting with a space, value inside the field widths"],
    },
    "C19": {
        "panic_is_violation": True,
        "proved": "for every good document with finite numbers (unbounded size and depth): the byte walker to_serde_json on the encoding = the tree conversion From<Value> (C19_walker_refines), which equals what the independent strict RFC 8259 reader of C03 reads from to_string's text, converted (C19_same_as_strict_parse); numbers as the same u64 / i64 / f64 (C19_number_kinds); object-only variant (C19_object_variant); Value -> serde -> Value gives an equal value, identical when integers are unsigned (C19_value_roundtrip); serde -> Value -> serde gives the same serde value with members in key order, identical when already sorted (C19_serde_roundtrip); on non-finite floats the walker returns an error where the tree conversion panics, first failure in the same place (C19_walker_total)",
        "missing": "behaviour of to_serde_json on bytes that are not encodings of good trees is outside; ryu float text enters as the hypothesis fmtOK (validated per instance as in C03); serde_json's own Map/Number semantics are modelled (insertion-ordered, replace on duplicate; PosInt/NegInt/Float)",
        "assumptions": ["finite numbers"],
    },
    "C07": {
        "panic_is_violation": True,
        "proved": "CHAIN THEOREM by induction over the operation list, for all 20 operations (concat, delete by name/index/key path, array_insert, object_insert, object_delete/pick, strip_nulls, get_by_index/name/keypath, object_keys, array_distinct/intersection/except, build_array, build_object, get_by_path_first/array) with arguments that are literals, the current document or a sub-value of it: the byte-level chain on encodeSpec v returns exactly the encodings of the tree-level chain (C07_chain), every intermediate tree is canonical (C07_chain_good), every intermediate byte string decodes with nothing trailing, re-encodes to the identical bytes (C07_intermediate_canonical) and byte equality coincides with value identity across chains (C07_chains_byte_eq_iff); the side conditions of the growing operations are pure size bounds (C07_sizes: sortedness/uniqueness of keys, UTF-8, number ranges and nested lengths are preserved without assumption); a sound Bool checker of the side conditions (C07_checker) and two kernel-checked chains covering all 20 operations",
        "missing": "results must stay inside the format's field widths (count < 2^29, embedded payload < 2^28): pure size bounds (C07_sizes); JSONPath steps need no fuel hypothesis any more (C07_path_supp / C07_path_parsed)",
        "assumptions": ["start document is the canonical encoding of a good value; literal arguments are canonical documents"],
    },
    "C20": {
        "panic_is_violation": True,
        "proved": "the models make every overflow / index / slice / unwrap of the Rust code an explicit panic outcome and the theorems quantify over every good document, i.e. every nesting depth: encoder, decoder, text parser, renderer and compare have no depth-dependent failure (C20_any_depth_logic, C20_any_depth_to_string); the depth marker of convert_to_comparable cannot overflow (C20_depth_marker_total, repaired defect D20); delete_by_index, array_insert, delete_by_keypath, get_by_keypath and JSONPath index arithmetic are exact for every i32 including the minimum and maximum (C20_*_every_i32, C20_delete_by_index_min_max, C20_convert_index)",
        "missing": "consumption of the native stack by the recursive Rust functions cannot be exhibited by the model: observed on the real code by the `deep` ops, one process per case, depths 1..3000 must complete for every API, 10000 and beyond is known finding D15 for the recursive APIs and must complete for the iterative ones",
        "assumptions": [],
    },
}
