"""Per-property configuration of /verif/check: op classification and descriptive texts."""

# op -> kind.  corr: Rust vs implementation model (correspondence).  oracle: Rust vs the spec
# answer that the property theorems say must come out (property oracle on the real code).
OPS = {
    "numenc": "corr", "numdec": "corr", "enc": "corr", "encinto": "corr", "dec": "corr",
    "encspec": "oracle", "rtdec": "oracle", "rtenc": "oracle", "numlaws": "oracle", "cmplaws": "oracle", "containslaws": "oracle", "keyorder": "oracle", 
}


# oracle ops whose expected answer is a constant: the request carries the intended result, or the
# law is evaluated on the real code alone; anything but these answers is an oracle failure
CONST_OK = {"numlaws", "cmplaws", "containslaws", "keyorder", "tostrcheck", "jpexpect", "kpexpect", "jexpect",
            "jproundtrip", "kproundtrip", "modes"}
OK_ANSWERS = ("ok", "not-accepted", "not-applicable", "skip", "bad-path")


def kind_of(op):
    if op in CONST_OK:
        return "oracle"
    if op.startswith("spec:"):
        return "oracle"
    return OPS.get(op, "corr")

TRUSTED_BASE = [
    "Lean 4.33.0 kernel (thorough tier re-checks the theorem module with leanchecker)",
    "axioms: only propext, Classical.choice, Quot.sound (audited per theorem by #print axioms on every run); no native_decide, no bv_decide, no user axioms, no sorry",
    "tools/gen_constants.py (translator constants.rs -> Lean) and the line-protocol glue (lean/JsonbModel/Driver/*.lean, harness/src/wire.rs)",
    "the correspondence check itself: the hand-written implementation model is tied to /repo by sampled differential runs (request stream of this run, see coverage)",
    "modelled, not verified: Rust slice/Vec/integer-cast semantics, BTreeMap ordering, byteorder; the spec layer is my reading of the README and the property text",
]

PROPS = {
    "C01": {
        "panic_is_violation": True,
        "proved": "decode(encodeSpec v) = norm v for every good v (any nesting, unbounded); re-encode identity; the reserve-and-patch Encoder model writes exactly the README layout (toVec v = encodeSpec v); injectivity; shortest number width; entry length exactness",
        "missing": "",
        "assumptions": ["values within the format's field widths (count < 2^29, nested payload < 2^28 bytes: `goodTop`), strings valid UTF-8 (guaranteed by Rust's str)"],
    },
    "C18": {
        "panic_is_violation": True,
        "proved": "codec round trip for every i64/u64/f64 bit pattern (NaN -> canonical NaN, +/-inf preserved), shortest width, malformed shapes rejected, decoder never panics; the literal model of impl Ord for Number (incl. cmp_int_float and OrderedFloat) equals the order of exact values (NaN greatest, -0 = +0), hence reflexive/antisymmetric/transitive; int = uint iff same integer; int = float iff the float's exact value is that integer; as_i64/as_u64 exact or absent; as_f64 of a u64 is within half an ulp, exact below 2^53, monotone",
        "missing": "as_f64 nearest-double statement is proved for unsigned integers and (isInt) signed ones; the half-ulp bound for negative integers follows by symmetry but is not stated separately",
        "assumptions": [],
    },
    "C10": {
        "panic_is_violation": True,
        "proved": "for every byte string and every fuel the decoder model reaches no panic site; decode of a valid encoding consumes it exactly",
        "missing": "UTF-8 theorem, prefix rejection, text fallback",
        "assumptions": [],
    },
    "C05": {
        "panic_is_violation": True,
        "proved": 'refinement theorems for EVERY accessor on the README layout of any good document (unbounded, any nesting): array_length, get_by_index (all indices), get_by_name (exact first, then first ignore-case match in key order), get_by_keypath (negative indices, i = len, past scalars), object_keys, object_each, array_values, type_of, as_null/bool/number/str, is_array/object, exists_all/any_keys, traverse_check_string (hit iff some string or key satisfies the test); every sub-value handed back is the canonical encoding of a good value',
        "missing": 'to_bool/to_i64/to_u64/to_f64/to_str (string-sourced casts rest on the modelled str::parse, validated by the strf64/toi64/tou64 ops)',
        "assumptions": ['documents are canonical encodings of good values (field widths, valid UTF-8, sorted unique keys)'],
    },
    "C06": {
        "panic_is_violation": True,
        "proved": 'builder frame/layout theorem (nested builders, unconditional); refinement theorems into ANY prior buffer for concat (all five cases), delete_by_name, delete_by_index (every i32), delete_by_keypath (every key path), array_insert (every i32 position, clamping), object_insert (insert/update and both documented errors, returned before the buffer is touched), object_delete, object_pick, strip_nulls (nulls at every depth), build_array, build_object (keys in any order, repeats: last wins)',
        "missing": "none of the listed editors is left without a refinement theorem; side conditions are the format's field widths on the RESULT (count < 2^29, embedded payload < 2^28)",
        "assumptions": ['documents are canonical encodings of good values (field widths, valid UTF-8, sorted unique keys)'],
    },
    "C12": {
        "panic_is_violation": True,
        "proved": "for the rule set as a tree function: array rule (every right element matched, scalars by equality, containers by containment), invariance under permutation and duplication of the right array, object rule (every member under the same key), bare-scalar rule, scalar equality = compare equality, reflexivity (good documents), transitivity (unconditional for well-formed numbers; the top-level special case composes), fuel independence",
        "missing": "byte-level refinement Fn.contains (enc a) (enc b) = Spec.contains a b is not proved: correspondence + spec oracle",
        "assumptions": ["documents are canonical encodings of good values"],
    },
    "C13": {
        "panic_is_violation": True,
        "proved": 'list-level laws (first occurrence, no repeats, idempotence, intersection/except partition the first list by one decision sequence, overlap iff intersection non-empty) and byte-level refinement of array_distinct, array_intersection, array_except, array_overlap for array, object and scalar operands, results canonical arrays in any prior buffer',
        "missing": 'the count formula min(count xs, count ys) is not stated separately (it is implied by the removeFirst-based spec)',
        "assumptions": ['documents are canonical encodings of good values (field widths, valid UTF-8, sorted unique keys)'],
    },
    "C14": {
        "panic_is_violation": True,
        "proved": "NEGATIONS with concrete witnesses (kernel-evaluated on the byte-level model of convert_to_comparable): the key is not an order embedding (string bytes vs depth markers), not injective (string prefix + control bytes; integers beyond 2^53), and separates -0.0 from 0. These are the known findings D14a/b/c.",
        "missing": "the positive theorem on the restricted domain (string bytes >= 0x20, depth < 32, exactly representable numbers, no -0.0) is not proved yet; outside the three finding classes the property is decided by the keyorder oracle on the real code and by correspondence of the key bytes",
        "assumptions": ["documents are canonical encodings of good values", "nesting below 255 (depth + 1 overflows a u8 beyond that: see C20)"],
    },
    "C04": {
        "panic_is_violation": True,
        "proved": 'Fn.compareDocs (enc a) (enc b) = cmpJV a b for ANY two good documents (byte walker refinement, unbounded); cmpJV reflexive, antisymmetric, transitive; Equal iff equal as JSON values (numbers by exact value across encodings); different kinds by the documented ranking; arrays element-wise then length',
        "missing": "the text/JSONB equivalence of compare's arguments is C11",
        "assumptions": ['documents are canonical encodings of good values'],
    },
    "C02": {
        "panic_is_violation": True,
        "proved": "for every byte string parse_value's model returns a value or an error: never a panic (two-pass string scanner, data[0] after \\u, char::from_u32.unwrap, usize subtractions all shown safe), never out of fuel; u64/i64 integers exact (-0 is Int64(0), i64::MIN); completeness on compact RFC 8259 renderings of arbitrary trees with integer numbers (last duplicate key wins)",
        "missing": 'float literals: correct rounding is by construction of F64.ofDecimal (validated against fast_float2 by correspondence, not proved against an axiomatic real-number spec); soundness direction (accepted text is in the relaxed language) is decided by correspondence only; whitespace/escape-spelling variants beyond the compact renderer by the jexpect oracle',
        "assumptions": [],
    },
    "C03": {
        "panic_is_violation": True,
        "proved": "for every good document and every float formatter that is good on the document's floats: to_string and to_pretty_string (byte-level walker model over the binary layout) produce text that the independent strict RFC 8259 parser accepts, reading back a value equal to the original (identical when non-negative integers are stored unsigned, hence identical re-encoding); pretty = compact after removing insignificant whitespace; the escaper emits no byte < 0x20 and the strict string reader inverts it for every byte string; integers print/parse exactly",
        "missing": "nothing about ryu itself: fmtOK (grammar + correctly rounded value = the bits) is checked per instance on ryu's real output by goodFmt; the two-space / one-member-per-line shape is checked on the real text by the harness",
        "assumptions": ["finite numbers (NaN excluded; infinities print as non-JSON tokens and are outside the property)", "documents are canonical encodings of good values"],
    },
    "C08": {
        "panic_is_violation": True,
        "proved": 'selector model: writers of the item modes only append (frame), index arithmetic exact and in range, arithmetic expressions are an error of the evaluator (no todo!()), scalar root evaluates as a scalar position',
        "missing": 'refinement of find_positions against the tree-level evalPaths is not proved: decided by correspondence (model vs Rust) and the spec oracle (evalPaths on the decoded tree vs Rust) over paths drawn from the document',
        "assumptions": ['documents are canonical encodings of good values'],
    },
    "C09": {
        "panic_is_violation": True,
        "proved": "for every byte string parse_json_path's model (nom 7.1.3 combinators incl. Failure propagation) returns a path or an error: no panic, fuel adequate; print->parse identity for $ followed by member names, wildcards, index lists, ranges and last offsets over the whole i32 range",
        "missing": 'print->parse for filters/expressions and layout variants: decided by the jpexpect (intended structure shipped with the text) and jproundtrip oracles',
        "assumptions": [],
    },
    "C15": {
        "panic_is_violation": True,
        "proved": 'on the selector model: first = all truncated to one item, mixed = array if >= 2 items else all, exists iff all-mode non-empty, offsets delimit items (one per item, last at the end of data), predicate paths give the same boolean in every mode = predicate_match, exists true',
        "missing": 'array-mode holds exactly the all-mode items: evaluated on the real code by the modes oracle (array_values of the array result = the all-mode items)',
        "assumptions": [],
    },
    "C16": {
        "panic_is_violation": True,
        "proved": "for every byte string parse_key_paths' model returns key paths or an error (no panic, fuel adequate); print->parse identity for all key paths whose names need no escapes; the empty list",
        "missing": 'layout variants: kpexpect oracle',
        "assumptions": [],
    },
    "C17": {
        "panic_is_violation": True,
        "proved": "frame theorems, for every prior buffer content: Value::write_to_vec (Encoder with reserve_jentries/replace_jentry at absolute indices) appends exactly encodeSpec v; ArrayBuilder/ObjectBuilder build_into with nested builders append a prefix-independent image; delete_by_index, concat of arrays and array_distinct inherit it",
        "missing": "frame theorems for the remaining editors, build_array/build_object, the selector writers and convert_to_comparable (their models append by construction; tied by correspondence with non-empty prefixes)",
        "assumptions": [],
    },
}
