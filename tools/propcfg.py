"""Per-property configuration of /verif/check: op classification and descriptive texts."""

# op -> kind.  corr: Rust vs implementation model (correspondence).  oracle: Rust vs the spec
# answer that the property theorems say must come out (property oracle on the real code).
OPS = {
    "numenc": "corr", "numdec": "corr", "enc": "corr", "encinto": "corr", "dec": "corr",
    "encspec": "oracle", "rtdec": "oracle", "rtenc": "oracle", "numlaws": "oracle", "cmplaws": "oracle", "containslaws": "oracle", "keyorder": "oracle", "tostrcheck": "oracle", "jpexpect": "oracle", "kpexpect": "oracle", "jproundtrip": "oracle", "kproundtrip": "oracle",
}


def kind_of(op):
    if op.startswith("spec:"):
        return "oracle"
    return OPS.get(op, "corr")

TRUSTED_BASE = [
    "Lean 4.33.0 kernel (thorough tier re-checks the theorem module with leanchecker)",
    "axioms: only propext, Classical.choice, Quot.sound (audited per theorem by #print axioms on every run); no native_decide, no bv_decide, no user axioms, no sorry",
    "tools/gen_constants.py (translator constants.rs -> Lean) and the line-protocol glue (lean/JsonbModel/Driver/*.lean, harness/src/wire.rs)",
    "the correspondence check itself: the hand-written implementation model is tied to /repo by sampled differential runs (request stream of this run, see coverage)",
    "modelled, not verified: Rust slice/Vec/integer-cast semantics, BTreeMap ordering, byteorder; the spec layer is my reading of the README and the property text",
]

PROPS = {
    "C01": {
        "panic_is_violation": True,
        "proved": "decode(encodeSpec v) = norm v for every good v (any nesting, unbounded); re-encode identity; the reserve-and-patch Encoder model writes exactly the README layout (toVec v = encodeSpec v); injectivity; shortest number width; entry length exactness",
        "missing": "",
        "assumptions": ["values within the format's field widths (count < 2^29, nested payload < 2^28 bytes: `goodTop`), strings valid UTF-8 (guaranteed by Rust's str)"],
    },
    "C18": {
        "panic_is_violation": True,
        "proved": "codec round trip for every i64/u64/f64 bit pattern (NaN -> canonical NaN, +/-inf preserved), shortest width, malformed shapes rejected, decoder never panics; the literal model of impl Ord for Number (incl. cmp_int_float and OrderedFloat) equals the order of exact values (NaN greatest, -0 = +0), hence reflexive/antisymmetric/transitive; int = uint iff same integer; int = float iff the float's exact value is that integer; as_i64/as_u64 exact or absent; as_f64 of a u64 is within half an ulp, exact below 2^53, monotone",
        "missing": "as_f64 nearest-double statement is proved for unsigned integers and (isInt) signed ones; the half-ulp bound for negative integers follows by symmetry but is not stated separately",
        "assumptions": [],
    },
    "C10": {
        "panic_is_violation": True,
        "proved": "for every byte string and every fuel the decoder model reaches no panic site; decode of a valid encoding consumes it exactly",
        "missing": "UTF-8 theorem, prefix rejection, text fallback",
        "assumptions": [],
    },
    "C05": {
        "panic_is_violation": True,
        "proved": "refinement theorems (unbounded, any nesting): array_length and get_by_index on the README layout of a good document return the encoding of the tree answer, for every index; returned sub-values are canonical documents. Backbone lemmas proved for all walkers: iterate_array / iterate_object_entries yield exactly the elements' (entry, payload) pairs; get_jentry_by_index lands on the sum of earlier payload lengths.",
        "missing": "refinement theorems for get_by_name, get_by_keypath, object_keys, object_each, array_values, type_of, as_*/to_*, exists_*_keys, traverse_check_string: these are decided by correspondence (byte-level model vs Rust) plus the spec oracle (tree answer vs Rust) only",
        "assumptions": ["documents are canonical encodings of good values"],
    },
    "C06": {
        "panic_is_violation": True,
        "proved": "both builders (ArrayBuilder/ObjectBuilder build_into with nested builders) append exactly the layout function of their entries for every prior buffer, unconditionally; an array built from raw entries of good values is its canonical encoding; delete_by_index (every i32 index) and concat of two arrays refine the tree functions into any prior buffer",
        "missing": "refinement theorems for the object editors, delete_by_name, delete_by_keypath, array_insert, object_insert/delete/pick, strip_nulls, build_array/build_object and the non-array concat cases: decided by correspondence + spec oracle only",
        "assumptions": ["documents are canonical encodings of good values"],
    },
    "C13": {
        "panic_is_violation": True,
        "proved": "list-level laws of the spec functions: distinct keeps first occurrences in order, never repeats, is idempotent; intersection and except are one decision sequence and its complement (partition of the first list); overlap iff intersection non-empty; byte-level array_distinct on an array document refines Spec.distinct and writes a canonical array into any prior buffer",
        "missing": "byte-level refinement of intersection/except/overlap and the count formula min(count xs, count ys): correspondence + spec oracle only",
        "assumptions": ["documents are canonical encodings of good values"],
    },
    "C14": {
        "panic_is_violation": True,
        "proved": "NEGATIONS with concrete witnesses (kernel-evaluated on the byte-level model of convert_to_comparable): the key is not an order embedding (string bytes vs depth markers), not injective (string prefix + control bytes; integers beyond 2^53), and separates -0.0 from 0. These are the known findings D14a/b/c.",
        "missing": "the positive theorem on the restricted domain (string bytes >= 0x20, depth < 32, exactly representable numbers, no -0.0) is not proved yet; outside the three finding classes the property is decided by the keyorder oracle on the real code and by correspondence of the key bytes",
        "assumptions": ["documents are canonical encodings of good values", "nesting below 255 (depth + 1 overflows a u8 beyond that: see C20)"],
    },
    "C17": {
        "panic_is_violation": True,
        "proved": "frame theorems, for every prior buffer content: Value::write_to_vec (Encoder with reserve_jentries/replace_jentry at absolute indices) appends exactly encodeSpec v; ArrayBuilder/ObjectBuilder build_into with nested builders append a prefix-independent image; delete_by_index, concat of arrays and array_distinct inherit it",
        "missing": "frame theorems for the remaining editors, build_array/build_object, the selector writers and convert_to_comparable (their models append by construction; tied by correspondence with non-empty prefixes)",
        "assumptions": [],
    },
}
