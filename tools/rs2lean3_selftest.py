#!/usr/bin/env python3
"""Self-test of the phase-3 Rust -> Lean translator (tools/rs2lean3.py: recursive functions, the
codec of de.rs / ser.rs) and of its agreement theorems (lean/JsonbModel/Proofs/TranslatedAgreeC*.lean).
Same three questions as tools/rs2lean_selftest.py / rs2lean2_selftest.py:

  (a) robustness: re-formatting the source leaves the generated Lean text byte-identical; a change
      that leaves the subset keeps the committed block and says so;
  (b) sensitivity: each small LOGIC mutation of a target function (wrong mask, dropped guard, swapped
      arms, wrong offset, `<` / `<=`, swapped loops, wrong tag, missing length, …), applied one at a
      time, changes the generated text and makes an agreement proof FAIL, while the unmutated source
      PASSES;
  (c) tolerance: harmless re-spellings are still proved.

Works on a copy of $VERIF_REPO/src (default /repo) in a temporary directory under /tmp; Lean runs on
scratch files in a second temporary directory (nothing under lean/ is written).  The Lean project
is $RS2LEAN3_LEAN (default <verif>/lean); its `JsonbModel.Proofs.TranslatedAgreeC` must be built.
Python 3 stdlib only.  Exit code 0 iff everything behaved as expected."""
import concurrent.futures, json, os, re, shutil, subprocess, sys, tempfile, time

HERE = os.path.dirname(os.path.abspath(__file__))
VERIF = os.path.normpath(os.path.join(HERE, ".."))
LEAN = os.environ.get("RS2LEAN3_LEAN", os.path.join(VERIF, "lean"))
REPO = os.environ.get("VERIF_REPO", "/repo")
TOOL = os.path.join(HERE, "rs2lean3.py")
PARTS = {1: "TranslatedAgreeC1.lean", 2: "TranslatedAgreeC2.lean", 3: "TranslatedAgreeC3.lean", 4: "TranslatedAgreeC4.lean",
         5: "TranslatedAgreeC5.lean", 6: "TranslatedAgreeC6.lean", 7: "TranslatedAgreeC7.lean"}
JOBS = int(os.environ.get("RS2LEAN_SELFTEST_JOBS", "4"))
COMMITTED = os.path.join(LEAN, "JsonbModel", "Generated", "Translated3.lean")

sys.path.insert(0, HERE)
import rs2lean  # noqa: E402
import rs2lean2  # noqa: E402
import rs2lean3  # noqa: E402
from rs2lean_selftest import reformat_variants, mutate  # noqa: E402

D = "src/de.rs"
S = "src/ser.rs"
V = "src/value.rs"
DEC = [1, 2, 3, 4]          # the decoder parts
ENC = [1, 5, 6, 7]          # the encoder parts

OBJ_LOOP2 = ("            let k = key.as_str().ok_or(Error::InvalidJsonbJEntry)?;\n"
             "            let jentry = jentries.pop_front().unwrap();\n"
             "            let value = self.decode_scalar(jentry)?;\n")

# (id, file, old text, new text, which occurrence (0-based), agreement parts to check, theorem expected to fail)
MUTATIONS = [
    # de.rs
    ("dec-min-length-3", D, "if self.buf.len() < 4 {", "if self.buf.len() < 3 {", 0, DEC, "decoder_decode_agrees"),
    ("dec-min-length-le", D, "if self.buf.len() < 4 {", "if self.buf.len() <= 4 {", 0, DEC, "decoder_decode_agrees"),
    ("dec-header-len-mask", D, "match container_header & CONTAINER_HEADER_TYPE_MASK {", "match container_header & CONTAINER_HEADER_LEN_MASK {", 0, DEC, "decode_jsonb_succ"),
    ("dec-scalar-guard-dropped", D, "            SCALAR_CONTAINER_TAG if container_header != SCALAR_CONTAINER_TAG => {\n                Err(Error::InvalidJsonbHeader)\n            }\n", "", 0, DEC, "decode_jsonb_succ"),
    ("dec-array-object-swapped", D, "            ARRAY_CONTAINER_TAG => self.decode_array(container_header),\n            OBJECT_CONTAINER_TAG => self.decode_object(container_header),", "            ARRAY_CONTAINER_TAG => self.decode_object(container_header),\n            OBJECT_CONTAINER_TAG => self.decode_array(container_header),", 0, DEC, "decode_jsonb_succ"),
    ("dec-scalar-header-skipped", D, "                let encoded = self.buf.read_u32::<BigEndian>()?;\n                let jentry = JEntry::decode_jentry(encoded);\n                self.decode_scalar(jentry)", "                let jentry = JEntry::decode_jentry(container_header);\n                self.decode_scalar(jentry)", 0, DEC, "decode_jsonb_succ"),
    ("dec-true-is-false", D, "TRUE_TAG => Ok(Value::Bool(true)),", "TRUE_TAG => Ok(Value::Bool(false)),", 0, DEC, "decode_scalar_succ"),
    ("dec-string-number-tags-swapped", D, "            STRING_TAG => {\n                let offset = jentry.length as usize;\n                let string", "            NUMBER_TAG if jentry.length > 0 => {\n                let offset = jentry.length as usize;\n                let string", 0, DEC, "decode_scalar_succ"),
    ("dec-string-no-utf8-check", D, "let s = std::str::from_utf8(string).map_err(|_| Error::InvalidUtf8)?;", "let s = unsafe { std::str::from_utf8_unchecked(string) };", 0, DEC, "decode_scalar_succ"),
    ("dec-string-cursor-not-advanced", D, "                let s = std::str::from_utf8(string).map_err(|_| Error::InvalidUtf8)?;\n                self.buf = &self.buf[offset..];\n", "                let s = std::str::from_utf8(string).map_err(|_| Error::InvalidUtf8)?;\n", 0, DEC, "decode_scalar_succ"),
    ("dec-number-one-byte-more", D, "let number = &self.buf.get(..offset).ok_or(Error::InvalidJsonbNumber)?;", "let number = &self.buf.get(..offset + 1).ok_or(Error::InvalidJsonbNumber)?;", 0, DEC, "decode_scalar_succ"),
    ("dec-number-error-name", D, ".ok_or(Error::InvalidJsonbNumber)?;", ".ok_or(Error::InvalidUtf8)?;", 0, DEC, "decode_scalar_succ"),
    ("dec-container-as-array", D, "            CONTAINER_TAG => self.decode_jsonb(),", "            CONTAINER_TAG => self.decode_array(0),", 0, DEC, "decode_scalar_succ"),
    ("dec-array-len-mask", D, "        let length = (container_header & CONTAINER_HEADER_LEN_MASK) as usize;\n        let jentries = self.decode_jentries(length)?;", "        let length = (container_header & JENTRY_OFF_LEN_MASK) as usize;\n        let jentries = self.decode_jentries(length)?;", 0, DEC, "decode_array_succ"),
    ("dec-array-value-dropped", D, "            let value = self.decode_scalar(jentry)?;\n            values.push(value);\n", "            let value = self.decode_scalar(jentry)?;\n", 0, DEC, "da_loop1_step"),
    ("dec-object-entries-not-doubled", D, "let mut jentries = self.decode_jentries(length * 2)?;", "let mut jentries = self.decode_jentries(length)?;", 0, DEC, "decode_object_succ"),
    ("dec-object-key-checked-late", D, OBJ_LOOP2, "            let jentry = jentries.pop_front().unwrap();\n            let value = self.decode_scalar(jentry)?;\n            let k = key.as_str().ok_or(Error::InvalidJsonbJEntry)?;\n", 0, DEC, "do_loop2_step"),
    ("dec-object-key-error-name", D, "let k = key.as_str().ok_or(Error::InvalidJsonbJEntry)?;", "let k = key.as_str().ok_or(Error::InvalidJsonb)?;", 0, DEC, "do_loop2_step"),
    ("dec-object-one-pair-less", D, "        let mut obj = Object::new();\n        // decode all values\n        for _ in 0..length {", "        let mut obj = Object::new();\n        // decode all values\n        for _ in 1..length {", 0, DEC, "decode_object_succ"),
    ("dec-jentries-one-less", D, "        for _ in 0..length {\n            let encoded = self.buf.read_u32::<BigEndian>()?;", "        for _ in 1..length {\n            let encoded = self.buf.read_u32::<BigEndian>()?;", 0, DEC, "decode_jentries_agrees"),
    ("dec-parse-skips-length-test", D, "    let mut decoder = Decoder::new(buf);\n    decoder.decode()\n", "    let mut decoder = Decoder::new(buf);\n    decoder.decode_jsonb()\n", 0, DEC, "parse_jsonb_agrees"),
    ("dec-as-str-never", V, "            Value::String(s) => Some(s),\n            _ => None,\n        }\n    }\n\n    pub fn is_number", "            Value::String(_) => None,\n            _ => None,\n        }\n    }\n\n    pub fn is_number", 0, DEC, "as_str_agrees"),
    # ser.rs
    ("enc-array-header-object-tag", S, "let header = ARRAY_CONTAINER_TAG | values.len() as u32;", "let header = OBJECT_CONTAINER_TAG | values.len() as u32;", 0, ENC, "encode_array_succ"),
    ("enc-array-header-count-u16", S, "let header = ARRAY_CONTAINER_TAG | values.len() as u32;", "let header = ARRAY_CONTAINER_TAG | values.len() as u16 as u32;", 0, ENC, "encode_array_succ"),
    ("enc-array-len-without-header", S, "let mut array_len = 4 + values.len() * 4;", "let mut array_len = values.len() * 4;", 0, ENC, "encode_array_succ"),
    ("enc-array-reserve-8", S, "let mut jentry_index = self.reserve_jentries(values.len() * 4);", "let mut jentry_index = self.reserve_jentries(values.len() * 8);", 0, ENC, "encode_array_succ"),
    ("enc-array-len-not-accumulated", S, "            array_len += jentry.length as usize;\n", "", 0, ENC, "ea_loop1_step"),
    ("enc-array-entry-not-patched", S, "            array_len += jentry.length as usize;\n            self.replace_jentry(jentry, &mut jentry_index);\n", "            array_len += jentry.length as usize;\n            jentry_index += 4;\n", 0, ENC, "ea_loop1_step"),
    ("enc-object-len-4-per-pair", S, "let mut object_len = 4 + obj.len() * 8;", "let mut object_len = 4 + obj.len() * 4;", 0, ENC, "encode_object_succ"),
    ("enc-object-loops-swapped", S,
     "        for (key, _) in obj.iter() {\n            let len = key.len();\n            object_len += len;\n            self.buf.extend_from_slice(key.as_bytes());\n            let jentry = JEntry::make_string_jentry(len);\n            self.replace_jentry(jentry, &mut jentry_index);\n        }\n        // encode all values\n        for (_, value) in obj.iter() {\n            let jentry = self.encode_value(value);\n            object_len += jentry.length as usize;\n            self.replace_jentry(jentry, &mut jentry_index);\n        }\n",
     "        for (_, value) in obj.iter() {\n            let jentry = self.encode_value(value);\n            object_len += jentry.length as usize;\n            self.replace_jentry(jentry, &mut jentry_index);\n        }\n        for (key, _) in obj.iter() {\n            let len = key.len();\n            object_len += len;\n            self.buf.extend_from_slice(key.as_bytes());\n            let jentry = JEntry::make_string_jentry(len);\n            self.replace_jentry(jentry, &mut jentry_index);\n        }\n",
     0, ENC, None),
    ("enc-key-entry-number-tag", S, "let jentry = JEntry::make_string_jentry(len);", "let jentry = JEntry::make_number_jentry(len);", 0, ENC, "eo_loop1_step"),
    ("enc-key-bytes-not-written", S, "            self.buf.extend_from_slice(key.as_bytes());\n", "", 0, ENC, "eo_loop1_step"),
    ("enc-key-len-not-accumulated", S, "            object_len += len;\n", "", 0, ENC, "eo_loop1_step"),
    ("enc-object-value-len-not-accumulated", S, "            object_len += jentry.length as usize;\n", "", 0, ENC, "eo_loop2_step"),
    ("enc-scalar-header-array-tag", S, ".write_u32::<BigEndian>(SCALAR_CONTAINER_TAG)", ".write_u32::<BigEndian>(ARRAY_CONTAINER_TAG)", 0, ENC, "encode_scalar_agrees"),
    ("enc-scalar-reserve-8", S, "let mut jentry_index = self.reserve_jentries(4);", "let mut jentry_index = self.reserve_jentries(8);", 0, ENC, "encode_scalar_agrees"),
    ("enc-bool-swapped", S, "                if *v {\n                    JEntry::make_true_jentry()", "                if !*v {\n                    JEntry::make_true_jentry()", 0, ENC, "encode_value_bool"),
    ("enc-number-len-plus-1", S, "let len = self.buf.len() - old_off;", "let len = self.buf.len() - old_off + 1;", 0, ENC, "encode_value_num"),
    ("enc-string-entry-number-tag", S, "                self.buf.extend_from_slice(s.as_ref().as_bytes());\n                JEntry::make_string_jentry(len)", "                self.buf.extend_from_slice(s.as_ref().as_bytes());\n                JEntry::make_number_jentry(len)", 0, ENC, "encode_value_str"),
    ("enc-array-entry-string-tag", S, "                let len = self.encode_array(array);\n                JEntry::make_container_jentry(len)", "                let len = self.encode_array(array);\n                JEntry::make_string_jentry(len)", 0, ENC, "encode_value_arr"),
    ("enc-write-to-vec-always-scalar", V, "        let mut encoder = Encoder::new(buf);\n        encoder.encode(self);", "        let mut encoder = Encoder::new(buf);\n        encoder.encode_scalar(self);", 0, ENC, "write_to_vec_agrees"),
    ("enc-to-vec-drops-result", V, "        let mut buf = Vec::new();\n        self.write_to_vec(&mut buf);\n        buf", "        let mut buf = Vec::new();\n        self.write_to_vec(&mut buf);\n        Vec::new()", 0, ENC, "to_vec_agrees"),
    ("enc-top-array-as-scalar", S, "            Value::Array(array) => self.encode_array(array),", "            Value::Array(_) => self.encode_scalar(value),", 0, ENC, "encode_of_array"),
]

# harmless re-spellings: different generated text, same logic -> the proofs must still go through
RESPELLINGS = [
    ("dec-length-test-flipped", D, "if self.buf.len() < 4 {", "if 4 > self.buf.len() {", 0, DEC),
    ("dec-two-times-length", D, "self.decode_jentries(length * 2)?;", "self.decode_jentries(2 * length)?;", 0, DEC),
    ("dec-guard-flipped", D, "SCALAR_CONTAINER_TAG if container_header != SCALAR_CONTAINER_TAG => {", "SCALAR_CONTAINER_TAG if SCALAR_CONTAINER_TAG != container_header => {", 0, DEC),
    ("dec-decode-tail-call", D, "        let value = self.decode_jsonb()?;\n        Ok(value)\n", "        self.decode_jsonb()\n", 0, DEC),
    ("enc-array-len-commuted", S, "let mut array_len = 4 + values.len() * 4;", "let mut array_len = values.len() * 4 + 4;", 0, ENC),
    ("enc-object-len-commuted", S, "let mut object_len = 4 + obj.len() * 8;", "let mut object_len = 4 + 8 * obj.len();", 0, ENC),
    ("enc-array-len-explicit-sum", S, "            array_len += jentry.length as usize;", "            array_len = array_len + jentry.length as usize;", 0, ENC),
    ("enc-header-or-commuted", S, "let header = ARRAY_CONTAINER_TAG | values.len() as u32;", "let header = values.len() as u32 | ARRAY_CONTAINER_TAG;", 0, ENC),
]

# changes that leave the subset / remove a target: the tool must say so and keep the committed block
RETENTION = [
    ("out-of-subset-endianness", D, "        let container_header = self.buf.read_u32::<BigEndian>()?;", "        let container_header = self.buf.read_u32::<LittleEndian>()?;", 0,
     "src/de.rs::Decoder::decode_jsonb", "unsupported"),
    ("out-of-subset-closure", D, "let s = std::str::from_utf8(string).map_err(|_| Error::InvalidUtf8)?;", "let s = std::str::from_utf8(string).map_err(|e| Error::from(e))?;", 0,
     "src/de.rs::Decoder::decode_scalar", "unsupported"),
    ("renamed-away", D, "fn decode_jentries(&mut self, length: usize)", "fn decode_entries(&mut self, length: usize)", 0,
     "src/de.rs::Decoder::decode_jentries", "missing"),
    ("out-of-subset-write-endianness", S, "        self.buf.write_u32::<BigEndian>(header).unwrap();\n\n        // `Array` has N", "        self.buf.write_u32::<LittleEndian>(header).unwrap();\n\n        // `Array` has N", 0,
     "src/ser.rs::Encoder::encode_array", "unsupported"),
]


def run_tool(src_root, out_path):
    """-> (generated text, status dict)"""
    env = dict(os.environ, VERIF_REPO=src_root, RS2LEAN3_OUT=out_path, RS2LEAN3_PREV=COMMITTED)
    if os.path.exists(out_path):
        os.remove(out_path)
    r = subprocess.run([sys.executable, TOOL], env=env, capture_output=True, text=True)
    if r.returncode != 0:
        raise RuntimeError("rs2lean3.py crashed: " + r.stderr[-2000:])
    status = json.loads(r.stdout.strip().splitlines()[-1])
    r2 = subprocess.run([sys.executable, TOOL, "--stdout"], env=env, capture_output=True, text=True)
    if r2.returncode != 0:
        raise RuntimeError("rs2lean3.py --stdout crashed: " + r2.stderr[-2000:])
    text = open(out_path, encoding="utf-8").read()
    if text != r2.stdout:
        raise RuntimeError("--stdout and the written file differ")
    return text, status


def scratch_lean(scratch, generated, parts, name):
    """one self-contained Lean file: generated definitions + the agreement parts"""
    imports, bodies = [], []
    texts = [generated] + [open(os.path.join(LEAN, "JsonbModel", "Proofs", PARTS[p]), encoding="utf-8").read() for p in parts]
    for t in texts:
        body = []
        for line in t.splitlines():
            m = re.match(r"import\s+(\S+)", line)
            if m:
                mod = m.group(1)
                if mod == "JsonbModel.Generated.Translated3" or re.fullmatch(r"JsonbModel\.Proofs\.TranslatedAgreeC\d*", mod):
                    continue
                if mod not in imports:
                    imports.append(mod)
            else:
                body.append(line)
        bodies.append("\n".join(body))
    path = os.path.join(scratch, name + ".lean")
    with open(path, "w", encoding="utf-8") as f:
        f.write("\n".join("import " + m for m in imports) + "\n\n" + "\n\n".join(bodies) + "\n")
    return path


def lean_check(path):
    """-> (ok, first failing theorem or None, seconds)"""
    t0 = time.time()
    r = subprocess.run(["lake", "env", "lean", path], cwd=LEAN, capture_output=True, text=True)
    out = r.stdout + r.stderr
    dt = time.time() - t0
    errs = [int(m.group(1)) for m in re.finditer(r"^[^\n:]+:(\d+):\d+: error", out, re.M)]
    if r.returncode == 0 and not errs:
        return True, None, dt
    first = None
    if errs:
        lines = open(path, encoding="utf-8").read().splitlines()
        for ln in range(min(errs) - 1, -1, -1):
            m = re.match(r"\s*(?:theorem|def|instance)\s+(\S+)", lines[ln] if ln < len(lines) else "")
            if m:
                first = m.group(1)
                break
    return False, first or "(lean failed: %s)" % (out.strip().splitlines() or ["?"])[-1][:80], dt


def all_parts(parts):
    """a part needs the parts before it that it imports"""
    need = set()
    for p in parts:
        need.add(p)
        text = open(os.path.join(LEAN, "JsonbModel", "Proofs", PARTS[p]), encoding="utf-8").read()
        for m in re.finditer(r"^import JsonbModel\.Proofs\.TranslatedAgreeC(\d)", text, re.M):
            need |= set(all_parts([int(m.group(1))]))
    return sorted(need)


def main():
    only = [a for a in sys.argv[1:] if not a.startswith("-")]
    t_start = time.time()
    tmp = tempfile.mkdtemp(prefix="rs2lean3_selftest_src_", dir="/tmp")
    scratch = tempfile.mkdtemp(prefix="rs2lean3_selftest_lean_", dir="/tmp")
    failures, rows = [], []
    have_parts = [p for p in PARTS if os.path.exists(os.path.join(LEAN, "JsonbModel", "Proofs", PARTS[p]))]
    try:
        shutil.copytree(os.path.join(REPO, "src"), os.path.join(tmp, "src"))
        out = os.path.join(scratch, "Translated3.out.lean")
        base, status = run_tool(tmp, out)
        bad = {k: v for k, v in status["functions"].items() if v != "translated"}
        if bad:
            failures.append("baseline: not everything translated: %s" % bad)
        committed = open(COMMITTED, encoding="utf-8").read()
        rows.append(("baseline", "generated == committed Translated3.lean", "yes" if committed == base else "NO", ""))
        if committed != base:
            failures.append("baseline: generated text differs from the committed Generated/Translated3.lean")

        # (a) formatting robustness
        files = sorted(set(f[0] for f in rs2lean3.FUNCS3) | set(f for f, _, _ in rs2lean3.TYPES3)
                       | set(f for f, _, _, _, _ in rs2lean2.FUNCS2) | set(f for f, _, _ in rs2lean2.TYPES2)
                       | set(f for f, _, _, _ in rs2lean.FUNCS) | set(f for f, _, _ in rs2lean.TYPES)
                       | {"src/constants.rs", "src/error.rs"})
        originals = {f: open(os.path.join(tmp, f), encoding="utf-8").read() for f in files}
        if not only:
            for vi in range(3):
                name = None
                for f in files:
                    name, text = reformat_variants(originals[f])[vi]
                    open(os.path.join(tmp, f), "w", encoding="utf-8", newline="").write(text)
                text, st = run_tool(tmp, out)
                same = text == base
                rows.append(("format", name, "identical" if same else "DIFFERENT", ""))
                if not same:
                    failures.append("format variant %s changed the output" % name)
                for f in files:
                    open(os.path.join(tmp, f), "w", encoding="utf-8").write(originals[f])

            # (a') retention of committed blocks
            for mid, file, old, new, occ, key, want in RETENTION:
                saved = mutate(tmp, file, old, new, occ)
                try:
                    text, st = run_tool(tmp, out)
                finally:
                    open(os.path.join(tmp, file), "w", encoding="utf-8").write(saved)
                got = st["functions"].get(key, "?")
                good = got.startswith(want) and text == base and st["ok"] is False
                rows.append(("retention", mid, ("%s, committed block kept" % want) if good else "WRONG: %s" % got[:70], ""))
                if not good:
                    failures.append("retention %s: status %r, text identical: %s" % (mid, got, text == base))

        jobs = []     # (kind, id, path, expected_ok, expected_theorem)
        if not only:
            jobs.append(("baseline", "unmutated", scratch_lean(scratch, base, have_parts, "base"), True, None))
        for kind, table in (("mutation", MUTATIONS), ("respelling", RESPELLINGS)):
            for row in table:
                mid, file, old, new, occ, parts = row[:6]
                if only and mid not in only:
                    continue
                expect = row[6] if kind == "mutation" else None
                if any(p not in have_parts for p in parts):
                    rows.append((kind, mid, "SKIPPED (part missing)", ""))
                    failures.append("%s %s: agreement part missing" % (kind, mid))
                    continue
                saved = mutate(tmp, file, old, new, occ)
                try:
                    text, st = run_tool(tmp, out)
                finally:
                    open(os.path.join(tmp, file), "w", encoding="utf-8").write(saved)
                nb = {k: v for k, v in st["functions"].items() if v != "translated"}
                if nb:
                    rows.append((kind, mid, "UNSUPPORTED", str(nb)[:100]))
                    failures.append("%s %s left the subset: %s" % (kind, mid, nb))
                    continue
                if text == base:
                    if kind == "respelling":
                        rows.append((kind, mid, "generated text identical (nothing to re-prove)", ""))
                        continue
                    rows.append((kind, mid, "NO CHANGE in generated text", ""))
                    failures.append("%s %s did not change the generated text" % (kind, mid))
                    continue
                jobs.append((kind, mid, scratch_lean(scratch, text, all_parts(parts), mid), kind == "respelling", expect))

        with concurrent.futures.ThreadPoolExecutor(max_workers=JOBS) as ex:
            results = list(ex.map(lambda j: lean_check(j[2]), jobs))
        for (kind, mid, path, exp_ok, exp_thm), (ok, thm, dt) in zip(jobs, results):
            if exp_ok:
                verdict = "proofs PASS" if ok else "proofs FAIL at %s" % thm
                if not ok:
                    failures.append("%s %s: expected the agreement proofs to pass, failed at %s" % (kind, mid, thm))
            else:
                verdict = ("proof FAILS at %s" % thm) if not ok else "NOT DETECTED (proofs pass)"
                if ok:
                    failures.append("mutation %s was not detected" % mid)
                elif exp_thm and thm != exp_thm:
                    verdict += " (expected %s)" % exp_thm
            rows.append((kind, mid, verdict, "%.1fs" % dt))
    finally:
        shutil.rmtree(tmp, ignore_errors=True)
        if not os.environ.get("RS2LEAN3_KEEP"):
            shutil.rmtree(scratch, ignore_errors=True)

    w1 = max(len(r[0]) for r in rows)
    w2 = max(len(r[1]) for r in rows)
    w3 = max(len(r[2]) for r in rows)
    print("%-*s  %-*s  %-*s  %s" % (w1, "kind", w2, "case", w3, "result", "time"))
    for r in rows:
        print("%-*s  %-*s  %-*s  %s" % (w1, r[0], w2, r[1], w3, r[2], r[3]))
    n_mut = sum(1 for r in rows if r[0] == "mutation")
    n_det = sum(1 for r in rows if r[0] == "mutation" and r[2].startswith("proof FAILS"))
    print("mutations detected: %d / %d; wall %.0fs" % (n_det, n_mut, time.time() - t_start))
    if failures:
        print("SELFTEST FAILED:")
        for f in failures:
            print("  - " + f)
        return 1
    print("SELFTEST OK")
    return 0


if __name__ == "__main__":
    sys.exit(main())
