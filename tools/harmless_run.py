#!/usr/bin/env python3
"""False-alarm experiment: apply each harmless change under /verif/harmless/ to /repo, run every
claimed quick check, undo.  Results -> harmless/RESULTS.json.
usage: harmless_run.py [<id> ...]
class A = pure refactor (every public function behaves the same on every input): any alarm is a false
alarm of my machinery.  class B = behaviour changes only where nothing is specified (error variant for
malformed input, Debug text, capacities): an alarm here is the accepted cost of a behavioural tie."""
import json, os, re, shutil, subprocess, sys, threading, concurrent.futures as cf
ROOT = "/verif"
SCR = "/tmp/jvscr"
def sh(cmd, cwd=None):
    p = subprocess.run(cmd, shell=True, cwd=cwd, stdout=subprocess.PIPE, stderr=subprocess.STDOUT, text=True)
    return p.returncode, p.stdout
def worker_dir(w):
    """scratch worktree of /repo HEAD + copy of the harness that depends on it (nothing touches /repo itself)"""
    wd = "%s/w%d" % (SCR, w)
    if not os.path.isdir(wd + "/repo"):
        os.makedirs(wd, exist_ok=True)
        rc, out = sh("git -C /repo worktree add -q --detach %s/repo HEAD" % wd); assert rc == 0, out
    # the scratch worktree follows /repo's HEAD
    rc, head = sh("git -C /repo rev-parse HEAD")
    sh("git checkout -q -- . && git clean -fdq && git checkout -q --detach %s" % head.strip(), wd + "/repo")
    # private copy of the Lean project (sources refreshed every time, build output kept)
    os.makedirs(wd + "/lean", exist_ok=True)
    sh("rsync -a --delete --exclude .lake %s/lean/ %s/lean/" % (ROOT, wd))
    if not os.path.isdir(wd + "/lean/.lake"):
        sh("cp -a %s/lean/.lake %s/lean/.lake" % (ROOT, wd))

    shutil.rmtree(wd + "/harness", ignore_errors=True)
    shutil.copytree(ROOT + "/harness", wd + "/harness")
    ct = open(wd + "/harness/Cargo.toml").read().replace('path = "/repo"', 'path = "../repo"')
    open(wd + "/harness/Cargo.toml", "w").write(ct)
    cfg = open(wd + "/harness/.cargo/config.toml").read().replace("/verif/.build/target", wd + "/target")
    open(wd + "/harness/.cargo/config.toml", "w").write(cfg)
    return wd
def affected_props(wd):
    """properties whose agreement theorems are about a declaration whose translation changed (or left the
    translators' subset) under the patch applied in wd/repo: the only checks a behaviour-preserving
    change can trip through the function-level tie"""
    sys.path.insert(0, ROOT + "/tools")
    import propcfg
    tmp = wd + "/trout"; shutil.rmtree(tmp, ignore_errors=True); os.makedirs(tmp)
    changed, allf = set(), {}
    blk = re.compile(r"^-- BEGIN (.+?)\n(.*?)^-- END ", re.S | re.M)
    for sfx in ("", "2", "3", "4", "5a", "5b", "6a", "6b", "6c", "6d", "7"):
        com = "%s/lean/JsonbModel/Generated/Translated%s.lean" % (ROOT, sfx)
        env = "VERIF_REPO=%s/repo RS2LEAN%s_OUT=%s/T%s.lean RS2LEAN%s_PREV=%s" % (wd, sfx.upper(), tmp, sfx, sfx.upper(), com)
        rc, out = sh("%s python3 tools/rs2lean%s.py 2>/dev/null | tail -n 1" % (env, sfx), ROOT)
        try: fn = json.loads(out)["functions"]
        except Exception: fn = {}
        for k, v in fn.items():
            allf[k] = v
            if v != "translated": changed.add(k)
        new = "%s/T%s.lean" % (tmp, sfx)
        if os.path.exists(new):
            a = dict(blk.findall(open(com).read())); b = dict(blk.findall(open(new).read()))
            changed |= {k for k in set(a) | set(b) if a.get(k) != b.get(k)}
    # a recursive group is one block: its members count as declarations of their own
    for k in list(allf) + list(changed):
        m = re.match(r"^(.*)::(?:group|types) \w* ?\((.*)\)$", k)
        if m:
            for mem in m.group(2).split(","):
                kk = m.group(1) + "::" + mem.strip()
                allf[kk] = allf.get(k, "translated")
                if k in changed: changed.add(kk)
    props = []
    for pid, names in propcfg.TIE.items():
        if any(set(propcfg.tie_sources(n, allf)) & changed for n in names): props.append(pid)
    return sorted(props), sorted(changed)
def run_check(pid, wd):
    rc, out = sh("VERIF_SCRATCH=%s VERIF_EVIDENCE_DIR=%s/evidence ./check %s quick" % (wd, wd, pid), ROOT)
    viol = [l for l in out.splitlines() if l.startswith("VIOLATION")]
    summ = [l for l in out.splitlines() if re.match(r"^C\d\d quick", l)]
    return pid, rc, viol, summ[-1] if summ else out[-300:]
def main():
    global SCR
    args = sys.argv[1:]
    for a in args:
        if a.startswith("--scr="): SCR = a.split("=")[1]
    jobs = 4
    for a in args:
        if a.startswith("--jobs="): jobs = int(a.split("=")[1])
    if "--clean" in args:
        for w in os.listdir(SCR) if os.path.isdir(SCR) else []:
            sh("git -C /repo worktree remove --force %s/%s/repo" % (SCR, w))
        shutil.rmtree(SCR, ignore_errors=True); sh("git -C /repo worktree prune"); return
    # --dir=seeded --own: the same machinery for the seeded property-breaking changes (own property's check only)
    sub = "harmless"
    own = "--own" in args
    for a in args:
        if a.startswith("--dir="): sub = a.split("=")[1]
    ids = [a for a in args if not a.startswith("--")] or sorted(d for d in os.listdir(ROOT + "/" + sub) if os.path.isdir(ROOT + "/" + sub + "/" + d))
    claimed = [c["property_id"] for c in json.load(open(ROOT + "/MANIFEST.json"))["checks"]]
    resf = ROOT + "/" + sub + ("/RESULTS_scratch.json" if sub == "seeded" else "/RESULTS.json")
    for a in args:
        if a.startswith("--out="): resf = a.split("=")[1]
    results = json.load(open(resf)) if os.path.exists(resf) else {}
    lock = threading.Lock()
    free = list(range(jobs))
    def one(hid):
        with lock: w = free.pop()
        try:
            wd = worker_dir(w)
            meta = json.load(open("%s/%s/%s/meta.json" % (ROOT, sub, hid)))
            rc, out = sh("git apply %s/%s/%s/patch.diff" % (ROOT, sub, hid), wd + "/repo")
            if rc != 0:
                print(hid, "patch does not apply:", out); return
            r = {}
            only = [a.split("=")[1].split(",") for a in args if a.startswith("--props=")]
            plist = [hid.split("-")[0]] if own else (only[0] if only else claimed)
            chg = None
            if "--affected" in args:
                plist, chg = affected_props(wd)
            for pid in plist:
                p, rc2, viol, summ = run_check(pid, wd)
                r[p] = {"rc": rc2, "violation": viol, "summary": summ}
            alarms = sorted(p for p, x in r.items() if x["rc"] != 0)
            for p in alarms:
                for v in r[p]["violation"]:
                    m = re.search(r"replay=(\S+)", v)
                    if m and os.path.exists(m.group(1)):
                        if sub == "harmless": sh("cp %s %s/harmless/%s/replay-%s.json" % (m.group(1), ROOT, hid, p))
            with lock:
                results[hid] = {"class": meta.get("class"), "checks_run": plist, "changed_translations": chg, "summary": meta.get("summary", "")[:300], "alarms": alarms,
                                "alarm_lines": {p: r[p]["violation"] + [r[p]["summary"]] for p in alarms}}
                json.dump(results, open(resf, "w"), indent=1, sort_keys=True)
                print(hid, "class", meta.get("class"), "alarms:", alarms, flush=True)
        finally:
            with lock: free.append(w)
    with cf.ThreadPoolExecutor(max_workers=jobs) as ex:
        list(ex.map(one, ids))
main()
