#!/usr/bin/env python3
"""list fully-qualified declaration names defined in more than one file of the Lean library"""
import re, sys, pathlib, collections
root = pathlib.Path('/verif/lean/JsonbModel')
names = collections.defaultdict(list)
for f in sorted(root.rglob('*.lean')):
    ns = []
    for line in f.read_text().splitlines():
        m = re.match(r'^namespace\s+(\S+)', line)
        if m: ns.append(m.group(1)); continue
        m = re.match(r'^end\s+(\S+)', line)
        if m and ns and ns[-1] == m.group(1): ns.pop(); continue
        m = re.match(r'^(?:@\[[^\]]*\]\s*)?(private\s+)?(?:protected\s+)?(?:noncomputable\s+)?(theorem|def|lemma|abbrev|structure|inductive)\s+([A-Za-z_0-9\'.]+)', line)
        if m and not m.group(1):
            names['.'.join(ns + [m.group(3)])].append(str(f.relative_to(root)))
for n, fs in sorted(names.items()):
    if len(set(fs)) > 1: print(n, sorted(set(fs)))
