#!/usr/bin/env python3
"""Self-test of the phase-6b Rust -> Lean translator (tools/rs2lean6b.py: the JSON text parser of parser.rs
and the string helpers of util.rs) and of its agreement theorems (lean/JsonbModel/Proofs/TranslatedAgreeH*.lean).
Same three questions as the self-tests of the earlier phases:

  (a) robustness: re-formatting the source leaves the generated Lean text byte-identical; a change that
      leaves the subset keeps the committed block and says so;
  (b) sensitivity: each small LOGIC mutation of a target function (wrong skip, dropped guard, swapped arms,
      wrong range, wrong escape, `<` / `<=`, wrong literal, missing `push`, …), applied one at a time, changes
      the generated text and makes an agreement proof FAIL, while the unmutated source PASSES;
  (c) tolerance: harmless re-spellings are still proved.

Works on a copy of $VERIF_REPO/src (default /repo) in a temporary directory under /tmp; Lean runs on scratch
files in a second temporary directory (nothing under lean/ is written).  The Lean project is $RS2LEAN6B_LEAN
(default <verif>/lean); its `JsonbModel.Proofs.TranslatedAgreeH` must be built.  Python 3 stdlib only.
Exit code 0 iff everything behaved as expected."""
import concurrent.futures, json, os, re, shutil, subprocess, sys, tempfile, time

HERE = os.path.dirname(os.path.abspath(__file__))
VERIF = os.path.normpath(os.path.join(HERE, ".."))
LEAN = os.environ.get("RS2LEAN6B_LEAN", os.path.join(VERIF, "lean"))
REPO = os.environ.get("VERIF_REPO", "/repo")
TOOL = os.path.join(HERE, "rs2lean6b.py")
PARTS = {i: "TranslatedAgreeH%d.lean" % i for i in range(1, 10)}
JOBS = int(os.environ.get("RS2LEAN_SELFTEST_JOBS", "4"))
COMMITTED = os.path.join(LEAN, "JsonbModel", "Generated", "Translated6b.lean")

sys.path.insert(0, HERE)
import rs2lean  # noqa: E402
import rs2lean2  # noqa: E402
import rs2lean3  # noqa: E402
import rs2lean6b  # noqa: E402
from rs2lean_selftest import reformat_variants, mutate  # noqa: E402

P = "src/parser.rs"
U = "src/util.rs"
HELP = [1, 2]               # cursor helpers, skip_unused, literals
STR = [6]                   # … up to parse_json_string (imports 1–5)
NUM = [7]
GRP = [9]                   # everything

EOF_ERR = "Err(self.error(ParseErrorCode::InvalidEOF))"

# (id, file, old text, new text, which occurrence (0-based), agreement parts to check, theorem expected to fail)
MUTATIONS = [
    # cursor helpers
    ("next-eof-error-name", P, "            None => " + EOF_ERR + ",", "            None => Err(self.error(ParseErrorCode::ExpectedSomeIdent)),", 0, HELP, "parser_next_agrees"),
    ("must-is-no-step", P, "            Some(v) => {\n                self.step();\n", "            Some(v) => {\n", 0, HELP, "parser_must_is_agrees"),
    ("must-is-inverted", P, "if v == &c {\n                    Ok(())", "if v != &c {\n                    Ok(())", 0, HELP, "parser_must_is_agrees"),
    ("check-next-inverted", P, "            if v == &c {\n                return true;", "            if v != &c {\n                return true;", 0, HELP, "parser_check_next_agrees"),
    ("check-next-either-and", P, "if v == &c1 || v == &c2 {", "if v == &c1 && v == &c2 {", 0, HELP, "parser_check_next_either_agrees"),
    ("check-digit-whitespace", P, "            if v.is_ascii_digit() {\n                return true;", "            if v.is_ascii_whitespace() {\n                return true;", 0, HELP, "parser_check_digit_agrees"),
    ("step-digits-eof-dropped", P, "        if self.idx == self.buf.len() {\n            return " + EOF_ERR + ";\n        }\n", "", 0, HELP, "parser_step_digits_agrees"),
    ("step-digits-len-by-2", P, "            len += 1;\n", "            len += 2;\n", 0, HELP, "sd_loop1_step"),
    ("step-digits-no-step", P, "            len += 1;\n            self.step();\n", "            len += 1;\n            self.step_by(2);\n", 0, HELP, "sd_loop1_step"),
    # skip_unused
    ("skip-escaped-ws-by-1", P, "                    self.step_by(2);\n", "                    self.step_by(1);\n", 0, HELP, "su_loop1_step"),
    ("skip-escaped-ws-no-t", P, "matches!(self.buf[self.idx + 1], b'n' | b'r' | b't')", "matches!(self.buf[self.idx + 1], b'n' | b'r')", 0, HELP, "su_loop1_step"),
    ("skip-x0c-lowercase", P, "&& self.buf[self.idx + 3] == b'C'", "&& self.buf[self.idx + 3] == b'c'", 0, HELP, "su_loop1_step"),
    ("skip-x0c-by-3", P, "                    self.step_by(4);\n", "                    self.step_by(3);\n", 0, HELP, "su_loop1_step"),
    ("skip-bound-le", P, "if self.idx + 1 < self.buf.len()\n", "if self.idx + 1 <= self.buf.len()\n", 0, HELP, "su_loop1_step"),
    ("skip-whitespace-by-2", P, "            if c.is_ascii_whitespace() {\n                self.step();\n", "            if c.is_ascii_whitespace() {\n                self.step_by(2);\n", 0, HELP, "su_loop1_step"),
    # literals
    ("null-literal-short", P, "let data = [b'n', b'u', b'l', b'l'];", "let data = [b'n', b'u', b'l'];", 0, HELP, "parser_parse_json_null_agrees"),
    ("true-is-false", P, "        Ok(Value::Bool(true))\n", "        Ok(Value::Bool(false))\n", 0, HELP, "parser_parse_json_true_agrees"),
    ("false-literal-typo", P, "let data = [b'f', b'a', b'l', b's', b'e'];", "let data = [b'f', b'a', b'l', b'z', b'e'];", 0, HELP, "parser_parse_json_false_agrees"),
    # util.rs
    ("invalid-unicode-prefix", U, "    str_buf.push('u');\n", "    str_buf.push('U');\n", 0, [4], "encode_invalid_unicode_agrees"),
    ("esc-n-is-r", U, "b'n' => str_buf.push(NN),", "b'n' => str_buf.push(RR),", 0, [4], "parse_escaped_string_sim"),
    ("esc-slash-dropped", U, "        b'/' => str_buf.push(SD),\n", "", 0, [4], "parse_escaped_string_sim"),
    ("esc-brace-idx-5", U, "                *idx += 6;\n", "                *idx += 5;\n", 0, [4], "parse_escaped_string_sim"),
    ("esc-closing-brace-not-checked", U, "                if data[0] != b'}' {", "                if data[0] == b'{' {", 0, [4], "parse_escaped_string_sim"),
    ("esc-low-surrogate-range", U, "if !(0xDC00..=0xDFFF).contains(&n2) {", "if !(0xDC00..=0xDFFE).contains(&n2) {", 0, [4], "parse_escaped_string_sim"),
    ("esc-high-surrogate-range", U, "n1 @ 0xD800..=0xDBFF => {", "n1 @ 0xD800..=0xDBFE => {", 0, [4], "parse_escaped_string_sim"),
    ("esc-pair-shift-11", U, "(((n1 - 0xD800) as u32) << 10 |", "(((n1 - 0xD800) as u32) << 11 |", 0, [4], "parse_escaped_string_sim"),
    ("esc-pair-base", U, "+ 0x1_0000;", "+ 0x1_0001;", 0, [4], "parse_escaped_string_sim"),
    ("esc-lone-low-dropped", U, "                0xDC00..=0xDFFF => {\n                    encode_invalid_unicode(numbers, str_buf);\n", "                0xDC00..=0xDFFF => {\n", 0, [4], "parse_escaped_string_sim"),
    ("esc-data-len-1", U, "                    if data.len() < 2 {", "                    if data.len() < 1 {", 0, [4], "parse_escaped_string_sim"),
    ("esc-second-escape-not-skipped", U, "                        *idx += 2;\n                        data = &data[2..];\n", "                        *idx += 2;\n                        data = &data[1..];\n", 0, [4], "parse_escaped_string_sim"),
    ("parse-string-idx-by-2", U, "        *idx += 1;\n        let byte = data[0];", "        *idx += 2;\n        let byte = data[0];", 0, [5], "ps_loop1_plain"),
    ("parse-string-byte-dropped", U, "            buf.push(byte);\n", "", 0, [5], "ps_loop1_plain"),
    ("parse-string-escape-not-cleared", U, "            str_buf.clear();\n", "", 0, [5], "ps_loop1_esc"),
    ("parse-string-error-name", U, "ParseErrorCode::InvalidStringValue, *idx", "ParseErrorCode::InvalidEOF, *idx", 0, [5], "parse_string_sim"),
    # parse_json_string
    ("string-brace-skip-5", P, "self.step_by(UNICODE_LEN + 2);", "self.step_by(UNICODE_LEN + 1);", 0, STR, "ss_loop1_step"),
    ("string-escapes-not-counted", P, "                    escapes += 1;\n", "", 0, STR, "ss_loop1_step"),
    ("string-quote-not-skipped", P, "                b'\"' => {\n                    self.step();\n                    break;", "                b'\"' => {\n                    break;", 0, STR, "ss_loop1_step"),
    ("string-data-includes-quote", P, "let data = &self.buf[start_idx..self.idx - 1];", "let data = &self.buf[start_idx..self.idx];", 0, STR, "parse_json_string_sim"),
    ("string-escapes-threshold", P, "let val = if escapes > 0 {", "let val = if escapes > 1 {", 0, STR, "parse_json_string_sim"),
    ("string-len-without-escapes", P, "let len = self.idx - 1 - start_idx - escapes;", "let len = self.idx - start_idx - escapes;", 0, STR, "parse_json_string_sim"),
    # parse_json_number
    ("number-leading-zero-allowed", P, "            if self.check_digit() {\n                self.step();\n                return Err(self.error(ParseErrorCode::InvalidNumberValue));\n            }\n", "", 0, NUM, "parse_json_number_sim"),
    ("number-negative-not-recorded", P, "            negative = true;\n", "            negative = false;\n", 0, NUM, "parse_json_number_sim"),
    ("number-fraction-flag", P, "            has_fraction = true;\n", "            has_fraction = false;\n", 0, NUM, "parse_json_number_sim"),
    ("number-exponent-sign", P, "if self.check_next_either(b'+', b'-') {", "if self.check_next_either(b'+', b'+') {", 0, NUM, "parse_json_number_sim"),
    ("number-uint-for-negative", P, "            if !negative {\n                if let Ok(v) = s.parse::<u64>()", "            if negative {\n                if let Ok(v) = s.parse::<u64>()", 0, NUM, "parse_json_number_sim"),
    ("number-slice-start", P, "&self.buf[start_idx..self.idx]", "&self.buf[start_idx + 1..self.idx]", 0, NUM, "parse_json_number_sim"),
    ("number-empty-fraction-allowed", P, "            let len = self.step_digits()?;\n            if len == 0 {\n                self.step();\n                return Err(self.error(ParseErrorCode::InvalidNumberValue));\n            }\n        }\n        if self.check_next_either(b'E', b'e') {", "            let _len = self.step_digits()?;\n        }\n        if self.check_next_either(b'E', b'e') {", 0, NUM, "parse_json_number_sim"),
    # the recursive group, parse, parse_value
    ("value-array-object-swapped", P, "            b'[' => self.parse_json_array(),\n            b'{' => self.parse_json_object(),", "            b'[' => self.parse_json_object(),\n            b'{' => self.parse_json_array(),", 0, GRP, "parse_json_value_succ"),
    ("value-minus-not-a-number", P, "b'0'..=b'9' | b'-' => self.parse_json_number(),", "b'0'..=b'9' => self.parse_json_number(),", 0, GRP, "parse_json_value_succ"),
    ("value-t-is-null", P, "            b't' => self.parse_json_true(),", "            b't' => self.parse_json_null(),", 0, GRP, "parse_json_value_succ"),
    ("array-end-brace", P, "            if *c == b']' {", "            if *c == b'}' {", 0, GRP, "pa_loop1_step"),
    ("array-comma-test-inverted", P, "                if *c != b',' {\n                    return Err(self.error(ParseErrorCode::ExpectedArrayCommaOrEnd));", "                if *c == b',' {\n                    return Err(self.error(ParseErrorCode::ExpectedArrayCommaOrEnd));", 0, GRP, "pa_loop1_step"),
    ("array-first-not-cleared", P, "            first = false;\n            let value = self.parse_json_value()?;", "            let value = self.parse_json_value()?;", 0, GRP, "pa_loop1_step"),
    ("array-value-pushed-twice", P, "            values.push(value);\n", "            values.push(Value::Null);\n            values.push(value);\n", 0, GRP, "pa_loop1_step"),
    ("object-colon", P, "            if *c != b':' {", "            if *c != b';' {", 0, GRP, "po_run"),
    ("object-key-check-dropped", P, "            if !key.is_string() {\n                return Err(self.error(ParseErrorCode::KeyMustBeAString));\n            }\n", "", 0, GRP, "po_run"),
    ("object-colon-not-skipped", P, "                return Err(self.error(ParseErrorCode::ExpectedColon));\n            }\n            self.step();\n", "                return Err(self.error(ParseErrorCode::ExpectedColon));\n            }\n", 0, GRP, "po_run"),
    ("object-end-bracket", P, "            if *c == b'}' {", "            if *c == b']' {", 0, GRP, "po_run"),
    ("parse-trailing-allowed", P, "        if self.idx < self.buf.len() {\n            self.step();\n            return Err(self.error(ParseErrorCode::UnexpectedTrailingCharacters));", "        if self.idx > self.buf.len() {\n            self.step();\n            return Err(self.error(ParseErrorCode::UnexpectedTrailingCharacters));", 0, GRP, "parser_parse_agrees"),
    ("parse-no-final-skip", P, "        let val = self.parse_json_value()?;\n        self.skip_unused();\n", "        let val = self.parse_json_value()?;\n", 0, GRP, "parser_parse_agrees"),
    ("parse-value-skips-parse", P, "    let mut parser = Parser::new(buf);\n    parser.parse()\n", "    let mut parser = Parser::new(buf);\n    parser.parse_json_value()\n", 0, GRP, "parse_value_agrees"),
]

# harmless re-spellings: different generated text, same logic -> the proofs must still go through
RESPELLINGS = [
    ("digits-len-test-flipped", P, "            if len == 0 {\n                self.step();\n                return Err(self.error(ParseErrorCode::InvalidNumberValue));\n            }\n        }\n        if self.check_next(b'.') {", "            if 0 == len {\n                self.step();\n                return Err(self.error(ParseErrorCode::InvalidNumberValue));\n            }\n        }\n        if self.check_next(b'.') {", 0, NUM),
    ("escapes-explicit-sum", P, "                    escapes += 1;\n", "                    escapes = escapes + 1;\n", 0, STR),
    ("escapes-test-flipped", P, "let val = if escapes > 0 {", "let val = if 0 < escapes {", 0, STR),
    ("skip-bound-flipped", P, "if self.idx + 1 < self.buf.len()\n", "if self.buf.len() > self.idx + 1\n", 0, HELP),
    ("skip-sum-commuted", P, "if self.idx + 3 < self.buf.len()\n", "if 3 + self.idx < self.buf.len()\n", 0, HELP),
    ("parse-string-idx-explicit-sum", U, "        *idx += 1;\n        let byte = data[0];", "        *idx = *idx + 1;\n        let byte = data[0];", 0, [5]),
    ("surrogate-len-test-flipped", U, "                    if data.len() < 2 {", "                    if 2 > data.len() {", 0, [4]),
    ("trailing-test-flipped", P, "        if self.idx < self.buf.len() {\n            self.step();\n            return Err(self.error(ParseErrorCode::UnexpectedTrailingCharacters));", "        if self.buf.len() > self.idx {\n            self.step();\n            return Err(self.error(ParseErrorCode::UnexpectedTrailingCharacters));", 0, GRP),
    ("array-end-test-flipped", P, "            if *c == b']' {", "            if b']' == *c {", 0, GRP),
]

# changes that leave the subset / remove a target: the tool must say so and keep the committed block
RETENTION = [
    ("unbounded-while", P, "    fn skip_unused(&mut self) {\n        while self.idx < self.buf.len() {", "    fn skip_unused(&mut self) {\n        while self.idx != self.buf.len() {", 0,
     "src/parser.rs::Parser::skip_unused", "unsupported"),
    ("out-of-subset-parse-u32", P, "if let Ok(v) = s.parse::<u64>() {", "if let Ok(v) = s.parse::<u32>() {", 0,
     "src/parser.rs::Parser::parse_json_number", "unsupported"),
    ("error-method-changed", P, "        let pos = self.idx;\n        Error::Syntax(code, pos)", "        let _ = code;\n        Error::InvalidEOF", 0,
     "src/parser.rs::Parser::next", "unsupported"),
    ("renamed-away", U, "pub fn parse_string(mut data: &[u8]", "pub fn parse_str(mut data: &[u8]", 0,
     "src/util.rs::parse_string", "missing"),
]


def run_tool(src_root, out_path):
    """-> (generated text, status dict)"""
    env = dict(os.environ, VERIF_REPO=src_root, RS2LEAN6B_OUT=out_path, RS2LEAN6B_PREV=COMMITTED)
    if os.path.exists(out_path):
        os.remove(out_path)
    r = subprocess.run([sys.executable, TOOL], env=env, capture_output=True, text=True)
    if r.returncode != 0:
        raise RuntimeError("rs2lean6b.py crashed: " + r.stderr[-2000:])
    status = json.loads(r.stdout.strip().splitlines()[-1])
    r2 = subprocess.run([sys.executable, TOOL, "--stdout"], env=env, capture_output=True, text=True)
    if r2.returncode != 0:
        raise RuntimeError("rs2lean6b.py --stdout crashed: " + r2.stderr[-2000:])
    text = open(out_path, encoding="utf-8").read()
    if text != r2.stdout:
        raise RuntimeError("--stdout and the written file differ")
    return text, status


def scratch_lean(scratch, generated, parts, name):
    """one self-contained Lean file: generated definitions + the agreement parts"""
    imports, bodies = [], []
    texts = [generated] + [open(os.path.join(LEAN, "JsonbModel", "Proofs", PARTS[p]), encoding="utf-8").read() for p in parts]
    for t in texts:
        body = []
        for line in t.splitlines():
            m = re.match(r"import\s+(\S+)", line)
            if m:
                mod = m.group(1)
                if mod == "JsonbModel.Generated.Translated6b" or re.fullmatch(r"JsonbModel\.Proofs\.TranslatedAgreeH\d*", mod):
                    continue
                if mod not in imports:
                    imports.append(mod)
            else:
                body.append(line)
        bodies.append("\n".join(body))
    path = os.path.join(scratch, name + ".lean")
    with open(path, "w", encoding="utf-8") as f:
        f.write("\n".join("import " + m for m in imports) + "\n\n" + "\n\n".join(bodies) + "\n")
    return path


def lean_check(path):
    """-> (ok, first failing theorem or None, seconds)"""
    t0 = time.time()
    try:
        r = subprocess.run(["lake", "env", "lean", path], cwd=LEAN, capture_output=True, text=True, timeout=1800)
        out, rc = r.stdout + r.stderr, r.returncode
    except subprocess.TimeoutExpired as e:
        out, rc = (e.stdout or "") + (e.stderr or "") if isinstance(e.stdout, str) else "", 1
        if not re.search(r": error", out):
            return False, "(lean timed out)", time.time() - t0
    dt = time.time() - t0
    errs = [int(m.group(1)) for m in re.finditer(r"^[^\n:]+:(\d+):\d+: error", out, re.M)]
    if rc == 0 and not errs:
        return True, None, dt
    first = None
    if errs:
        lines = open(path, encoding="utf-8").read().splitlines()
        for ln in range(min(errs) - 1, -1, -1):
            m = re.match(r"\s*(?:theorem|def|instance)\s+(\S+)", lines[ln] if ln < len(lines) else "")
            if m:
                first = m.group(1)
                break
    return False, first or "(lean failed: %s)" % (out.strip().splitlines() or ["?"])[-1][:80], dt


def all_parts(parts):
    """a part needs the parts before it that it imports"""
    need = set()
    for p in parts:
        need.add(p)
        text = open(os.path.join(LEAN, "JsonbModel", "Proofs", PARTS[p]), encoding="utf-8").read()
        for m in re.finditer(r"^import JsonbModel\.Proofs\.TranslatedAgreeH(\d+)", text, re.M):
            need |= set(all_parts([int(m.group(1))]))
    return sorted(need)


def main():
    only = [a for a in sys.argv[1:] if not a.startswith("-")]
    t_start = time.time()
    tmp = tempfile.mkdtemp(prefix="rs2lean6b_selftest_src_", dir="/tmp")
    scratch = tempfile.mkdtemp(prefix="rs2lean6b_selftest_lean_", dir="/tmp")
    failures, rows = [], []
    have_parts = [p for p in PARTS if os.path.exists(os.path.join(LEAN, "JsonbModel", "Proofs", PARTS[p]))]
    try:
        shutil.copytree(os.path.join(REPO, "src"), os.path.join(tmp, "src"))
        out = os.path.join(scratch, "Translated6b.out.lean")
        base, status = run_tool(tmp, out)
        bad = {k: v for k, v in status["functions"].items() if v != "translated"}
        if bad:
            failures.append("baseline: not everything translated: %s" % bad)
        committed = open(COMMITTED, encoding="utf-8").read()
        rows.append(("baseline", "generated == committed Translated6b.lean", "yes" if committed == base else "NO", ""))
        if committed != base:
            failures.append("baseline: generated text differs from the committed Generated/Translated6b.lean")

        # (a) formatting robustness
        files = sorted(set(f[0] for f in rs2lean6b.FUNCS6B) | set(f for f, _, _ in rs2lean6b.TYPES6B)
                       | set(f[0] for f in rs2lean3.FUNCS3) | set(f for f, _, _ in rs2lean3.TYPES3)
                       | set(f for f, _, _, _, _ in rs2lean2.FUNCS2) | set(f for f, _, _ in rs2lean2.TYPES2)
                       | set(f for f, _, _, _ in rs2lean.FUNCS) | set(f for f, _, _ in rs2lean.TYPES)
                       | {"src/constants.rs", "src/error.rs"})
        originals = {f: open(os.path.join(tmp, f), encoding="utf-8").read() for f in files}
        if not only:
            for vi in range(3):
                name = None
                for f in files:
                    name, text = reformat_variants(originals[f])[vi]
                    open(os.path.join(tmp, f), "w", encoding="utf-8", newline="").write(text)
                text, st = run_tool(tmp, out)
                same = text == base
                rows.append(("format", name, "identical" if same else "DIFFERENT", ""))
                if not same:
                    failures.append("format variant %s changed the output" % name)
                for f in files:
                    open(os.path.join(tmp, f), "w", encoding="utf-8").write(originals[f])

            # (a') retention of committed blocks
            for mid, file, old, new, occ, key, want in RETENTION:
                saved = mutate(tmp, file, old, new, occ)
                try:
                    text, st = run_tool(tmp, out)
                finally:
                    open(os.path.join(tmp, file), "w", encoding="utf-8").write(saved)
                got = st["functions"].get(key, "?")
                good = got.startswith(want) and text == base and st["ok"] is False
                rows.append(("retention", mid, ("%s, committed block kept" % want) if good else "WRONG: %s" % got[:70], ""))
                if not good:
                    failures.append("retention %s: status %r, text identical: %s" % (mid, got, text == base))

        jobs = []     # (kind, id, path, expected_ok, expected_theorem)
        if not only:
            jobs.append(("baseline", "unmutated", scratch_lean(scratch, base, have_parts, "base"), True, None))
        for kind, table in (("mutation", MUTATIONS), ("respelling", RESPELLINGS)):
            for row in table:
                mid, file, old, new, occ, parts = row[:6]
                if only and mid not in only:
                    continue
                expect = row[6] if kind == "mutation" else None
                if any(p not in have_parts for p in parts):
                    rows.append((kind, mid, "SKIPPED (part missing)", ""))
                    failures.append("%s %s: agreement part missing" % (kind, mid))
                    continue
                saved = mutate(tmp, file, old, new, occ)
                try:
                    text, st = run_tool(tmp, out)
                finally:
                    open(os.path.join(tmp, file), "w", encoding="utf-8").write(saved)
                nb = {k: v for k, v in st["functions"].items() if v != "translated"}
                if nb:
                    rows.append((kind, mid, "UNSUPPORTED", str(nb)[:100]))
                    failures.append("%s %s left the subset: %s" % (kind, mid, nb))
                    continue
                if text == base:
                    if kind == "respelling":
                        rows.append((kind, mid, "generated text identical (nothing to re-prove)", ""))
                        continue
                    rows.append((kind, mid, "NO CHANGE in generated text", ""))
                    failures.append("%s %s did not change the generated text" % (kind, mid))
                    continue
                jobs.append((kind, mid, scratch_lean(scratch, text, all_parts(parts), mid), kind == "respelling", expect))

        with concurrent.futures.ThreadPoolExecutor(max_workers=JOBS) as ex:
            results = list(ex.map(lambda j: lean_check(j[2]), jobs))
        for (kind, mid, path, exp_ok, exp_thm), (ok, thm, dt) in zip(jobs, results):
            if exp_ok:
                verdict = "proofs PASS" if ok else "proofs FAIL at %s" % thm
                if not ok:
                    failures.append("%s %s: expected the agreement proofs to pass, failed at %s" % (kind, mid, thm))
            else:
                verdict = ("proof FAILS at %s" % thm) if not ok else "NOT DETECTED (proofs pass)"
                if ok:
                    failures.append("mutation %s was not detected" % mid)
                elif exp_thm and thm != exp_thm:
                    verdict += " (expected %s)" % exp_thm
            rows.append((kind, mid, verdict, "%.1fs" % dt))
    finally:
        shutil.rmtree(tmp, ignore_errors=True)
        if not os.environ.get("RS2LEAN6B_KEEP"):
            shutil.rmtree(scratch, ignore_errors=True)

    w1 = max(len(r[0]) for r in rows)
    w2 = max(len(r[1]) for r in rows)
    w3 = max(len(r[2]) for r in rows)
    print("%-*s  %-*s  %-*s  %s" % (w1, "kind", w2, "case", w3, "result", "time"))
    for r in rows:
        print("%-*s  %-*s  %-*s  %s" % (w1, r[0], w2, r[1], w3, r[2], r[3]))
    n_mut = sum(1 for r in rows if r[0] == "mutation")
    n_det = sum(1 for r in rows if r[0] == "mutation" and r[2].startswith("proof FAILS"))
    print("mutations detected: %d / %d; wall %.0fs" % (n_det, n_mut, time.time() - t_start))
    if failures:
        print("SELFTEST FAILED:")
        for f in failures:
            print("  - " + f)
        return 1
    print("SELFTEST OK")
    return 0


if __name__ == "__main__":
    sys.exit(main())
