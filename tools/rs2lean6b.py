#!/usr/bin/env python3
"""rs2lean6b: phase 6b of the Rust -> Lean translator: the JSON TEXT PARSER of parser.rs (`struct Parser`,
`parse_value`) and the string helpers of util.rs (`parse_string`, `parse_escaped_string`,
`encode_invalid_unicode`).  Extends the subset of tools/rs2lean3.py (which extends rs2lean2.py / rs2lean.py)
with
  * `while cond { .. }` / `loop { .. }`: there is no syntactic iteration bound, so the loop runs on
    `Rs.whileFuel <bound>` where <bound> = `len + 1` of the buffer the loop consumes, read off the source
    (`while !d.is_empty()` -> `d`, `while i < b.len()` -> `b`, `loop` in a method of a struct with exactly one
    byte-slice field -> that field); exhausting the bound is the distinct outcome `Res.fuel` and the
    agreement theorems show that it does not occur (every iteration consumes at least one byte);
  * `self.error(ParseErrorCode::X(..))` of a struct whose `fn error(&self, code) -> Error` builds
    `Error::Syntax(code, <position>)` (checked syntactically): the error `"X"` (as `Error::Syntax(..)` in
    phase 2: the model's errors are the variant names; payloads and positions are not modelled);
  * `s.get(i)`, `b.is_ascii_digit()`, `b.is_ascii_whitespace()`, `(a..=b).contains(&x)`, `vec![lit; n]` of
    bytes, `String::with_capacity(n)`, `s.clear()`, `v.clone()` on bytes / strings, `char` constants of
    constants.rs, `char::from_u32(n)`, `u8.into()` at type `char`, `r.map(Cow::Borrowed)`,
    `<cursor>.read_exact(<vec>.as_mut_slice())?` on a `&[u8]` cursor, `String::from_utf8(v)`;
  * `if let Ok(v) = s.parse::<u64 | i64>()` and `match fast_float2::parse(s) { Ok(v) => .., Err(_) => .. }`:
    the error value is dropped, the primitives are MAPPED to the model's readers (RustPrelude6b.lean);
  * an untyped `let mut v = Vec::new();` whose element type is fixed by the first `v.push(x)` (the
    translation is re-run with it), `match` arms that are a mutating method call (`b'n' => s.push(NN),`).
Output: lean/JsonbModel/Generated/Translated6b.lean (namespace Jsonb.Tr, after the phase-1/2/3 files).
The semantics of every new primitive is in the hand-written lean/JsonbModel/RustPrelude6b.lean.
Same conventions as the earlier phases (see tools/RS2LEAN.md): reads $VERIF_REPO (default /repo), writes the
output only when it changes, prints ONE JSON status line last; `--stdout` prints the text and writes nothing;
a function outside the subset keeps its previously generated block.  Python 3 stdlib only."""
import json, os, re, sys

HERE = os.path.dirname(os.path.abspath(__file__))
sys.path.insert(0, HERE)
import rs2lean as R  # noqa: E402
import rs2lean2 as R2  # noqa: E402
import rs2lean3 as R3  # noqa: E402
from rs2lean import N, Tok, Unsupported, NeedType, FnTr, is_int, is_flex, is_bytes, lname, ind  # noqa: E402
from rs2lean2 import FnTr2, NeedLitType, strip, U8, STR, CHAR  # noqa: E402
from rs2lean3 import Parser3, FnTr3, lean_type3, tystr3  # noqa: E402

REPO = os.environ.get("VERIF_REPO", "/repo")
OUT = os.environ.get("RS2LEAN6B_OUT", os.path.normpath(os.path.join(HERE, "..", "lean", "JsonbModel", "Generated", "Translated6b.lean")))
PREV = os.environ.get("RS2LEAN6B_PREV", OUT)

P = "src/parser.rs"
U = "src/util.rs"

# struct declarations translated in addition to the earlier ones: (file, kind, name)
TYPES6B = [
    (P, "struct", "Parser"),
]

# (file, impl type or None, trait or None, fn name, Lean name, recursive group or None); dependency order
FUNCS6B = [
    ("src/value.rs", "Value", None, "is_string", "Value.is_string", None),
    (U, None, None, "encode_invalid_unicode", "encode_invalid_unicode", None),
    (U, None, None, "parse_escaped_string", "parse_escaped_string", None),
    (U, None, None, "parse_string", "parse_string", None),
    (P, "Parser", None, "new", "Parser.new", None),
    (P, "Parser", None, "step", "Parser.step", None),
    (P, "Parser", None, "step_by", "Parser.step_by", None),
    (P, "Parser", None, "next", "Parser.next", None),
    (P, "Parser", None, "must_is", "Parser.must_is", None),
    (P, "Parser", None, "check_next", "Parser.check_next", None),
    (P, "Parser", None, "check_next_either", "Parser.check_next_either", None),
    (P, "Parser", None, "check_digit", "Parser.check_digit", None),
    (P, "Parser", None, "step_digits", "Parser.step_digits", None),
    (P, "Parser", None, "skip_unused", "Parser.skip_unused", None),
    (P, "Parser", None, "parse_json_null", "Parser.parse_json_null", None),
    (P, "Parser", None, "parse_json_true", "Parser.parse_json_true", None),
    (P, "Parser", None, "parse_json_false", "Parser.parse_json_false", None),
    (P, "Parser", None, "parse_json_number", "Parser.parse_json_number", None),
    (P, "Parser", None, "parse_json_string", "Parser.parse_json_string", None),
    (P, "Parser", None, "parse_json_value", "Parser.parse_json_value", "parser"),
    (P, "Parser", None, "parse_json_array", "Parser.parse_json_array", "parser"),
    (P, "Parser", None, "parse_json_object", "Parser.parse_json_object", "parser"),
    (P, "Parser", None, "parse", "Parser.parse", None),
    (P, None, None, "parse_value", "parse_value", None),
]

RESERVED6B = set("Parser".split())

# methods that mutate their receiver / the vector a `&mut [u8]` view is taken of (seen by the `assigned`
# analysis of rs2lean2)
R2.MUT_METHODS.update({"read_exact", "as_mut_slice"})

# the MAPPED primitives (RustPrelude6b.lean): `s.parse::<T>()` -> (Lean name, value type)
STR_PARSE = {("u64",): ("Rs.strParseU64", ("int", "u64")), ("i64",): ("Rs.strParseI64", ("int", "i64"))}


class FoundHole(Exception):
    """the element type of an untyped `Vec::new()` has been found at its first `push`"""

    def __init__(self, site, ty):
        Exception.__init__(self, "hole %d" % site)
        self.site, self.ty = site, ty


def is_self(e):
    e = strip(e)
    return e.kind == "path" and e.segs == ["self"]


# ----------------------------------------------------------------------------- function translator

class FnTr6b(FnTr3):
    def __init__(self, world, file, impl, trait, name, it, lean, lit_choice=None, group=None, holes=None):
        self.holes = holes if holes is not None else {}
        self.hole_sites = 0
        FnTr3.__init__(self, world, file, impl, trait, name, it, lean, lit_choice, group)
        for x in self.idents:
            if x.endswith("__"):
                raise Unsupported("identifier `%s` clashes with a name used by the generated Lean" % x)

    def bind(self, name, ty):
        if name in RESERVED6B:
            raise Unsupported("local name `%s` clashes with a name used by the generated Lean" % name)
        FnTr3.bind(self, name, ty)

    def concrete(self, t):
        if t is not None and t[0] == "hole":
            return False
        return FnTr3.concrete(self, t)

    def peek_type(self, e):
        save = self.hole_sites
        try:
            return FnTr3.peek_type(self, e)
        except FoundHole:
            return None
        finally:
            self.hole_sites = save

    # -- `self.error(ParseErrorCode::X(..))`
    def check_error_method(self):
        """`fn error(&self, code: ParseErrorCode) -> Error` of this impl ends in `Error::Syntax(code, <pure>)`"""
        key = (self.file, self.impl)
        cache = self.w.__dict__.setdefault("error_method_ok", {})
        if key in cache:
            if cache[key] is not True:
                raise Unsupported(cache[key])
            return
        msg = True
        try:
            hits = self.w.find(self.file, "fn", "error", self.impl, None)
            if len(hits) != 1:
                raise Unsupported("`fn error` of %s not found" % self.impl)
            p = Parser3(list(hits[0]["toks"]))
            p.expectp("(")
            if not (p.eatp("&") and p.eatid("self")):
                raise Unsupported("`fn error` must take `&self`")
            p.expectp(",")
            code = p.ident()
            p.expectp(":")
            if p.parse_type() != ("named", "ParseErrorCode"):
                raise Unsupported("`fn error` must take a `ParseErrorCode`")
            p.eatp(",")
            p.expectp(")")
            p.expectp("->")
            if p.parse_type() != ("named", "Error"):
                raise Unsupported("`fn error` must return `Error`")
            body = p.parse_block()
            t = body.tail
            ok = (t is not None and t.kind == "call" and t.f.kind == "path" and t.f.segs == ["Error", "Syntax"]
                  and len(t.args) == 2 and t.args[0].kind == "path" and t.args[0].segs == [code])
            for s in body.stmts:
                ok = ok and s.kind == "let" and s.init is not None and s.init.kind in ("field", "path", "int")
            if not ok:
                raise Unsupported("`fn error` is not `Error::Syntax(code, <position>)`")
        except Unsupported as e:
            msg = str(e)
        cache[key] = msg
        if msg is not True:
            raise Unsupported(msg)

    def error_name(self, e):
        e0 = strip(e)
        if e0.kind == "mcall" and e0.name == "error" and is_self(e0.recv) and len(e0.args) == 1 and self.impl:
            self.check_error_method()
            code, cargs = e0.args[0], []
            if code.kind == "call" and code.f.kind == "path":
                cargs, code = code.args, code.f
            if code.kind == "path" and len(code.segs) == 2 and code.segs[0] == "ParseErrorCode":
                for a in cargs:
                    ls, _, _ = self.ex(a)
                    if ls:
                        raise Unsupported("effectful error payload")
                return '"%s"' % code.segs[1]
            raise Unsupported("`self.error(..)` of something that is not a `ParseErrorCode` variant")
        return FnTr3.error_name(self, e)

    # -- expressions
    def ex_path(self, e, want):
        segs = e.segs
        if len(segs) == 1 and self.lookup(segs[0]) is None and segs[0] in self.w.consts \
                and R2.norm_type(self.w.consts[segs[0]]) == CHAR:
            return [], "(C.%s : Nat)" % segs[0], CHAR
        return FnTr3.ex_path(self, e, want)

    def res_as_opt(self, e):
        """`s.parse::<u64>()` / `s.parse::<i64>()` / `fast_float2::parse(s)` with the error value dropped
        -> (lines, Option-valued term, type)"""
        e = strip(e)
        if e.kind == "mcall" and e.name == "parse" and not e.args:
            prim = STR_PARSE.get(tuple(getattr(e, "fish", None) or ()))
            if prim is None:
                raise Unsupported("only `.parse::<u64>()` and `.parse::<i64>()` are in the subset")
            ls, t, ty = self.ex(e.recv)
            if ty != STR:
                raise Unsupported("`.parse()` on %s" % tystr3(ty))
            return ls, "(%s %s)" % (prim[0], self.atom(t)), ("opt", prim[1])
        if e.kind == "call" and e.f.kind == "path" and e.f.segs == ["fast_float2", "parse"] and len(e.args) == 1:
            ls, t, ty = self.ex(e.args[0])
            if ty != STR:
                raise Unsupported("`fast_float2::parse` of %s" % tystr3(ty))
            return ls, "(Rs.fastFloatParse %s)" % self.atom(t), ("opt", ("f64",))
        return None

    def is_res_prim(self, e):
        e = strip(e)
        return (e.kind == "mcall" and e.name == "parse" and not e.args and bool(getattr(e, "fish", None))) or \
            (e.kind == "call" and e.f.kind == "path" and e.f.segs == ["fast_float2", "parse"])

    def ex0(self, e, want):
        k = e.kind
        if k == "res_as_opt":
            r = self.res_as_opt(e.e)
            if r is None:
                raise Unsupported("translator error: res_as_opt")
            return r
        if k == "macro" and e.name == "vec":
            p = Parser3(list(e.toks) + [Tok("eof", None, 0)])
            x = p.parse_expr()
            if not p.eatp(";"):
                raise Unsupported("only `vec![x; n]` is in the subset")
            n = p.parse_expr()
            if p.peek().k != "eof":
                raise Unsupported("vec! arguments")
            if want is not None and not is_bytes(want):
                raise Unsupported("`vec![x; n]` at type %s (only bytes)" % tystr3(want))
            l1, t1, _ = self.ex(x, U8)
            l2, t2, _ = self.ex(n, ("int", "usize"))
            return l1 + l2, "(Rs.bytesRepeat %s %s)" % (self.atom(t1), self.atom(t2)), ("vec", U8)
        if k in ("while", "loop"):
            return self.tr_loop(e), "()", ("unit",)
        return FnTr3.ex0(self, e, want)

    def ex_call(self, e, want):
        f = e.f
        if f.kind == "path":
            segs, args = f.segs, e.args
            last2 = segs[-2:] if len(segs) >= 2 else None
            if last2 == ["String", "with_capacity"] and len(args) == 1:
                ls, t, _ = self.ex(args[0], ("int", "usize"))
                ls, r = self.call_res(ls, "Rs.vecWithCapacity UInt8 1 %s" % self.atom(t))
                return ls, r, STR
            if last2 == ["String", "from_utf8"] and len(args) == 1:
                ls, t, ty = self.ex(args[0])
                if not is_bytes(ty):
                    raise Unsupported("String::from_utf8 of %s" % tystr3(ty))
                return ls, "(Rs.strFromUtf8 %s)" % self.atom(t), ("res", STR)
            if last2 == ["char", "from_u32"] and len(args) == 1:
                ls, t, _ = self.ex(args[0], ("int", "u32"))
                return ls, "(Rs.charFromU32 %s)" % self.atom(t), ("opt", CHAR)
            if segs == ["fast_float2", "parse"]:
                raise Unsupported("`fast_float2::parse(..)` is only in the subset as the scrutinee of "
                                  "`match .. { Ok(v) => .., Err(_) => .. }`")
        return FnTr3.ex_call(self, e, want)

    def ex_mcall(self, e, want):
        name, args, recv = e.name, e.args, e.recv
        r0 = recv
        while r0.kind == "paren":
            r0 = r0.e
        if name == "parse" and not args and getattr(e, "fish", None):
            raise Unsupported("`.parse::<T>()` is only in the subset as the scrutinee of `if let Ok(v) = ..`")
        if name == "read_exact":
            raise Unsupported("`read_exact` must be followed by `?`")
        if name == "contains" and len(args) == 1 and r0.kind == "range":
            if not r0.incl or r0.lo is None or r0.hi is None:
                raise Unsupported("only `(a..=b).contains(&x)` is in the subset")
            ls, t, ty = self.ex(args[0])
            ty = self.default_flex(ty)
            if not is_int(ty):
                raise Unsupported("`.contains()` of %s" % tystr3(ty))
            l1, lo, _ = self.ex(r0.lo, ty)
            l2, hi, _ = self.ex(r0.hi, ty)
            if l1 or l2:
                raise Unsupported("effectful range bound")
            return ls, "(decide (%s ≤ %s) && decide (%s ≤ %s))" % (lo, self.atom(t), self.atom(t), hi), ("bool",)
        if name == "get" and len(args) == 1 and args[0].kind != "range":
            rty = self.peek_type(recv)
            if rty is not None and is_bytes(rty):
                ls, t, _ = self.ex(recv)
                l1, t1, _ = self.ex(args[0], ("int", "usize"))
                return ls + l1, "(Rs.getByte %s %s)" % (self.atom(t), self.atom(t1)), ("opt", U8)
        if name in ("is_ascii_digit", "is_ascii_whitespace") and not args:
            rty = self.peek_type(recv)
            if rty == U8:
                ls, t, _ = self.ex(recv)
                fn = "Rs.isAsciiDigit" if name == "is_ascii_digit" else "Rs.isAsciiWhitespace"
                return ls, "(%s %s)" % (fn, self.atom(t)), ("bool",)
        if name == "clone" and not args:
            rty = self.peek_type(recv)
            if rty is not None and (rty == STR or is_bytes(rty)):
                return self.ex(recv)
        if name == "map" and len(args) == 1 and args[0].kind == "path" and args[0].segs[-2:] in (["Cow", "Borrowed"], ["Cow", "Owned"]):
            ls, t, ty = self.ex(recv, want)
            if ty[0] == "res" and ty[1] == STR:
                return ls, t, ty
            raise Unsupported("`.map(Cow::%s)` on %s" % (args[0].segs[-1], tystr3(ty)))
        if name == "into" and not args and want == CHAR:
            ls, t, ty = self.ex(recv)
            if ty == U8:
                return ls, "(Rs.u8AsChar %s)" % self.atom(t), CHAR
            raise Unsupported("`.into()` from %s to char" % tystr3(ty))
        return FnTr3.ex_mcall(self, e, want)

    def ex_try(self, e, want):
        inner = e.e
        if inner.kind == "mcall" and inner.name == "read_exact":
            return self.read_exact(inner)
        return FnTr3.ex_try(self, e, want)

    def read_exact(self, e):
        """`<cursor>.read_exact(<vec>.as_mut_slice())?` on a `&[u8]` cursor (`impl Read for &[u8]`): the vector
        is overwritten with its length in bytes taken from the front of the cursor, which advances; fewer
        bytes is `Err(io::ErrorKind::UnexpectedEof)`, converted by `?` with the crate's
        `impl From<std::io::Error> for Error` (read from src/error.rs)"""
        if len(e.args) != 1:
            raise Unsupported("read_exact arity")
        pl = self.byte_place(e.recv, "read_exact")
        if pl[2][0] != "slice":
            raise Unsupported("read_exact on %s (only a `&[u8]` cursor)" % tystr3(pl[2]))
        a = e.args[0]
        while a.kind in ("paren", "refmut"):
            a = a.e
        if a.kind == "mcall" and a.name == "as_mut_slice" and not a.args:
            a = a.recv
        elif a.kind == "index" and a.idx.kind == "range" and a.idx.lo is None and a.idx.hi is None:
            a = a.e
        else:
            raise Unsupported("the argument of read_exact must be `<vec>.as_mut_slice()`")
        dst = self.byte_place(a, "read_exact")
        if dst[2][0] != "vec":
            raise Unsupported("read_exact into %s (only a `Vec<u8>`)" % tystr3(dst[2]))
        if (dst[0], dst[1]) == (pl[0], pl[1]):
            raise Unsupported("read_exact from and into the same place")
        if self.ret[0] != "res":
            raise Unsupported("`?` in a function that does not return Result")
        err = self.w.error_from.get("std::io::Error")
        if not err:
            raise Unsupported("no `impl From<std::io::Error> for Error` found in src/error.rs")
        v, rest = self.fresh(), self.fresh()
        ls = ["let (%s, %s) ← Ctl.ofRes (Rs.mapErr (Rs.readExact %s (Rs.len %s)) \"%s\")"
              % (v, rest, self.place_term(pl), self.place_term(dst), err)]
        return ls + self.place_store(dst, v) + self.place_store(pl, rest), "()", ("unit",)

    # -- statements
    def tr_stmt(self, s):
        if s.kind == "let" and s.ty is None and s.pat.kind == "p_path" and len(s.pat.path) == 1 \
                and s.init is not None and s.init.kind == "call" and s.init.f.kind == "path" \
                and s.init.f.segs[-2:] == ["Vec", "new"] and not s.init.args:
            site = self.hole_sites
            self.hole_sites += 1
            x = s.pat.path[0]
            if site in self.holes:
                ty = ("vec", self.holes[site])
                self.bind(x, ty)
                return ["let %s : %s := []" % (lname(x), self.lt(ty))], False
            self.bind(x, ("vec", ("hole", site)))
            return ["let %s := []" % lname(x)], False
        if s.kind == "expr" and s.e.kind == "match":
            # `b'n' => s.push(NN),`: an arm that is a mutating method call is a statement
            arms, changed = [], False
            for a in s.e.arms:
                b = a.body
                if b.kind == "mcall" and b.name in R2.MUT_METHODS:
                    b = N("block", stmts=[N("expr", e=b, semi=True)], tail=None)
                    changed = True
                arms.append(N("arm", pat=a.pat, guard=a.guard, body=b))
            if changed:
                s = N("expr", e=N("match", scrut=s.e.scrut, arms=arms), semi=s.semi)
        if s.kind == "expr" and s.e.kind in ("while", "loop"):
            return self.tr_loop(s.e), False
        return FnTr3.tr_stmt(self, s)

    def tr_mutcall(self, e):
        pl = self.place_of(e.recv)
        ty, name, args = pl[2], e.name, e.args
        cur = self.place_term(pl)
        if ty[0] == "vec" and ty[1][0] == "hole":
            if name == "push" and len(args) == 1:
                ls, t, ty1 = self.ex(args[0], None)
                ty1 = self.default_flex(ty1)
                self.need_concrete(ty1)
                raise FoundHole(ty[1][1], ty1)
            raise Unsupported("the element type of `%s` is not known at `.%s()`" % (pl[1], name))
        if name == "clear" and not args and (ty == STR or ty[0] == "vec"):
            return self.place_store(pl, "([] : %s)" % self.lt(ty))
        if name == "push" and len(args) == 1 and ty == STR:
            a = args[0]
            while a.kind == "paren":
                a = a.e
            if a.kind == "mcall" and a.name == "into" and not a.args:
                ls, t, _ = self.ex0(a, CHAR)
                return ls + self.place_store(pl, "(Rs.pushChar %s %s)" % (cur, self.atom(t)))
        return FnTr3.tr_mutcall(self, e)

    # -- `if let Ok(v) = <primitive>` / `match <primitive> { Ok(v) => .., Err(_) => .. }`
    def ctl(self, e, mode, want):
        if e.kind == "iflet" and self.is_res_prim(e.scrut):
            if not (e.pat.kind == "p_ctor" and e.pat.path == ["Ok"] and len(e.pat.args) == 1):
                raise Unsupported("only `if let Ok(v) = ..` on the result of a primitive")
            e = N("iflet", pat=N("p_ctor", path=["Some"], args=e.pat.args), scrut=N("res_as_opt", e=e.scrut),
                  then=e.then, els=e.els)
        return FnTr3.ctl(self, e, mode, want)

    def ctl_match(self, e, mode, want, M):
        if self.is_res_prim(e.scrut):
            arms = []
            kinds = []
            for a in e.arms:
                if a.guard is not None:
                    raise Unsupported("guard on a `Result` match arm")
                if a.pat.kind == "p_ctor" and a.pat.path == ["Ok"] and len(a.pat.args) == 1:
                    arms.append(N("arm", pat=N("p_ctor", path=["Some"], args=a.pat.args), guard=None, body=a.body))
                    kinds.append("ok")
                elif a.pat.kind == "p_ctor" and a.pat.path == ["Err"] and len(a.pat.args) == 1 and a.pat.args[0].kind == "p_wild":
                    arms.append(N("arm", pat=N("p_path", path=["None"]), guard=None, body=a.body))
                    kinds.append("err")
                else:
                    raise Unsupported("only `Ok(v)` / `Err(_)` arms on the result of a primitive")
            if sorted(kinds) != ["err", "ok"]:
                raise Unsupported("only `Ok(v)` / `Err(_)` arms on the result of a primitive")
            e = N("match", scrut=N("res_as_opt", e=e.scrut), arms=arms)
        return FnTr3.ctl_match(self, e, mode, want, M)

    # -- whole function: inside `def T.f` Lean resolves `Bool` to the constructor `T.Bool` of an enum `T`
    def translate(self):
        aux, lines = FnTr3.translate(self)
        if self.impl in self.w.enums:
            for v, _ in self.w.enums[self.impl]:
                if v in ("Bool", "Int", "Nat", "Unit", "Option", "List", "Bytes", "Res", "Ctl"):
                    pat = re.compile(r"(?<![.\w])%s(?![\w.])" % v)
                    aux = [pat.sub("_root_." + v if v not in ("Bytes", "Res", "Ctl") else "Jsonb." + v, l) for l in aux]
                    lines = [pat.sub("_root_." + v if v not in ("Bytes", "Res", "Ctl") else "Jsonb." + v, l) for l in lines]
        return aux, lines

    # -- loops without a syntactic bound
    def loop_bound(self, e):
        """the Lean term bounding the iterations of a `while` / `loop`: `len + 1` of the buffer it consumes"""
        buf = None
        if e.kind == "while":
            c = e.cond
            while c.kind == "paren":
                c = c.e
            if c.kind == "un" and c.op == "!":
                d = c.e
                while d.kind == "paren":
                    d = d.e
                if d.kind == "mcall" and d.name == "is_empty" and not d.args:
                    buf = d.recv
            elif c.kind == "bin" and c.op == "<":
                r = c.r
                while r.kind == "paren":
                    r = r.e
                if r.kind == "mcall" and r.name == "len" and not r.args:
                    buf = r.recv
            if buf is None:
                raise Unsupported("loop (`while`) without an evident iteration bound not in the subset")
        else:
            st = self.self_struct()
            fields = [f for f, t in (st or []) if is_bytes(t) and t[0] == "slice"]
            if len(fields) != 1:
                raise Unsupported("loop (`loop`) without an evident iteration bound not in the subset")
            buf = N("field", e=N("path", segs=["self"]), name=fields[0])
        ls, t, ty = self.ex(buf)
        if ls or not (ty == STR or is_bytes(ty)):
            raise Unsupported("loop bound: `%s` is not a byte buffer" % tystr3(ty))
        return "((Rs.len %s).toNat + 1)" % self.atom(t)

    def loop_core(self, e):
        if e.kind not in ("while", "loop"):
            return FnTr2.tr_loop(self, e)
        M = self.assigned(e)
        bound = self.loop_bound(e)
        body = e.body
        if e.kind == "while":
            test = N("expr", e=N("if", cond=N("un", op="!", e=N("paren", e=e.cond)),
                                 then=N("block", stmts=[N("expr", e=N("break"), semi=True)], tail=None), els=None), semi=False)
            body = N("block", stmts=[test] + list(body.stmts), tail=body.tail)
        if any(not self.concrete(self.lookup(m)) for m in M):
            # the element type of an untyped `Vec::new()` assigned in the loop: a dry run finds its first `push`
            self.loop_stack.append(dict(M=M, rho="Unit"))
            self.push()
            try:
                self.tr_block(body, "value", None)
            finally:
                self.pop()
                self.loop_stack.pop()
            raise Unsupported("the element type of a container could not be inferred")
        sigma_parts = [self.lt(self.lookup(m)) for m in M]
        sigma = "Unit" if not M else sigma_parts[0] if len(M) == 1 else "(" + " × ".join(sigma_parts) + ")"
        outer_rho = self.cur_rho()
        body_rho = "(Rs.LoopCtl %s %s)" % (outer_rho, sigma)
        idents = self.idents_of(body)
        frees = [n for n in self.visible() if n in idents and n not in M and self.lookup(n) != ("writer",)]
        free_params = [(lname(n), self.lt(self.lookup(n))) for n in frees]
        self.loop_stack.append(dict(M=M, rho=body_rho))
        self.push()
        try:
            lines, _, _, div = self.tr_block(body, "value", None)
            if not div:
                lines = lines + ["pure %s" % self.state_pack(M)]
        finally:
            self.pop()
            self.loop_stack.pop()
        self.loop_count = getattr(self, "loop_count", 0) + 1
        aux = "%s.loop%d" % (self.lean, self.loop_count)
        params = ["(%s : %s)" % p for p in free_params]
        if not M:
            params.append("(_ : Unit)")
            st_lines = []
        elif len(M) == 1:
            params.append("(%s : %s)" % (lname(M[0]), sigma))
            st_lines = []
        else:
            params.append("(st__ : %s)" % sigma)
            st_lines = ["let %s := st__" % self.state_pack(M)]
        head = "def %s %s : Ctl %s (Rs.Step %s) := Rs.loopStep do" % (aux, " ".join(params), outer_rho, sigma)
        self.aux_defs.append([head] + ind(st_lines + lines))
        call = "Rs.whileFuel %s %s (%s)" % (bound, self.state_pack(M), " ".join([aux] + [p[0] for p in free_params]))
        if not M:
            return [call]
        return ["let %s ← %s" % (self.state_pack(M), call)]

    def tr_loop(self, e):
        """rs2lean3.FnTr3.tr_loop around `loop_core` (a body that calls a member of the group takes the callee
        as a parameter)"""
        if e.kind == "for":
            it = e.iter
            while it.kind in ("paren", "ref"):
                it = it.e
            if it.kind == "mcall" and it.name == "iter" and not it.args:
                ty = self.peek_type(it.recv)
                if ty is not None and ty[0] == "btree":
                    e = N("for", pat=e.pat, iter=N("btree_pairs", e=it.recv), body=e.body)
        self.rec_stack.append([])
        n_aux = len(self.aux_defs)
        try:
            lines = self.loop_core(e)
        finally:
            recs = self.rec_stack.pop()
        if not recs:
            return lines
        aux = "%s.loop%d" % (self.lean, self.loop_count)
        if len(self.aux_defs) <= n_aux or not self.aux_defs[-1][0].startswith("def %s " % aux):
            raise Unsupported("translator error: hoisted loop body not found")
        params = " ".join("(rec__%s : %s)" % (s["name"], s["lean_fn"]) for s in recs)
        self.aux_defs[-1][0] = self.aux_defs[-1][0].replace("def %s " % aux, "def %s %s " % (aux, params), 1)
        if self.rec_stack:
            given = " ".join("rec__%s" % s["name"] for s in recs)
            for s in recs:
                if s not in self.rec_stack[-1]:
                    self.rec_stack[-1].append(s)
        else:
            given = " ".join("(%s fuel)" % s["lean"] for s in recs)
        hit = [i for i, l in enumerate(lines) if ("(%s " % aux) in l or ("(%s)" % aux) in l]
        if len(hit) != 1:
            raise Unsupported("translator error: loop call site not found")
        i = hit[0]
        if ("(%s)" % aux) in lines[i]:
            lines[i] = lines[i].replace("(%s)" % aux, "(%s %s)" % (aux, given), 1)
        else:
            lines[i] = lines[i].replace("(%s " % aux, "(%s %s " % (aux, given), 1)
        return lines


# ----------------------------------------------------------------------------- driver

HEADER = """-- GENERATED by tools/rs2lean6b.py from the Rust sources of the crate (src/*.rs); do not edit.
-- Phase 6b: the JSON text parser (parser.rs, util.rs).  One block per translated function or recursive group
-- (hoisted loop bodies `<fn>.loop<k>` first; `while` / `loop` run on `Rs.whileFuel` with a bound read off the
-- buffer they consume, `Res.fuel` when it is exhausted; `fuel` decreases by one at every call of a member of the
-- group).  The meaning of every `Rs.*` / `Ctl.*` name is in JsonbModel/RustPrelude.lean, RustPrelude2.lean,
-- RustPrelude3.lean (+ RustPrelude3Str.lean) and RustPrelude6b.lean; the agreement theorems are in
-- Proofs/TranslatedAgreeH*.lean.
import JsonbModel.Generated.Translated3
import JsonbModel.RustPrelude6b

set_option linter.unusedVariables false

namespace Jsonb.Tr
open Jsonb.Rs (Ctl)
"""
FOOTER = "end Jsonb.Tr\n"


def phase3_world(repo):
    """declarations and signatures of the phase-1/2/3 targets (rs2lean3.generate builds them; the world it works
    on is captured, rs2lean3.py itself is not modified)"""
    box = {}
    orig = R3.phase2_world

    def capture(r):
        w = orig(r)
        box["w"] = w
        return w
    R3.phase2_world = capture
    try:
        R3.generate(repo, "")
    finally:
        R3.phase2_world = orig
    return box["w"]


def translate_fn6b(world, file, impl, trait, name, lean, it, group):
    """enumerate the integer types of unannotated literal `let`s (as rs2lean3.translate_fn3); the element types of
    untyped `Vec::new()` are found by re-running; -> (aux lines, def lines, uses_fuel)"""
    def attempt(choice):
        holes = {}
        for _ in range(16):
            try:
                tr = FnTr6b(world, file, impl, trait, name, it, lean, dict(choice), group, holes)
                aux, lines = tr.translate()
                return aux, lines, tr.uses_fuel
            except FoundHole as h:
                if h.site in holes:
                    raise Unsupported("the element type of a container could not be inferred")
                holes[h.site] = h.ty
        raise Unsupported("the element type of a container could not be inferred")

    def solve(choice):
        try:
            return [(dict(choice), attempt(choice))]
        except NeedLitType as e:
            res, errs = [], []
            for c in R2.INT_CANDIDATES:
                ch = dict(choice)
                ch[e.site] = c
                try:
                    res += solve(ch)
                except NeedLitType:
                    raise
                except Unsupported as u:
                    errs.append(str(u))
            if not res:
                raise Unsupported("no integer type fits a literal `let` (%s)" % (errs[0] if errs else "?"))
            return res

    sols = solve({})
    texts = {}
    for ch, r in sols:
        texts.setdefault("\n".join(r[0] + r[1]), []).append(ch)
    if len(texts) == 1:
        return sols[0][1]
    allsites = set()
    for ch, _ in sols:
        allsites |= set(ch)
    if len(sols) == len(R2.INT_CANDIDATES) ** len(allsites):
        for ch, r in sols:
            if all(v == "i32" for v in ch.values()):
                return r
    raise Unsupported("ambiguous integer type of a literal `let`")


def key_of6b(file, impl, name):
    return "%s::%s%s" % (file, (impl + "::") if impl else "", name)


def generate(repo, prev_text):
    world = phase3_world(repo)
    status = {}
    blocks = []
    prev = {m.group(1): m.group(2) for m in R.BLOCK_RE.finditer(prev_text or "")}

    def guarded(key, fn):
        try:
            r = fn()
            status[key] = "translated" if r is not None else "missing"
            return r
        except Unsupported as e:
            status[key] = "unsupported: %s" % e
        except RecursionError:
            status[key] = "unsupported: expression too deeply nested"
        except Exception as e:
            status[key] = "unsupported: translator error (%s: %s)" % (type(e).__name__, e)
        return None

    for file, kind, name in TYPES6B:
        key = "%s::%s %s" % (file, kind, name)
        lines = guarded(key, lambda: R2.emit_type2(world, file, kind, name))
        blocks.append((key, lines))
    # signatures of all targets first (calls inside a group go both ways)
    items = {}
    for file, impl, trait, name, lean, group in FUNCS6B:
        key = key_of6b(file, impl, name)
        hits = world.find(file, "fn", name, impl, trait)
        if not hits:
            status[key] = ("unsupported: cannot read %s: %s" % (file, world.file_errors[file])) if file in world.file_errors else "missing"
            continue
        if len(hits) > 1:
            status[key] = "unsupported: defined more than once"
            continue

        def sig_of():
            tr = FnTr6b(world, file, impl, trait, name, hits[0], lean, None, group)
            ptys = [lean_type3(t, world) for _, t in tr.params]
            lean_type3(tr.ret_value_type(), world)
            world.sigs[(file, impl, name)] = dict(
                params=list(tr.params), ret=tr.ret, lean=lean, writer=None, mut=list(tr.mutparams), name=name,
                group=group, trait=trait, fuel=(True if group is not None else None), holder=None,
                lean_fn=" → ".join(ptys + ["Res %s" % tr.lean_ret()]))
            if impl is None:
                world.sigs_names.add(name)
            return hits[0]
        it = guarded(key, sig_of)
        if it is not None:
            items[key] = it
    done_groups = set()
    for idx, (file, impl, trait, name, lean, group) in enumerate(FUNCS6B):
        key = key_of6b(file, impl, name)
        if group is None:
            lines = None
            if key in items:
                def one():
                    aux, body, uses = translate_fn6b(world, file, impl, trait, name, lean, items[key], None)
                    world.sigs[(file, impl, name)]["fuel"] = bool(uses)
                    return aux + body
                lines = guarded(key, one)
            if lines is None and (file, impl, name) in world.sigs:
                pb = prev.get(key, "")
                world.sigs[(file, impl, name)]["fuel"] = bool(re.search(r"^def %s \(fuel : Nat\)" % re.escape(lean), pb, re.M))
            blocks.append((key, lines))
            continue
        if group in done_groups:
            continue
        done_groups.add(group)
        members = [f for f in FUNCS6B if f[5] == group]
        gkey = "%s::group %s (%s)" % (members[0][0], group, ", ".join(m[3] for m in members))
        auxs, defs, good = [], [], True
        for mfile, mimpl, mtrait, mname, mlean, _ in members:
            mkey = key_of6b(mfile, mimpl, mname)
            if mkey not in items:
                good = False
                continue

            def one():
                aux, body, _ = translate_fn6b(world, mfile, mimpl, mtrait, mname, mlean, items[mkey], group)
                return aux, body
            r = guarded(mkey, one)
            if r is None:
                good = False
            else:
                auxs += r[0]
                defs += r[1]
        if good:
            status[gkey] = "translated"
            blocks.append((gkey, auxs + ["mutual"] + defs + ["end"]))
        else:
            status[gkey] = "unsupported: a member of the group is not translated"
            blocks.append((gkey, None))
    out = [HEADER]
    ok = True
    for key, lines in blocks:
        out.append("-- BEGIN %s\n" % key)
        if lines is not None:
            out.append("\n".join(lines) + "\n")
        else:
            ok = False
            if key in prev:
                out.append(prev[key])
                status[key] += " (kept the previously generated block)"
            else:
                out.append("-- (no translation available)\n")
        out.append("-- END %s\n\n" % key)
    out.append(FOOTER)
    ok = ok and all(v == "translated" for v in status.values())
    return "".join(out), status, ok


def main(argv):
    to_stdout = "--stdout" in argv
    try:
        prev_text = open(PREV, encoding="utf-8").read()
    except OSError:
        prev_text = ""
    text, status, ok = generate(REPO, prev_text)
    if to_stdout:
        sys.stdout.write(text)
        return 0
    try:
        old = open(OUT, encoding="utf-8").read()
    except OSError:
        old = None
    changed = False
    if old != text:
        changed = True
        os.makedirs(os.path.dirname(OUT), exist_ok=True)
        tmp_out = OUT + ".tmp%d" % os.getpid()
        with open(tmp_out, "w", encoding="utf-8") as f:
            f.write(text)
        os.replace(tmp_out, OUT)
    print(json.dumps({"ok": ok, "functions": status, "changed": changed}))
    return 0


if __name__ == "__main__":
    sys.exit(main(sys.argv[1:]))
