#!/usr/bin/env python3
"""rs2lean6d: phase 6d of the Rust -> Lean translator: the PATH PARSERS of jsonpath/parser.rs and keypath.rs and the
PRINTERS (`impl Display`) of jsonpath/path.rs and keypath.rs (properties C09, C16).  Built on tools/rs2lean5a.py
(-> rs2lean4 -> rs2lean3 -> rs2lean2 -> rs2lean), whose outputs and tools are untouched.  Three kinds of targets:
  * the hand-written SCANNERS `check_escaped`, `raw_string`, `string`: ordinary phase-2 style functions (FnTr6 extends
    the phase-5a function translator with `IResult` results, nom error values, `while i < input.len()` on the bound
    `len + 1`, and the callee PARAMETER `parse_string__` for util.rs::parse_string, which is not a target here);
  * COMBINATOR functions `fn f(input, ..) -> IResult<&[u8], T> { [let p = <parser>;]* <parser>(input) }`: every nom 7.1.3
    combinator call becomes the definition of the same name of lean/JsonbModel/Nom.lean (the table NOM_* below IS the
    trusted mapping; each name must be imported from the expected nom module and not be shadowed), closures of `map`
    become Lean lambdas building the translated syntax trees (`enum`s of path.rs / keypath.rs emitted from source, struct
    variants included), recursive parsers form one `mutual` block on explicit fuel (phase-3 convention);
  * the two entry points `parse_json_path` / `parse_key_paths` (`match <parser>(input) { Ok((rest, v)) => .., Err(Error |
    Failure) => .., Err(Incomplete) => unreachable!() }`: the `Incomplete` arm does not exist for complete parsers) and
    the `Display` impls (`write!` / `write_str` on a `Formatter` = appending to the text written so far; `{x}` dispatches on
    the declared type of `x`; the recursive `Path` / `Expr` printers are a `mutual` block on fuel; `Number` prints through
    the phase-5a primitive `Rs.displayNumber fmt__`).
Output: lean/JsonbModel/Generated/Translated6d.lean (namespace Jsonb.Tr, imports the phase-5a file).  The semantics of
the new primitives is in the hand-written lean/JsonbModel/RustPrelude6d.lean.  Same conventions as the earlier phases
(tools/RS2LEAN.md): reads $VERIF_REPO (default /repo), writes the output only when it changes, prints ONE JSON status
line last; `--stdout` prints the text and writes nothing; a function outside the subset keeps its previously generated
block.  Python 3 stdlib only."""
import json, os, re, sys

HERE = os.path.dirname(os.path.abspath(__file__))
TOOLS = HERE
sys.path.insert(0, HERE)
import rs2lean as R  # noqa: E402
import rs2lean2 as R2  # noqa: E402
import rs2lean3 as R3  # noqa: E402
import rs2lean4 as R4  # noqa: E402
import rs2lean5a as R5  # noqa: E402
from rs2lean import N, Tok, Unsupported, NeedType, is_int, is_bytes, lname, ind  # noqa: E402
from rs2lean2 import NeedLitType, strip, U8, STR  # noqa: E402
from rs2lean4 import FoundHole, tystr4  # noqa: E402
from rs2lean5a import Parser5, FnTr5  # noqa: E402

REPO = os.environ.get("VERIF_REPO", "/repo")
OUT = os.environ.get("RS2LEAN6D_OUT", os.path.normpath(os.path.join(TOOLS, "..", "lean", "JsonbModel", "Generated", "Translated6d.lean")))
PREV = os.environ.get("RS2LEAN6D_PREV", OUT)

P = "src/jsonpath/parser.rs"
PA = "src/jsonpath/path.rs"
K = "src/keypath.rs"
U = "src/util.rs"

BYTES = ("slice", U8)


# ----------------------------------------------------------------------------- the hand-written scanners

def rewrite_iresult(toks):
    """`IResult<A, B>` in a signature -> `Result<(A, B)>` (nom's `IResult<I, O> = Result<(I, O), nom::Err<Error<I>>>`)"""
    out, k = [], 0
    while k < len(toks):
        t = toks[k]
        if t.k == "id" and t.v == "IResult" and k + 1 < len(toks) and toks[k + 1].k == "p" and toks[k + 1].v == "<":
            flat = []
            for x in toks[k + 1:]:
                flat += [Tok("p", ">", x.pos), Tok("p", ">", x.pos)] if (x.k == "p" and x.v == ">>") else [x]
            depth, j = 0, 0
            while True:
                x = flat[j]
                if x.k == "eof":
                    raise Unsupported("parse: unbalanced <> after IResult")
                if x.k == "p" and x.v == "<":
                    depth += 1
                elif x.k == "p" and x.v == ">":
                    depth -= 1
                    if depth == 0:
                        break
                j += 1
            return out + [Tok("id", "Result", t.pos), Tok("p", "<", t.pos), Tok("p", "(", t.pos)] + flat[1:j] \
                + [Tok("p", ")", t.pos), Tok("p", ">", t.pos)] + rewrite_iresult(flat[j + 1:])
        out.append(t)
        k += 1
    return out


def nom_error_name(e):
    """`nom::Err::Error(NomError::new(<input>, ErrorKind::<K>))` -> "Error" (the payload of a nom error is never
    inspected by the crate: `alt` / `opt` / `many0` only look at the variant)"""
    e = strip(e)
    if e.kind == "call" and e.f.kind == "path" and e.f.segs in (["nom", "Err", "Error"], ["nom", "Err", "Failure"]) and len(e.args) == 1:
        a = strip(e.args[0])
        if a.kind == "call" and a.f.kind == "path" and a.f.segs == ["NomError", "new"] and len(a.args) == 2:
            k = strip(a.args[1])
            if k.kind == "path" and len(k.segs) == 2 and k.segs[0] == "ErrorKind":
                return '"%s"' % e.f.segs[2]
    return None


class FnTr6(FnTr5):
    """the phase-5a function translator plus: `IResult` results (`Res (rest × value)`, nom errors by variant name),
    `&mut` parameters again, `while <i> < <bytes>.len()` on the bound `len + 1`, calls of the callee PARAMETER
    `parse_string__`"""

    def __init__(self, world, file, impl, trait, name, it, lean, lit_choice=None, group=None, holes=None):
        self.uses_parse_string = False
        FnTr5.__init__(self, world, file, impl, trait, name, it, lean, lit_choice, group, holes)

    def parse_sig(self, it):
        FnTr5.parse_sig(self, dict(it, toks=rewrite_iresult(list(it["toks"]))))

    def error_name(self, e):
        n = nom_error_name(e)
        if n is not None:
            return n
        return FnTr5.error_name(self, e)

    def user_call(self, sig, args, recv=None):
        if sig.get("callee_param"):
            self.uses_parse_string = True
        return FnTr5.user_call(self, sig, args, recv)

    # -- `<callee with &mut parameters>(..).map_err(|_| <error>)?`
    def ex_try(self, e, want):
        inner = strip(e.e)
        if inner.kind == "mcall" and inner.name == "map_err" and len(inner.args) == 1:
            recv = strip(inner.recv)
            sig = self.callee_sig(recv) if recv.kind in ("call", "mcall") else None
            if self.needs_mode(sig):
                c = inner.args[0]
                if c.kind != "closure" or len(c.params) != 1 or c.params[0].kind != "p_wild":
                    raise Unsupported("`map_err` is limited to `|_| <error>`")
                err = self.error_name(c.body)
                ls, t, ty = self.in_mode("try", recv)
                pre = "← Ctl.ofRes (%s" % sig["lean"]
                hit = [i for i, l in enumerate(ls) if l.startswith("let ") and pre in l and l.endswith(")")]
                if len(hit) != 1:
                    raise Unsupported("translator error: call site of %s not found" % sig["lean"])
                i = hit[0]
                head, call = ls[i].split("← Ctl.ofRes ", 1)
                ls[i] = "%s← Ctl.ofRes (Rs.mapErr %s %s)" % (head, call, err)
                return ls, t, ty
        return FnTr5.ex_try(self, e, want)

    # -- `while <cond> { body }`: `loop { if !<cond> { break; } body }` on the bound `<bytes>.len() + 1` when the
    # condition is `<local> < <bytes parameter>.len()`
    def tr_loop(self, e):
        if e.kind != "while":
            return FnTr5.tr_loop(self, e)
        c = strip(e.cond)
        ok = c.kind == "bin" and c.op == "<" and strip(c.l).kind == "path" and len(strip(c.l).segs) == 1
        if ok:
            r = strip(c.r)
            ok = r.kind == "mcall" and r.name == "len" and not r.args and strip(r.recv).kind == "path" \
                and len(strip(r.recv).segs) == 1 and self.own_param(strip(r.recv).segs[0]) \
                and is_bytes(self.lookup(strip(r.recv).segs[0]))
        if not ok:
            raise Unsupported("`while` is limited to `while <local> < <bytes parameter>.len()`")
        bound = lname(strip(strip(c.r).recv).segs[0])
        brk = N("expr", e=N("if", cond=N("un", op="!", e=N("paren", e=e.cond)),
                            then=N("block", stmts=[N("expr", e=N("break"), semi=True)], tail=None), els=None), semi=False)
        body = N("block", stmts=[brk] + list(e.body.stmts), tail=e.body.tail)
        # reuse the `while let` machinery of rs2lean2: a fake loop node whose driver we then patch
        fake = N("whilecond", body=body, bound=bound)
        return self.tr_while(fake)

    def tr_while(self, e):
        """rs2lean2.FnTr2.tr_loop for a `loop { .. }` with the driver `Rs.whileFuel ((Rs.len <bound>).toNat + 1)`"""
        M = self.assigned(e.body)
        sigma_parts = [self.lt(self.lookup(m)) for m in M]
        sigma = "Unit" if not M else sigma_parts[0] if len(M) == 1 else "(" + " × ".join(sigma_parts) + ")"
        outer_rho = self.cur_rho()
        body_rho = "(Rs.LoopCtl %s %s)" % (outer_rho, sigma)
        idents = self.idents_of(e.body)
        frees = [n for n in self.visible() if n in idents and n not in M]
        free_params = [(lname(n), self.lt(self.lookup(n))) for n in frees]
        self.loop_stack.append(dict(M=M, rho=body_rho))
        self.push()
        try:
            lines, _, _, div = self.tr_block(e.body, "value", None)
            if not div:
                lines = lines + ["pure %s" % self.state_pack(M)]
        finally:
            self.pop()
            self.loop_stack.pop()
        self.loop_count = getattr(self, "loop_count", 0) + 1
        aux = "%s.loop%d" % (self.lean, self.loop_count)
        params = ["(%s : %s)" % p for p in free_params]
        if not M:
            params.append("(_ : Unit)")
            st_lines = []
        elif len(M) == 1:
            params.append("(%s : %s)" % (lname(M[0]), sigma))
            st_lines = []
        else:
            params.append("(st__ : %s)" % sigma)
            st_lines = ["let %s := st__" % self.state_pack(M)]
        head = "def %s %s : Ctl %s (Rs.Step %s) := Rs.loopStep do" % (aux, " ".join(params), outer_rho, sigma)
        self.aux_defs.append([head] + ind(st_lines + lines))
        driver = "Rs.whileFuel ((Rs.len %s).toNat + 1)" % e.bound
        call = "%s %s (%s)" % (driver, self.state_pack(M), " ".join([aux] + [p[0] for p in free_params]))
        if not M:
            return [call]
        return ["let %s ← %s" % (self.state_pack(M), call)]

    def translate0(self):
        p = self.body_parser
        body = p.parse_block()
        if p.peek().k != "eof":
            raise Unsupported("tokens after the function body")
        self.scopes = []
        self.push()
        binders = []
        for n, t in self.params:
            self.bind(n, t)
            binders.append("(%s : %s)" % (lname(n), self.lt(t)))
        if self.ret[0] == "res" and self.ret[1][0] == "res":
            raise Unsupported("nested Result")
        lines, _, _, _ = self.tr_block(body, "tail", None)
        if self.texts or self.uses_fmt or self.uses_fuel:
            raise Unsupported("text / fmt / fuel parameters in a phase-6d scanner")
        out = []
        for a in self.aux_defs:
            out += a + [""]
        if self.uses_parse_string:
            binders = [PARSE_STRING_BINDER] + binders
            out = [re.sub(r"^(def \S+ )", lambda m: m.group(1) + PARSE_STRING_BINDER + " ", l) if l.startswith("def ") and "parse_string__" in "\n".join(out) else l
                   for l in out]
        head = "def %s %s: Res %s := Ctl.run do" % (self.lean, "".join(x + " " for x in binders), self.lean_ret())
        return out, [head] + ind(lines)


PARSE_STRING_BINDER = "(parse_string__ : Bytes → Int → Int → Res (Bytes × Int))"


def translate_scanner(world, file, name, lean, it):
    def attempt(choice):
        holes = {}
        for _ in range(16):
            try:
                tr = FnTr6(world, file, None, None, name, it, lean, dict(choice), None, holes)
                aux, lines = tr.translate()
                return aux, lines, tr
            except FoundHole as h:
                if h.site in holes:
                    raise Unsupported("the element type of a container could not be inferred")
                holes[h.site] = h.ty
        raise Unsupported("the element type of a container could not be inferred")

    def solve(choice):
        try:
            return [(dict(choice), attempt(choice))]
        except NeedLitType as e:
            res, errs = [], []
            for c in R2.INT_CANDIDATES:
                ch = dict(choice)
                ch[e.site] = c
                try:
                    res += solve(ch)
                except NeedLitType:
                    raise
                except Unsupported as u:
                    errs.append(str(u))
            if not res:
                raise Unsupported("no integer type fits a literal `let` (%s)" % (errs[0] if errs else "?"))
            return res

    sols = solve({})
    texts = {}
    for ch, r in sols:
        texts.setdefault("\n".join(r[0] + r[1]), []).append(ch)
    if len(texts) == 1:
        return sols[0][1]
    raise Unsupported("ambiguous integer type of a literal `let`")


# ----------------------------------------------------------------------------- declarations (path.rs, keypath.rs)

class Parser6(Parser5):
    """+ `Box<T>` (its `T`), struct patterns `P { a, b: pat, .. }`"""

    def parse_type(self):
        if self.isid("Box") and self.isp("<", 1):
            self.next()
            args = self.parse_generic_args()
            if len(args) != 1:
                raise Unsupported("Box arguments")
            return args[0]
        return Parser5.parse_type(self)

    def parse_pattern1(self):
        # `Path::Variant { field, field: pat, .. }`
        save = self.i
        if self.peek().k == "id" and self.peek().v not in ("ref", "mut", "_"):
            segs = [self.ident()]
            while self.isp("::") and self.peek(1).k == "id":
                self.next()
                segs.append(self.ident())
            if self.isp("{") and segs[-1][0].isupper():
                self.next()
                fields, rest = [], False
                while not self.isp("}"):
                    if self.eatp(".."):
                        rest = True
                        break
                    self.eatid("ref")
                    self.eatid("mut")
                    fname = self.ident()
                    if self.eatp(":"):
                        sub = self.parse_pattern()
                    else:
                        sub = N("p_path", path=[fname])
                    fields.append((fname, sub))
                    if not self.eatp(","):
                        break
                self.expectp("}")
                return N("p_struct", path=segs, fields=fields, rest=rest)
        self.i = save
        return Parser5.parse_pattern1(self)


def norm6(t):
    return R4.norm4(t)


def parse_decl6(it, kind):
    """enum -> [(variant, 'unit'|'tuple'|'struct', [(field name or None, type)])]; struct -> [(field, type)]"""
    p = Parser6(it["toks"])
    if p.isp("<"):
        inner = p.skip_generics()
        if any(t.k != "life" and not (t.k == "p" and t.v == ",") for t in inner):
            raise Unsupported("generic declaration")
    p.expectp("{")
    out = []
    while not p.isp("}"):
        p.skip_attrs()
        if kind == "struct":
            if p.eatid("pub") and p.isp("("):
                p.skip_balanced()
            name = p.ident()
            p.expectp(":")
            out.append((name, norm6(p.parse_type())))
        else:
            vname = p.ident()
            if p.eatp("("):
                tys = []
                while not p.isp(")"):
                    tys.append((None, norm6(p.parse_type())))
                    if not p.eatp(","):
                        break
                p.expectp(")")
                out.append((vname, "tuple", tys))
            elif p.eatp("{"):
                fs = []
                while not p.isp("}"):
                    p.skip_attrs()
                    fn = p.ident()
                    p.expectp(":")
                    fs.append((fn, norm6(p.parse_type())))
                    if not p.eatp(","):
                        break
                p.expectp("}")
                out.append((vname, "struct", fs))
            else:
                out.append((vname, "unit", []))
            if p.eatp("="):
                raise Unsupported("explicit discriminant")
        if not p.eatp(","):
            break
    p.expectp("}")
    return out


class Decls:
    """the declarations the path parsers / printers are about: world.enums6[name] = variants (with field names),
    world.structs6[name] = fields"""

    def __init__(self, world):
        self.w = world
        self.enums = {}
        self.structs = {}

    def lt(self, t):
        k = t[0]
        if k == "int":
            return "Int"
        if k == "bool":
            return "Bool"
        if k == "f64":
            return "Nat"
        if k == "unit":
            return "Unit"
        if k == "str" or is_bytes(t):
            return "Bytes"
        if k in ("vec", "slice"):
            return "(List %s)" % self.lt(t[1])
        if k == "opt":
            return "(Option %s)" % self.lt(t[1])
        if k == "tuple":
            return "(" + " × ".join(self.lt(x) for x in t[1]) + ")"
        if k == "named" and (t[1] in self.enums or t[1] in self.structs or t[1] in self.w.enums or t[1] in self.w.structs):
            return t[1]
        raise Unsupported("type `%s` not in the subset" % tystr4(t))

    def load(self, file, kind, name):
        hits = self.w.find(file, kind, name)
        if not hits:
            if file in self.w.file_errors:
                raise Unsupported("cannot read %s: %s" % (file, self.w.file_errors[file]))
            return None
        if len(hits) > 1:
            raise Unsupported("declared more than once")
        return parse_decl6(hits[0], kind)

    def emit(self, file, members):
        """members: [(kind, name)]; one block; several members = one `mutual` block"""
        decls = []
        for kind, name in members:
            d = self.load(file, kind, name)
            if d is None:
                return None
            decls.append((kind, name, d))
        for kind, name, d in decls:
            (self.enums if kind == "enum" else self.structs)[name] = d
        try:
            lines = []
            for kind, name, d in decls:
                if kind == "struct":
                    lines.append("structure %s where" % name)
                    for fn, ft in d:
                        lines.append("  %s : %s" % (lname(fn), self.lt(ft)))
                else:
                    lines.append("inductive %s where" % name)
                    for vn, vk, fs in d:
                        args = "".join(" (%s : %s)" % (lname(fn) if fn else "a%d" % i, self.lt(ft)) for i, (fn, ft) in enumerate(fs))
                        lines.append("  | %s%s" % (lname(vn), args))
        except Unsupported:
            for kind, name, d in decls:
                (self.enums if kind == "enum" else self.structs).pop(name, None)
            raise
        if len(decls) > 1:
            lines = ["mutual"] + lines + ["end"]
        return lines

    def variant(self, en, vn):
        for v in self.enums.get(en, []):
            if v[0] == vn:
                return v
        if en in self.w.enums:                      # enums of earlier phases: tuple variants only
            for v, tys in self.w.enums[en]:
                if v == vn:
                    return (v, "tuple" if tys else "unit", [(None, t) for t in tys])
        return None

    def is_enum(self, en):
        return en in self.enums or en in self.w.enums


# ----------------------------------------------------------------------------- the small functional translator
# (closures of `map`, the two `parse_*` entry points, the `Display` impls): Lean `do` blocks in the `Res` monad,
# assigned variables rebound by shadowing and threaded out of `if` / `match` / `for` as a tuple.

ORD = ("ordering",)
BOOL = ("bool",)
UNIT = ("unit",)
I32MINMAX = {}
for _n, (_lo, _hi) in R.INT_RANGE.items():
    I32MINMAX[(_n, "MIN")] = _lo
    I32MINMAX[(_n, "MAX")] = _hi


def parse_format(text):
    """Rust format string -> list of ('lit', bytes) | ('arg', name or None)"""
    bs = R2.rust_str_bytes(text).decode("utf-8")
    out, cur, i = [], "", 0
    while i < len(bs):
        c = bs[i]
        if c == "{":
            if bs.startswith("{{", i):
                cur += "{"; i += 2
                continue
            j = bs.find("}", i)
            if j < 0:
                raise Unsupported("format string")
            spec = bs[i + 1:j]
            if not re.fullmatch(r"[A-Za-z_][A-Za-z0-9_]*|", spec):
                raise Unsupported("format specification `{%s}` not in the subset" % spec)
            if cur:
                out.append(("lit", cur.encode("utf-8"))); cur = ""
            out.append(("arg", spec or None))
            i = j + 1
        elif c == "}":
            if bs.startswith("}}", i):
                cur += "}"; i += 2
                continue
            raise Unsupported("format string")
        else:
            cur += c; i += 1
    if cur:
        out.append(("lit", cur.encode("utf-8")))
    return out


def split_macro_args(toks):
    """comma-separated expressions of a macro invocation"""
    p = Parser6(list(toks) + [Tok("eof", None, 0)])
    args = []
    while p.peek().k != "eof":
        args.append(p.parse_expr())
        if not p.eatp(","):
            break
    if p.peek().k != "eof":
        raise Unsupported("macro arguments")
    return args


class Mini:
    def __init__(self, gen, owner):
        self.g = gen                    # the generator: decls, sigs
        self.d = gen.decls
        self.owner = owner              # dict of the function being translated (for fuel / fmt / group bookkeeping)
        self.scopes = [{}]
        self.tmp = 0
        self.used_names = set()

    # -- environment
    def push(self):
        self.scopes.append({})

    def pop(self):
        self.scopes.pop()

    def bind(self, name, ty):
        if name in RESERVED6 or re.fullmatch(r"tmp\d+", name):
            raise Unsupported("local name `%s` clashes with a name used by the generated Lean" % name)
        self.scopes[-1][name] = ty

    def has(self, name):
        return any(name in s for s in self.scopes)

    def lookup(self, name):
        for s in reversed(self.scopes):
            if name in s:
                return s[name]
        return None

    def fresh(self):
        self.tmp += 1
        return "tmp%d" % self.tmp

    @staticmethod
    def atom(t):
        return R.FnTr.atom(None, t) if False else (t if re.fullmatch(r"[A-Za-z_][A-Za-z0-9_.]*|\d+", t) or (t.startswith("(") and R.FnTr.balanced_atom(t) and t.endswith(")")) or (t.startswith("[") and t.endswith("]")) else "(%s)" % t)

    # -- patterns -> (lean pattern, binds)
    def pat(self, p, ty):
        k = p.kind
        if k == "p_wild":
            return "_", []
        if k == "p_tuple":
            tys = ty[1] if (ty is not None and ty[0] == "tuple" and len(ty[1]) == len(p.items)) else [None] * len(p.items)
            if ty is not None and ty[0] == "tuple" and len(ty[1]) != len(p.items):
                raise Unsupported("tuple pattern arity")
            parts, binds = [], []
            for q, qt in zip(p.items, tys):
                s1, b1 = self.pat(q, qt)
                parts.append(s1); binds += b1
            return "(" + ", ".join(parts) + ")", binds
        if k == "p_or":
            res = [self.pat(a, ty) for a in p.alts]
            if any(sorted(b) != sorted(res[0][1]) for _, b in res):
                raise Unsupported("alternatives that bind different names")
            return " | ".join(s for s, _ in res), res[0][1]
        if k == "p_path":
            if len(p.path) == 1:
                x = p.path[0]
                if x == "None":
                    return "none", []
                if x[0].isupper():
                    raise Unsupported("pattern `%s`" % x)
                return lname(x), [(x, ty)]
            if len(p.path) == 2:
                en, vn = p.path
                if en == "Ordering":
                    m = {"Less": ".lt", "Equal": ".eq", "Greater": ".gt"}
                    if vn in m:
                        return m[vn], []
                v = self.d.variant(en, vn)
                if v is not None and v[1] == "unit":
                    self.check_enum(ty, en)
                    return ".%s" % lname(vn), []
            raise Unsupported("pattern `%s`" % "::".join(p.path))
        if k == "p_ctor":
            if p.path == ["Some"] and len(p.args) == 1:
                s1, b1 = self.pat(p.args[0], ty[1] if (ty is not None and ty[0] == "opt") else None)
                return "(some %s)" % s1, b1
            if len(p.path) == 2:
                en, vn = p.path
                v = self.d.variant(en, vn)
                if v is not None and v[1] == "tuple" and len(v[2]) == len(p.args):
                    self.check_enum(ty, en)
                    parts, binds = [], []
                    for q, (_, ft) in zip(p.args, v[2]):
                        s1, b1 = self.pat(q, ft)
                        parts.append(s1); binds += b1
                    return "(.%s %s)" % (lname(vn), " ".join(parts)), binds
            raise Unsupported("pattern `%s(..)`" % "::".join(p.path))
        if k == "p_struct":
            if len(p.path) == 2:
                en, vn = p.path
                v = self.d.variant(en, vn)
                if v is not None and v[1] == "struct":
                    self.check_enum(ty, en)
                    given = dict(p.fields)
                    if len(given) != len(p.fields) or any(f not in [fn for fn, _ in v[2]] for f in given):
                        raise Unsupported("fields of pattern `%s`" % "::".join(p.path))
                    if not p.rest and len(given) != len(v[2]):
                        raise Unsupported("pattern `%s` does not name every field" % "::".join(p.path))
                    parts, binds = [], []
                    for fn, ft in v[2]:
                        if fn in given:
                            s1, b1 = self.pat(given[fn], ft)
                            parts.append(s1); binds += b1
                        else:
                            parts.append("_")
                    return "(.%s %s)" % (lname(vn), " ".join(parts)), binds
            raise Unsupported("pattern `%s { .. }`" % "::".join(p.path))
        raise Unsupported("pattern kind `%s` not in the subset" % k)

    def check_enum(self, ty, en):
        if ty is not None and ty != ("named", en):
            raise Unsupported("pattern of `%s` against %s" % (en, tystr4(ty)))

    # -- pure expressions -> (term, type or None); fallible sub-expressions are bound in `pre` first
    def ex(self, e, want=None, pre=None):
        k = e.kind
        if k in ("paren", "ref"):
            return self.ex(e.e, want, pre)
        if k == "un" and e.op == "*":
            return self.ex(e.e, want, pre)
        if k == "int":
            ty = ("int", e.suffix) if e.suffix else (want if (want is not None and want[0] == "int") else None)
            return "(%d : Int)" % e.value, ty
        if k == "un" and e.op == "-" and e.e.kind == "int":
            return "(%d : Int)" % (-e.e.value), (want if (want is not None and want[0] == "int") else None)
        if k == "bool":
            return "true" if e.value else "false", BOOL
        if k == "unit":
            return "()", UNIT
        if k == "lit_other" and e.what == "str":
            return "(Rs.strLit %s)" % R2.lean_str_lit(R2.rust_str_bytes(e.text)), STR
        if k == "un" and e.op == "!":
            t, ty = self.ex(e.e, BOOL, pre)
            if ty not in (BOOL, None):
                raise Unsupported("`!` on %s" % tystr4(ty))
            return "(!%s)" % self.atom(t), BOOL
        if k == "path":
            return self.ex_path(e, want)
        if k == "tuple":
            wants = want[1] if (want is not None and want[0] == "tuple" and len(want[1]) == len(e.items)) else [None] * len(e.items)
            parts, tys = [], []
            for it, w1 in zip(e.items, wants):
                t1, ty1 = self.ex(it, w1, pre)
                parts.append(t1); tys.append(ty1)
            return "(" + ", ".join(parts) + ")", (("tuple", tuple(tys)) if all(t is not None for t in tys) else None)
        if k == "call":
            return self.ex_call(e, want, pre)
        if k == "struct":
            return self.ex_struct(e, want, pre)
        if k == "macro" and e.name == "vec":
            items = split_macro_args(e.toks)
            el = want[1] if (want is not None and want[0] == "vec") else None
            parts = []
            for it in items:
                t1, ty1 = self.ex(it, el, pre)
                el = el or ty1
                parts.append(t1)
            return "[" + ", ".join(parts) + "]", (("vec", el) if el is not None else want)
        if k == "cast":
            t, ty = self.ex(e.e, None, pre)
            target = norm6(e.ty)
            if ty is None or not is_int(ty) or not is_int(target):
                raise Unsupported("cast from %s to %s" % (tystr4(ty), tystr4(target)))
            return "(Rs.cast .%s %s)" % (target[1], self.atom(t)), target
        if k == "mcall":
            return self.ex_mcall(e, want, pre)
        if k == "index":
            t, ty = self.ex(e.e, None, pre)
            if ty is None or ty[0] != "vec" or is_bytes(ty):
                raise Unsupported("indexing into %s" % tystr4(ty))
            it, _ = self.ex(e.idx, ("int", "usize"), pre)
            if pre is None:
                raise Unsupported("an index expression (it can panic) in a position that must be total")
            r = self.fresh()
            pre.append("let %s ← Rs.vecIndex %s %s" % (r, self.atom(t), self.atom(it)))
            return r, ty[1]
        if k == "bin":
            return self.ex_bin(e, want, pre)
        if k == "match":
            return self.ex_match(e, want, pre)
        if k == "field":
            t, ty = self.ex(e.e, None, pre)
            if ty is not None and ty[0] == "named" and ty[1] in self.d.structs:
                for fn, ft in self.d.structs[ty[1]]:
                    if fn == e.name:
                        return "%s.%s" % (self.atom(t), lname(fn)), ft
            raise Unsupported("field `.%s` on %s" % (e.name, tystr4(ty)))
        raise Unsupported("expression kind `%s` not in the subset here" % k)

    def ex_path(self, e, want):
        segs = e.segs
        if len(segs) == 1:
            x = segs[0]
            if self.has(x):
                return lname(x), self.lookup(x)
            if x == "None":
                return "none", want
            raise Unsupported("unknown name `%s`" % x)
        if len(segs) == 2:
            a, b = segs
            if (a, b) in I32MINMAX:
                return "(Rs.IntTy.%s.%sVal)" % (a, b.lower()), ("int", a)
            if a == "Ordering" and b in ("Less", "Equal", "Greater"):
                return {"Less": "Ordering.lt", "Equal": "Ordering.eq", "Greater": "Ordering.gt"}[b], ORD
            v = self.d.variant(a, b)
            if v is not None:
                if v[1] == "unit":
                    return "%s.%s" % (a, lname(b)), ("named", a)
                if v[1] == "tuple" and len(v[2]) == 1:
                    # a constructor used as a function (`map(p, Path::DotField)`)
                    return "%s.%s" % (a, lname(b)), ("fn", v[2][0][1], ("named", a))
        raise Unsupported("path `%s` not in the subset" % "::".join(segs))

    def ex_call(self, e, want, pre):
        f = e.f
        if f.kind != "path":
            raise Unsupported("call of a computed function")
        segs, args = f.segs, e.args
        if segs == ["Some"] and len(args) == 1:
            t, ty = self.ex(args[0], want[1] if (want is not None and want[0] == "opt") else None, pre)
            return "(some %s)" % self.atom(t), (("opt", ty) if ty is not None else want)
        if segs == ["Box", "new"] and len(args) == 1:
            return self.ex(args[0], want, pre)
        if len(segs) == 2:
            v = self.d.variant(segs[0], segs[1])
            if v is not None and v[1] == "tuple" and len(v[2]) == len(args):
                parts = []
                for a, (_, ft) in zip(args, v[2]):
                    t1, ty1 = self.ex(a, ft, pre)
                    self.compat(ty1, ft, "argument of `%s`" % "::".join(segs))
                    parts.append(self.atom(t1))
                return "(%s.%s %s)" % (segs[0], lname(segs[1]), " ".join(parts)), ("named", segs[0])
        raise Unsupported("call of `%s` not in the subset here" % "::".join(segs))

    def compat(self, got, exp, what):
        if got is None or exp is None:
            return
        if got == exp:
            return
        if is_bytes(got) and is_bytes(exp):
            return
        if got[0] == exp[0] and got[0] in ("vec", "opt"):
            return self.compat(got[1], exp[1], what)
        if got[0] == "tuple" and exp[0] == "tuple" and len(got[1]) == len(exp[1]):
            for a, b in zip(got[1], exp[1]):
                self.compat(a, b, what)
            return
        raise Unsupported("%s: %s where %s is expected" % (what, tystr4(got), tystr4(exp)))

    def ex_struct(self, e, want, pre):
        if len(e.path) == 2:
            v = self.d.variant(e.path[0], e.path[1])
            if v is not None and v[1] == "struct":
                given = dict(e.fields)
                if len(given) != len(e.fields) or set(given) != set(fn for fn, _ in v[2]):
                    raise Unsupported("fields of `%s { .. }` differ from the declaration" % "::".join(e.path))
                vals = {}
                for fn, fe in e.fields:                  # evaluation order = source order
                    ft = dict(v[2])[fn]
                    t1, ty1 = self.ex(fe, ft, pre)
                    self.compat(ty1, ft, "field `%s`" % fn)
                    vals[fn] = self.atom(t1)
                return "(%s.%s %s)" % (e.path[0], lname(e.path[1]), " ".join(vals[fn] for fn, _ in v[2])), ("named", e.path[0])
        if len(e.path) == 1 and e.path[0] in self.d.structs:
            decl = self.d.structs[e.path[0]]
            given = dict(e.fields)
            if len(given) != len(e.fields) or set(given) != set(fn for fn, _ in decl):
                raise Unsupported("fields of `%s { .. }` differ from the declaration" % e.path[0])
            vals = {}
            for fn, fe in e.fields:
                ft = dict(decl)[fn]
                t1, ty1 = self.ex(fe, ft, pre)
                self.compat(ty1, ft, "field `%s`" % fn)
                vals[fn] = t1
            return "({ %s } : %s)" % (", ".join("%s := %s" % (lname(fn), vals[fn]) for fn, _ in decl), e.path[0]), ("named", e.path[0])
        raise Unsupported("struct literal `%s`" % "::".join(e.path))

    def ex_mcall(self, e, want, pre):
        name, args = e.name, e.args
        if name in ("clone", "iter", "as_ref", "as_str", "to_owned") and not args:
            return self.ex(e.recv, want, pre)
        t, ty = self.ex(e.recv, None, pre)
        a = self.atom(t)
        if name == "skip" and len(args) == 1 and ty is not None and ty[0] == "vec":
            n = strip(args[0])
            if n.kind != "int" or n.suffix:
                raise Unsupported("`.skip(..)` with a non-literal count")
            return "(List.drop %d %s)" % (n.value, a), ty
        if name == "enumerate" and not args and ty is not None and ty[0] == "vec":
            return "(Rs.enumerate %s)" % a, ("vec", ("tuple", (("int", "usize"), ty[1])))
        if name == "is_empty" and not args and ty is not None and (ty[0] in ("vec", "str") or is_bytes(ty)):
            return "(Rs.isEmpty %s)" % a, BOOL
        if ty is not None and is_int(ty):
            if name == "saturating_neg" and not args:
                if ty[1][0] != "i":
                    raise Unsupported("saturating_neg on %s" % ty[1])
                return "(Rs.saturatingNeg .%s %s)" % (ty[1], a), ty
            if name == "clamp" and len(args) == 2:
                lo, hi = self.const_int(args[0]), self.const_int(args[1])
                if lo is None or hi is None:
                    raise Unsupported("`.clamp(..)` with bounds that are not constants")
                if not (lo <= hi):
                    raise Unsupported("`.clamp(min, max)` with min > max (it panics)")
                rlo, rhi = R.INT_RANGE[ty[1]]
                if not (rlo <= lo and hi <= rhi):
                    raise Unsupported("`.clamp(..)` bounds outside the operand type")
                return "(Rs.clamp %s (%d : Int) (%d : Int))" % (a, lo, hi), ty
            if name == "cmp" and len(args) == 1:
                t1, _ = self.ex(args[0], ty, pre)
                return "(compare %s %s)" % (a, self.atom(t1)), ORD
        raise Unsupported("method `.%s()` on %s not in the subset here" % (name, tystr4(ty)))

    def const_int(self, e):
        """the value of `T::MIN as U` / `T::MAX as U` / a literal (None otherwise); casts are value-preserving or refused"""
        e = strip(e)
        if e.kind == "int":
            return e.value
        if e.kind == "path" and tuple(e.segs) in I32MINMAX:
            return I32MINMAX[tuple(e.segs)]
        if e.kind == "cast":
            v = self.const_int(e.e)
            target = norm6(e.ty)
            if v is None or not is_int(target):
                return None
            lo, hi = R.INT_RANGE[target[1]]
            return v if lo <= v <= hi else None
        return None

    def ex_bin(self, e, want, pre):
        op = e.op
        if op in ("&&", "||"):
            l, _ = self.ex(e.l, BOOL, pre)
            r, _ = self.ex(e.r, BOOL, None)          # the right operand is evaluated conditionally: it must be total
            return "(%s %s %s)" % (l, op, r), BOOL
        if op in ("==", "!=", "<", "<=", ">", ">="):
            l, lt_ = self.ex(e.l, None, pre)
            r, rt_ = self.ex(e.r, lt_, pre)
            ty = lt_ or rt_
            if ty is None:
                raise Unsupported("comparison of values of unknown type")
            sym = {"==": "=", "!=": "≠", "<": "<", "<=": "≤", ">": ">", ">=": "≥"}[op]
            if is_int(ty) or (op in ("==", "!=") and (ty == BOOL or (ty[0] == "named" and ty[1] in self.g.deceq))):
                return "(decide (%s %s %s))" % (l, sym, r), BOOL
            raise Unsupported("comparison `%s` on %s" % (op, tystr4(ty)))
        raise Unsupported("operator `%s` not in the subset here" % op)

    def ex_match(self, e, want, pre):
        """`match` whose arms are total expressions, as a value"""
        s, sty = self.ex(e.scrut, None, pre)
        arms, rty = [], want
        for a in e.arms:
            if a.guard is not None:
                raise Unsupported("match guard")
            body = a.body
            if body.kind == "block":
                if body.stmts or body.tail is None:
                    raise Unsupported("a `match` used as a value with statements in an arm")
                body = body.tail
            p1, b1 = self.pat(a.pat, sty)
            self.push()
            try:
                for n, t in b1:
                    self.bind(n, t)
                t1, ty1 = self.ex(body, rty, None)
            finally:
                self.pop()
            rty = rty or ty1
            arms.append("| %s => %s" % (p1, t1))
        return "(match %s with %s)" % (s, " ".join(arms)), rty

    # -- statements: Lean `do` lines in the `Res` monad
    writer = None                       # name of the `&mut Formatter` parameter (Display impls)

    def assigned(self, node):
        out = []

        def hit(x):
            if self.has(x) and x not in out:
                out.append(x)

        def walk(x):
            if isinstance(x, (list, tuple)):
                for y in x:
                    walk(y)
                return
            if not isinstance(x, N):
                return
            if x.kind == "assign":
                l = strip(x.lhs)
                if l.kind != "path" or len(l.segs) != 1:
                    raise Unsupported("assignment to a place expression not in the subset here")
                hit(l.segs[0])
            if x.kind == "mcall" and x.name in ("insert", "push", "write_str", "write_fmt", "push_str"):
                r = strip(x.recv)
                if r.kind == "path" and len(r.segs) == 1:
                    hit(r.segs[0])
            if x.kind == "macro" and x.name in ("write", "writeln"):
                if x.toks and x.toks[0].k == "id":
                    hit(x.toks[0].v)
            if x.kind in ("break", "continue", "return", "while", "whilelet", "loop"):
                raise Unsupported("`%s` not in the subset here" % x.kind)
            if x.kind == "struct":
                for _, v in x.fields:
                    walk(v)
            for kk, v in x.__dict__.items():
                if kk not in ("kind", "toks"):
                    walk(v)
        walk(node)
        return out

    def pack(self, M):
        names = [lname(m) for m in M]
        if not names:
            return "()"
        return names[0] if len(names) == 1 else "(" + ", ".join(names) + ")"

    def as_block(self, b):
        return b if b.kind == "block" else N("block", stmts=[], tail=b)

    def block(self, b, fin):
        """lines of the block `b`; `fin(tail expression or None)` gives the closing lines"""
        b = self.as_block(b)
        self.push()
        try:
            return self.seq(list(b.stmts), b.tail, fin)
        finally:
            self.pop()

    def seq(self, stmts, tail, fin):
        if not stmts:
            return fin(tail)
        s, rest = stmts[0], stmts[1:]
        if s.kind == "let":
            if s.init is None:
                raise Unsupported("`let` without initialiser")
            pre = []
            want = norm6(s.ty) if s.ty is not None else None
            t, ty = self.ex(s.init, want, pre)
            p1, binds = self.pat(s.pat, ty or want)
            for n, bt in binds:
                self.bind(n, bt)
            return pre + ["let %s := %s" % (p1, t)] + self.seq(rest, tail, fin)
        e = s.e
        # `if c { return Err(Error::X); }`
        if e.kind == "if" and e.els is None:
            th = e.then
            inner = th.tail if (th.tail is not None and not th.stmts) else (th.stmts[0].e if (len(th.stmts) == 1 and th.tail is None and th.stmts[0].kind == "expr") else None)
            if inner is not None and inner.kind == "return":
                err = self.err_value(inner.e)
                pre = []
                c, _ = self.ex(e.cond, BOOL, pre)
                return pre + ["if %s then" % c, "  %s" % err, "else do"] + ind(self.seq(rest, tail, fin))
        return self.stmt(e) + self.seq(rest, tail, fin)

    def err_value(self, e):
        e = strip(e) if e is not None else None
        if e is not None and e.kind == "call" and e.f.kind == "path" and e.f.segs == ["Err"] and len(e.args) == 1:
            a = strip(e.args[0])
            if a.kind == "path" and len(a.segs) == 2 and a.segs[0] == "Error":
                return 'Res.err "%s"' % a.segs[1]
        raise Unsupported("`return` is limited to `return Err(Error::X)`")

    def stmt(self, e):
        """lines of an expression statement"""
        k = e.kind
        if k == "paren":
            return self.stmt(e.e)
        if k == "try":
            inner = strip(e.e)
            if inner.kind == "macro" and inner.name == "write":
                return self.write_macro(inner)
            if inner.kind == "mcall" and inner.name == "write_str":
                return self.write_str(inner)
            raise Unsupported("`?` not in the subset here")
        if k == "macro" and e.name == "write":
            return self.write_macro(e)
        if k == "mcall" and e.name == "write_str":
            return self.write_str(e)
        if k == "assign":
            if e.op != "=":
                raise Unsupported("compound assignment not in the subset here")
            x = strip(e.lhs).segs[0]
            if not self.has(x):
                raise Unsupported("assignment to unknown variable `%s`" % x)
            pre = []
            t, ty = self.ex(e.rhs, self.lookup(x), pre)
            self.compat(ty, self.lookup(x), "assigned value")
            return pre + ["let %s := %s" % (lname(x), t)]
        if k == "mcall" and e.name == "insert" and len(e.args) == 2:
            r = strip(e.recv)
            pos = strip(e.args[0])
            if r.kind == "path" and len(r.segs) == 1 and self.has(r.segs[0]) and pos.kind == "int" and pos.value == 0:
                x = r.segs[0]
                xt = self.lookup(x)
                pre = []
                t, ty = self.ex(e.args[1], xt[1] if (xt is not None and xt[0] == "vec") else None, pre)
                return pre + ["let %s := Rs.vecInsert0 %s %s" % (lname(x), lname(x), self.atom(t))]
            raise Unsupported("`.insert(..)` is limited to `<local>.insert(0, x)`")
        if k in ("if", "iflet", "match", "for", "block"):
            return self.compound(e)
        if k == "call" and e.f.kind == "path" and e.f.segs == ["Ok"] and len(e.args) == 1 and strip(e.args[0]).kind == "unit":
            return []
        raise Unsupported("statement of kind `%s` not in the subset here" % k)

    def arm_block(self, b, M):
        def fin(tail):
            ls = self.stmt(tail) if tail is not None else []
            return ls + ["pure %s" % self.pack(M)]
        return self.block(b, fin)

    def compound(self, e):
        M = self.assigned(e)
        head = "let %s ← (" % (self.pack(M) if M else "_")
        k = e.kind
        if k == "block":
            body = self.arm_block(e, M)
            return [head + "do"] + ind(body[:-1] + [body[-1] + ")"])
        if k == "if":
            pre = []
            c, _ = self.ex(e.cond, BOOL, pre)
            th = self.arm_block(e.then, M)
            el = self.arm_block(e.els, M) if e.els is not None else ["pure %s" % self.pack(M)]
            return pre + [head, "  if %s then do" % c] + ind(th, 4) + ["  else do"] + ind(el[:-1] + [el[-1] + ")"], 4)
        if k in ("iflet", "match"):
            pre = []
            s, sty = self.ex(e.scrut, None, pre)
            if k == "iflet":
                arms = [(e.pat, e.then), (N("p_wild"), e.els if e.els is not None else N("block", stmts=[], tail=None))]
            else:
                arms = []
                for a in e.arms:
                    if a.guard is not None:
                        raise Unsupported("match guard")
                    arms.append((a.pat, a.body))
            lines = pre + [head, "  match %s with" % s]
            for i, (p, body) in enumerate(arms):
                p1, b1 = self.pat(p, sty)
                self.push()
                try:
                    for n, t in b1:
                        self.bind(n, t)
                    bl = self.arm_block(body, M)
                finally:
                    self.pop()
                if i == len(arms) - 1:
                    bl = bl[:-1] + [bl[-1] + ")"]
                lines += ["  | %s => do" % p1] + ind(bl, 4)
            return lines
        if k == "for":
            pre = []
            it = e.iter
            xs, xty = self.ex(it, None, pre)
            if xty is None or xty[0] != "vec" or is_bytes(xty):
                raise Unsupported("`for` over %s" % tystr4(xty))
            p1, b1 = self.pat(e.pat, xty[1])
            self.push()
            try:
                for n, t in b1:
                    self.bind(n, t)
                body = self.arm_block(e.body, M)
            finally:
                self.pop()
            st = self.pack(M) if M else "_"
            return pre + ["let %s ← Rs.foldRes %s %s (fun %s %s => do" % (st, self.atom(xs), self.pack(M), p1, st)] \
                + ind(body[:-1] + [body[-1] + ")"])
        raise Unsupported("statement of kind `%s`" % k)

    # -- `write!(f, "..{x}..", args)` / `f.write_str("..")`
    def check_writer(self, name):
        if self.writer is None or name != self.writer:
            raise Unsupported("`write!` to something that is not the formatter parameter")

    def write_str(self, e):
        r = strip(e.recv)
        if r.kind != "path" or len(r.segs) != 1 or len(e.args) != 1:
            raise Unsupported("write_str shape")
        self.check_writer(r.segs[0])
        t, ty = self.ex(e.args[0], STR, None)
        if ty != STR:
            raise Unsupported("write_str of %s" % tystr4(ty))
        w = lname(self.writer)
        return ["let %s := Rs.pushStr %s %s" % (w, w, self.atom(t))]

    def write_macro(self, e):
        toks = list(e.toks)
        if len(toks) < 3 or toks[0].k != "id" or not (toks[1].k == "p" and toks[1].v == ",") or toks[2].k != "str":
            raise Unsupported("write! shape")
        self.check_writer(toks[0].v)
        pieces = parse_format(toks[2].v)
        rest = toks[3:]
        args = []
        if rest:
            if not (rest[0].k == "p" and rest[0].v == ","):
                raise Unsupported("write! arguments")
            args = split_macro_args(rest[1:])
        w = lname(self.writer)
        lines, pos = [], 0
        for kind, v in pieces:
            if kind == "lit":
                lines.append("let %s := Rs.pushStr %s (Rs.strLit %s)" % (w, w, R2.lean_str_lit(v)))
                continue
            if v is None:
                if pos >= len(args):
                    raise Unsupported("write! with too few arguments")
                a = args[pos]; pos += 1
            else:
                a = N("path", segs=[v])
            t, ty = self.ex(a, None, None)
            lines += self.display(t, ty)
        if pos != len(args):
            raise Unsupported("write! with unused arguments")
        return lines

    def display(self, t, ty):
        w = lname(self.writer)
        a = self.atom(t)
        if ty is None:
            raise Unsupported("`{}` of a value of unknown type")
        if is_int(ty):
            return ["let %s := Rs.pushStr %s (Rs.displayInt %s)" % (w, w, a)]
        if ty == STR:
            return ["let %s := Rs.pushStr %s %s" % (w, w, a)]
        if ty == ("named", "Number"):
            self.owner["fmt"] = True
            return ["let %s := Rs.pushStr %s (Rs.displayNumber fmt__ %s)" % (w, w, a)]
        if ty[0] == "named":
            sig = self.g.find_display(ty[1], self.owner)
            head = sig["lean"]
            if sig["fuel"]:
                self.owner["fuel"] = True
                head += " fuel"
            if sig["fmt"]:
                self.owner["fmt"] = True
                head += " fmt__"
            return ["let %s ← %s %s %s" % (w, head, a, w)]
        raise Unsupported("`{}` of %s" % tystr4(ty))


RESERVED6 = set("""Ctl Rs C Res Bytes Int Nat Bool Unit Option List Ordering some none pure decide compare true false
fuel fmt__ parse_string__ Nom Path Expr Index ArrayIndex PathValue JsonPath KeyPath KeyPaths Number""".split())


# ----------------------------------------------------------------------------- nom combinator expressions

# the TRUSTED mapping: nom 7.1.3 combinator (module it must be imported from) -> definition of JsonbModel/Nom.lean
NOM_MODULE = {
    "alt": "branch", "tag": "bytes::complete", "tag_no_case": "bytes::complete",
    "char": "character::complete", "i32": "character::complete", "i64": "character::complete", "u64": "character::complete",
    "multispace0": "character::complete", "one_of": "character::complete",
    "cond": "combinator", "map": "combinator", "map_res": "combinator", "not": "combinator", "opt": "combinator",
    "value": "combinator", "many0": "multi", "separated_list1": "multi", "double": "number::complete",
    "delimited": "sequence", "pair": "sequence", "preceded": "sequence", "separated_pair": "sequence",
    "terminated": "sequence", "tuple": "sequence",
}
NOM_LEAF = {            # parser values: Lean term, output type
    "multispace0": ("Nom.multispace0", UNIT), "i32": ("Nom.i32", ("int", "i32")), "i64": ("Nom.i64", ("int", "i64")),
    "u64": ("Rs.nomU64", ("int", "u64")), "double": ("Nom.double", ("f64",)),
}
NOM_SEQ = {             # name: (Lean name, arity, index of the output or None for the tuple of all)
    "pair": ("Nom.pair", 2, None), "preceded": ("Nom.preceded", 2, 1), "terminated": ("Nom.terminated", 2, 0),
    "delimited": ("Nom.delimited", 3, 1), "separated_pair": ("Nom.separatedPair", 3, (0, 2)),
}


def nom_imports(toks):
    """`use nom::{ a::b::{c, d}, .. };` -> {name: "a::b"}"""
    out = {}
    i = 0
    while i < len(toks):
        t = toks[i]
        if t.k == "id" and t.v == "use" and toks[i + 1].k == "id" and toks[i + 1].v == "nom" and toks[i + 2].k == "p" and toks[i + 2].v == "::":
            p = Parser6(toks, i + 3)

            def tree(prefix):
                if p.eatp("{"):
                    while not p.isp("}"):
                        tree(prefix)
                        if not p.eatp(","):
                            break
                    p.expectp("}")
                    return
                name = p.ident()
                if p.isp("::"):
                    p.next()
                    tree(prefix + [name])
                    return
                alias = name
                if p.eatid("as"):
                    alias = p.ident()
                out[alias] = ("::".join(prefix), name)
            tree([])
            i = p.i
            continue
        i += 1
    return out


class CombTr:
    """a function whose body is `[let p = <combinator expression>;]* <combinator expression>(input)`"""

    def __init__(self, gen, file, name, it, owner):
        self.g, self.file, self.name, self.owner = gen, file, name, owner
        self.mini = Mini(gen, owner)
        self.locals = {}                # let-bound parsers: name -> output type
        self.imports = gen.nom_imports(file)
        p = Parser6(rewrite_iresult(list(it["toks"])))
        if p.isp("<"):
            inner = p.skip_generics()
            if any(t.k != "life" and not (t.k == "p" and t.v == ",") for t in inner):
                raise Unsupported("generic parameters not in the subset")
        p.expectp("(")
        self.params = []
        while not p.isp(")"):
            if p.eatid("mut"):
                raise Unsupported("`mut` parameter")
            n = p.ident()
            p.expectp(":")
            if p.isp("&") and p.isid("mut", 1):
                raise Unsupported("`&mut` parameter")
            self.params.append((n, norm6(p.parse_type())))
            if not p.eatp(","):
                break
        p.expectp(")")
        p.expectp("->")
        self.ret = norm6(p.parse_type())
        self.body_parser = p

    def nom(self, name):
        """`name` denotes the nom combinator of that name (imported from the expected module, not shadowed)"""
        if name not in NOM_MODULE:
            return False
        if name in self.locals or self.mini.has(name) or self.g.is_fn(self.file, name):
            return False
        imp = self.imports.get(name)
        if imp is None or imp != (NOM_MODULE[name], name):
            raise Unsupported("`%s` is not nom's `%s::%s` here" % (name, NOM_MODULE[name], name))
        return True

    def lit_bytes(self, e, what):
        e = strip(e)
        if e.kind != "lit_other" or e.what != "str":
            raise Unsupported("%s of something that is not a string literal" % what)
        bs = R2.rust_str_bytes(e.text)
        if any(b >= 0x80 for b in bs):
            raise Unsupported("%s of a non-ASCII literal" % what)
        return "(Rs.strLit %s)" % R2.lean_str_lit(bs)

    def comb(self, e):
        """-> (Lean term : Nom.Parser _, output type or None)"""
        e0 = e
        while e.kind == "paren":
            e = e.e
        k = e.kind
        if k == "path" and len(e.segs) == 1:
            x = e.segs[0]
            if x in self.locals:
                return lname(x), self.locals[x]
            if self.mini.has(x):
                raise Unsupported("`%s` used as a parser" % x)
            sig = self.g.find_fn(self.file, x)
            if sig is not None:
                return self.g.parser_term(sig, self.owner, []), sig["out"]
            if x in NOM_LEAF and self.nom(x):
                return NOM_LEAF[x]
            raise Unsupported("`%s` used as a parser" % x)
        if k == "closure":
            if len(e.params) != 1 or e.params[0].kind != "p_path" or len(e.params[0].path) != 1:
                raise Unsupported("a closure used as a parser must be `|i| f(i, ..)`")
            i = e.params[0].path[0]
            b = strip(e.body)
            if b.kind == "block" and not b.stmts and b.tail is not None:
                b = strip(b.tail)
            if not (b.kind == "call" and b.f.kind == "path" and len(b.f.segs) == 1 and b.args
                    and strip(b.args[0]).kind == "path" and strip(b.args[0]).segs == [i]):
                raise Unsupported("a closure used as a parser must be `|i| f(i, ..)`")
            sig = self.g.find_fn(self.file, b.f.segs[0])
            if sig is None or sig["kind"] != "comb":
                raise Unsupported("call of `%s` in a parser closure" % b.f.segs[0])
            if len(b.args) != len(sig["params"]):
                raise Unsupported("arity of call to %s" % sig["lean"])
            extra = []
            for a, (_, pt) in zip(b.args[1:], sig["params"][1:]):
                if any(n == i for n in self.mini_idents(a)):
                    raise Unsupported("the closure parameter used twice")
                t, ty = self.mini.ex(a, pt, None)
                self.mini.compat(ty, pt, "argument of %s" % sig["lean"])
                extra.append(self.mini.atom(t))
            return self.g.parser_term(sig, self.owner, extra), sig["out"]
        if k != "call" or e.f.kind != "path" or len(e.f.segs) != 1:
            raise Unsupported("parser expression of kind `%s` not in the subset" % k)
        name, args = e.f.segs[0], e.args
        if not self.nom(name):
            raise Unsupported("call of `%s` in a parser expression" % name)
        if name in ("alt", "tuple"):
            if len(args) != 1:
                raise Unsupported("`%s` arity" % name)
            a = strip(args[0])
            items = a.items if a.kind == "tuple" else [a]
            subs = [self.comb(x) for x in items]
            if name == "alt":
                ty = None
                for _, t in subs:
                    ty = ty or t
                term = subs[-1][0]
                for t, _ in reversed(subs[:-1]):
                    term = "(Nom.alt %s %s)" % (t, term)
                return term, ty
            if len(subs) not in (2, 3, 4):
                raise Unsupported("`tuple` of %d parsers" % len(subs))
            fn = {2: "Nom.pair", 3: "Nom.tuple3", 4: "Nom.tuple4"}[len(subs)]
            tys = [t for _, t in subs]
            return "(%s %s)" % (fn, " ".join(t for t, _ in subs)), (("tuple", tuple(tys)) if all(t is not None for t in tys) else None)
        if name in NOM_SEQ:
            fn, n, out = NOM_SEQ[name]
            if len(args) != n:
                raise Unsupported("`%s` arity" % name)
            subs = [self.comb(x) for x in args]
            if out is None:
                tys = [t for _, t in subs]
                oty = ("tuple", tuple(tys)) if all(t is not None for t in tys) else None
            elif isinstance(out, tuple):
                tys = [subs[i][1] for i in out]
                oty = ("tuple", tuple(tys)) if all(t is not None for t in tys) else None
            else:
                oty = subs[out][1]
            return "(%s %s)" % (fn, " ".join(t for t, _ in subs)), oty
        if name in ("opt", "not", "many0"):
            if len(args) != 1:
                raise Unsupported("`%s` arity" % name)
            t, ty = self.comb(args[0])
            oty = {"opt": ("opt", ty) if ty is not None else None, "not": UNIT, "many0": ("vec", ty) if ty is not None else None}[name]
            return "(Nom.%s %s)" % (name, t), oty
        if name == "separated_list1":
            if len(args) != 2:
                raise Unsupported("`separated_list1` arity")
            s, _ = self.comb(args[0])
            t, ty = self.comb(args[1])
            return "(Nom.separatedList1 %s %s)" % (s, t), (("vec", ty) if ty is not None else None)
        if name == "cond":
            if len(args) != 2:
                raise Unsupported("`cond` arity")
            b, bt = self.mini.ex(args[0], BOOL, None)
            if bt != BOOL:
                raise Unsupported("`cond` on %s" % tystr4(bt))
            t, ty = self.comb(args[1])
            return "(Nom.cond %s %s)" % (self.mini.atom(b), t), (("opt", ty) if ty is not None else None)
        if name == "value":
            if len(args) != 2:
                raise Unsupported("`value` arity")
            v, vt = self.mini.ex(args[0], None, None)
            t, _ = self.comb(args[1])
            return "(Nom.value %s %s)" % (self.mini.atom(v), t), vt
        if name in ("tag", "tag_no_case", "one_of"):
            if len(args) != 1:
                raise Unsupported("`%s` arity" % name)
            fn = {"tag": "Nom.tag", "tag_no_case": "Nom.tagNoCase", "one_of": "Nom.oneOf"}[name]
            return "(%s %s)" % (fn, self.lit_bytes(args[0], name)), (BYTES if name != "one_of" else ("char",))
        if name == "char":
            a = strip(args[0]) if len(args) == 1 else None
            if a is None or a.kind != "lit_other" or a.what != "char":
                raise Unsupported("`char` of something that is not a character literal")
            c = R2.char_value(a.text)
            if c >= 0x80:
                raise Unsupported("`char` of a non-ASCII character")
            return "(Nom.char %d)" % c, ("char",)
        if name == "map":
            if len(args) != 2:
                raise Unsupported("`map` arity")
            t, ty = self.comb(args[0])
            f = strip(args[1])
            if f.kind == "path":
                ft, fty = self.mini.ex(f, None, None)
                if fty is None or fty[0] != "fn":
                    raise Unsupported("`map` with `%s`" % "::".join(f.segs))
                self.mini.compat(ty, fty[1], "argument of `%s`" % "::".join(f.segs))
                return "(Nom.map %s %s)" % (t, ft), fty[2]
            if f.kind != "closure" or len(f.params) != 1:
                raise Unsupported("`map` with something that is not a closure or a constructor")
            fun, oty, fallible = self.closure(f, ty)
            return "(%s %s %s)" % ("Rs.mapTry" if fallible else "Nom.map", t, fun), oty
        if name == "map_res":
            if len(args) != 2:
                raise Unsupported("`map_res` arity")
            t, ty = self.comb(args[0])
            f = strip(args[1])
            if f.kind != "closure" or len(f.params) != 1:
                raise Unsupported("`map_res` with something that is not a closure")
            fun, oty = self.closure_res(f, ty)
            return "(Nom.mapRes %s %s)" % (t, fun), oty
        raise Unsupported("nom combinator `%s` not in the subset" % name)

    def mini_idents(self, node):
        acc = []

        def walk(x):
            if isinstance(x, (list, tuple)):
                for y in x:
                    walk(y)
            elif isinstance(x, N):
                if x.kind == "path":
                    acc.append(x.segs[0])
                for kk, v in x.__dict__.items():
                    if kk not in ("kind", "toks"):
                        walk(v)
        walk(node)
        return acc

    def closure(self, c, argty):
        """closure of `map` -> (Lean function, output type, fallible)"""
        m = self.mini
        p1, binds = m.pat(c.params[0], argty)
        m.push()
        try:
            for n, t in binds:
                m.bind(n, t)
            body = c.body
            if body.kind != "block":
                pre = []
                t, ty = m.ex(body, None, pre)
                if not pre:
                    return "(fun %s => %s)" % (p1, t), ty, False
                lines = pre + ["pure %s" % t]
            else:
                box = {}

                def fin(tail):
                    if tail is None:
                        raise Unsupported("a closure without a value")
                    pre = []
                    t, ty = m.ex(tail, None, pre)
                    box["ty"] = ty
                    return pre + ["pure %s" % t]
                lines = m.block(body, fin)
                ty = box.get("ty")
                if len(lines) == 1 and lines[0].startswith("pure "):
                    return "(fun %s => %s)" % (p1, lines[0][5:]), ty, False
            return "(fun %s => do\n%s)" % (p1, "\n".join(ind(lines, 6))), ty, True
        finally:
            m.pop()

    def closure_res(self, c, argty):
        """closure of `map_res`: `|x| match x { pat => Ok(e), pat => Err(..) }` -> a function to `Option` (the external
        error is dropped by nom: it becomes `Err::Error`)"""
        m = self.mini
        p1, binds = m.pat(c.params[0], argty)
        body = strip(c.body)
        if body.kind == "block" and not body.stmts and body.tail is not None:
            body = strip(body.tail)
        if body.kind != "match":
            raise Unsupported("the closure of `map_res` must be a `match` with `Ok(..)` / `Err(..)` arms")
        m.push()
        try:
            for n, t in binds:
                m.bind(n, t)
            s, sty = m.ex(body.scrut, None, None)
            arms, oty = [], None
            for a in body.arms:
                if a.guard is not None:
                    raise Unsupported("match guard")
                q1, b1 = m.pat(a.pat, sty)
                r = strip(a.body)
                if r.kind == "block" and not r.stmts and r.tail is not None:
                    r = strip(r.tail)
                if not (r.kind == "call" and r.f.kind == "path" and r.f.segs in (["Ok"], ["Err"]) and len(r.args) == 1):
                    raise Unsupported("the closure of `map_res` must be a `match` with `Ok(..)` / `Err(..)` arms")
                if r.f.segs == ["Err"]:
                    arms.append("| %s => none" % q1)
                    continue
                m.push()
                try:
                    for n, t in b1:
                        m.bind(n, t)
                    t1, ty1 = m.ex(r.args[0], None, None)
                finally:
                    m.pop()
                oty = oty or ty1
                arms.append("| %s => some %s" % (q1, m.atom(t1)))
            return "(fun %s => match %s with %s)" % (p1, s, " ".join(arms)), oty
        finally:
            m.pop()

    def translate(self):
        """-> (binder list [(name, lean type)], lean result type, body lines)"""
        p = self.body_parser
        body = p.parse_block()
        if p.peek().k != "eof":
            raise Unsupported("tokens after the function body")
        if not self.params or not is_bytes(self.params[0][1]):
            raise Unsupported("the first parameter of a parser function must be the `&[u8]` input")
        if not (self.ret[0] == "res" and self.ret[1][0] == "tuple" and len(self.ret[1][1]) == 2 and is_bytes(self.ret[1][1][0])):
            raise Unsupported("a parser function must return `IResult<&[u8], T>`")
        out = self.ret[1][1][1]
        m = self.mini
        for n, t in self.params:
            m.bind(n, t)
        lines = []
        for s in body.stmts:
            if s.kind != "let" or s.init is None or s.pat.kind != "p_path" or len(s.pat.path) != 1 or s.ty is not None:
                raise Unsupported("a statement of a parser function must be `let p = <parser expression>;`")
            t, ty = self.comb(s.init)
            x = s.pat.path[0]
            if x in RESERVED6 or x in NOM_MODULE or self.g.is_fn(self.file, x):
                raise Unsupported("local name `%s`" % x)
            self.locals[x] = ty
            lines.append("let %s : Nom.Parser %s := %s" % (lname(x), self.g.decls.lt(ty) if ty is not None else "_", t))
        tail = strip(body.tail) if body.tail is not None else None
        if tail is None or tail.kind != "call" or len(tail.args) != 1 or strip(tail.args[0]).kind != "path" \
                or strip(tail.args[0]).segs != [self.params[0][0]]:
            raise Unsupported("the body of a parser function must end with `<parser expression>(%s)`" % (self.params[0][0] if self.params else "input"))
        t, ty = self.comb(tail.f)
        m.compat(ty, out, "output of the parser expression")
        lines.append("%s %s" % (t, lname(self.params[0][0])))
        return [(n, self.g.decls.lt(t)) for n, t in self.params], "Nom.PR %s" % self.g.decls.lt(out), lines, out


# ----------------------------------------------------------------------------- the two entry points and the Display impls

PS_TYPE = "(Bytes → Int → Int → Res (Bytes × Int))"
FMT_TYPE = "(Nat → Bytes)"


class TopTr:
    """`pub fn parse_x(input: &[u8]) -> Result<T, Error> { match p(input) { Ok((rest, v)) => {..}, Err(nom::Err::Error(_) |
    nom::Err::Failure(_)) => Err(Error::X), Err(nom::Err::Incomplete(_)) => unreachable!() } }`"""

    def __init__(self, gen, file, name, it, owner):
        self.g, self.file, self.name, self.owner = gen, file, name, owner
        self.mini = Mini(gen, owner)
        p = Parser6(list(it["toks"]))
        if p.isp("<"):
            p.skip_generics()
        p.expectp("(")
        self.params = []
        while not p.isp(")"):
            n = p.ident()
            p.expectp(":")
            if p.isp("&") and p.isid("mut", 1):
                raise Unsupported("`&mut` parameter")
            self.params.append((n, norm6(p.parse_type())))
            if not p.eatp(","):
                break
        p.expectp(")")
        p.expectp("->")
        self.ret = norm6(p.parse_type())
        self.body_parser = p

    def translate(self):
        p = self.body_parser
        body = p.parse_block()
        if p.peek().k != "eof":
            raise Unsupported("tokens after the function body")
        if self.ret[0] != "res":
            raise Unsupported("an entry point must return Result")
        m = self.mini
        for n, t in self.params:
            m.bind(n, t)
        e = strip(body.tail) if (body.tail is not None and not body.stmts) else None
        if e is None or e.kind != "match":
            raise Unsupported("the body of an entry point must be one `match <parser>(input) { .. }`")
        sc = strip(e.scrut)
        if not (sc.kind == "call" and sc.f.kind == "path" and len(sc.f.segs) == 1 and len(sc.args) == 1
                and strip(sc.args[0]).kind == "path" and strip(sc.args[0]).segs == [self.params[0][0]]):
            raise Unsupported("the scrutinee of an entry point must be `<parser>(%s)`" % self.params[0][0])
        sig = self.g.find_fn(self.file, sc.f.segs[0])
        if sig is None or sig["kind"] != "comb" or len(sig["params"]) != 1:
            raise Unsupported("`%s` is not a translated parser function" % sc.f.segs[0])
        call = self.g.parser_term(sig, self.owner, [])
        ok_arm, errs, incomplete = None, {}, False
        for a in e.arms:
            if a.guard is not None:
                raise Unsupported("match guard")
            q = a.pat
            if q.kind == "p_ctor" and q.path == ["Ok"] and len(q.args) == 1:
                ok_arm = a
                continue
            if q.kind == "p_ctor" and q.path == ["Err"] and len(q.args) == 1:
                alts = q.args[0].alts if q.args[0].kind == "p_or" else [q.args[0]]
                for alt in alts:
                    if not (alt.kind == "p_ctor" and len(alt.path) == 3 and alt.path[:2] == ["nom", "Err"] and len(alt.args) == 1
                            and alt.args[0].kind == "p_wild"):
                        raise Unsupported("pattern of an `Err` arm")
                    v = alt.path[2]
                    if v == "Incomplete":
                        b = strip(a.body)
                        if not (b.kind == "macro" and b.name in ("unreachable", "panic", "unimplemented")) or len(alts) != 1:
                            raise Unsupported("the `Incomplete` arm must be `unreachable!()`")
                        incomplete = True
                    elif v in ("Error", "Failure"):
                        errs[v] = self.mini.err_value(a.body)
                    else:
                        raise Unsupported("nom::Err::%s" % v)
                continue
            raise Unsupported("arm pattern of an entry point")
        if ok_arm is None or set(errs) != {"Error", "Failure"}:
            raise Unsupported("an entry point must handle `Ok`, `nom::Err::Error` and `nom::Err::Failure`")
        tp = ok_arm.pat.args[0]
        if not (tp.kind == "p_tuple" and len(tp.items) == 2):
            raise Unsupported("the `Ok` pattern must be `Ok((rest, value))`")
        p1, b1 = m.pat(tp.items[0], BYTES)
        p2, b2 = m.pat(tp.items[1], sig["out"])
        m.push()
        try:
            for n, t in b1 + b2:
                m.bind(n, t)

            def fin(tail):
                t = strip(tail) if tail is not None else None
                if t is None or not (t.kind == "call" and t.f.kind == "path" and t.f.segs == ["Ok"] and len(t.args) == 1):
                    raise Unsupported("the `Ok` arm must end with `Ok(value)`")
                pre = []
                v, vt = m.ex(t.args[0], self.ret[1], pre)
                m.compat(vt, self.ret[1], "returned value")
                return pre + ["pure %s" % v]
            oklines = m.block(ok_arm.body, fin)
        finally:
            m.pop()
        lines = ["match %s %s with" % (call, lname(self.params[0][0])),
                 "| .ok %s %s => do" % (p2, p1)] + ind(oklines) + [
                 "| .error => %s" % errs["Error"], "| .failure => %s" % errs["Failure"],
                 "| .panic s__ => Res.panic s__", "| .fuel => Res.fuel"]
        return [(n, self.g.decls.lt(t)) for n, t in self.params], "Res %s" % self.g.decls.lt(self.ret[1]), lines


class DispTr:
    """`impl Display for T { fn fmt(&self, f: &mut Formatter<'_>) -> std::fmt::Result { .. } }`: the formatter is the
    text written so far (`Bytes`), the function returns the final text (writing to a `String` cannot fail)"""

    def __init__(self, gen, file, impl, it, owner):
        self.g, self.file, self.impl, self.owner = gen, file, impl, owner
        self.mini = Mini(gen, owner)
        toks = list(it["toks"])
        p = Parser6(toks)
        p.expectp("(")
        if not (p.eatp("&") and p.eatid("self") and p.eatp(",")):
            raise Unsupported("`fmt` must take `&self`")
        self.f = p.ident()
        p.expectp(":")
        if not (p.eatp("&") and p.eatid("mut")):
            raise Unsupported("`fmt` must take `&mut Formatter`")
        segs = [p.ident()]
        while p.eatp("::"):
            segs.append(p.ident())
        if segs[-1] != "Formatter":
            raise Unsupported("`fmt` must take `&mut Formatter`")
        if p.isp("<"):
            p.skip_generics()
        p.expectp(")")
        p.expectp("->")
        rs = [p.ident()]
        while p.eatp("::"):
            rs.append(p.ident())
        if rs[-2:] != ["fmt", "Result"] and rs != ["Result"]:
            raise Unsupported("`fmt` must return `fmt::Result`")
        self.body_parser = p

    def translate(self):
        p = self.body_parser
        body = p.parse_block()
        if p.peek().k != "eof":
            raise Unsupported("tokens after the function body")
        m = self.mini
        m.bind("self", ("named", self.impl))
        m.bind(self.f, STR)
        m.writer = self.f

        def fin(tail):
            ls = m.stmt(tail) if tail is not None else []
            return ls + ["pure %s" % lname(self.f)]
        lines = m.block(body, fin)
        return [("self", self.impl), (self.f, "Bytes")], "Res Bytes", lines


# ----------------------------------------------------------------------------- targets and driver

# type declarations, one block each; several members = one `mutual` block
TYPES6 = [
    (PA, (("enum", "ArrayIndex"),)),
    (PA, (("enum", "PathValue"),)),
    (PA, (("enum", "BinaryOperator"),)),
    (PA, (("enum", "UnaryArithmeticOperator"),)),
    (PA, (("enum", "BinaryArithmeticOperator"),)),
    (PA, (("enum", "Path"), ("enum", "Expr"), ("enum", "ArithmeticFunc"), ("enum", "FilterFunc"))),
    (PA, (("struct", "JsonPath"),)),
    (K, (("struct", "KeyPaths"),)),
]

# (file, impl or None, name, kind, Lean name, group); dependency order
FUNCS6 = [
    (P, None, "check_escaped", "scanner", "check_escaped", None),
    (P, None, "raw_string", "scanner", "raw_string", None),
    (P, None, "string", "scanner", "string", None),
    (K, None, "key_path", "comb", "key_path", None),
    (K, None, "key_paths", "comb", "key_paths", None),
    (K, None, "parse_key_paths", "top", "parse_key_paths", None),
    (P, None, "bracket_wildcard", "comb", "bracket_wildcard", None),
    (P, None, "colon_field", "comb", "colon_field", None),
    (P, None, "dot_field", "comb", "dot_field", None),
    (P, None, "object_field", "comb", "object_field", None),
    (P, None, "index", "comb", "index", None),
    (P, None, "array_index", "comb", "array_index", None),
    (P, None, "array_indices", "comb", "array_indices", None),
    (P, None, "inner_path", "comb", "inner_path", None),
    (P, None, "pre_path", "comb", "pre_path", None),
    (P, None, "expr_paths", "comb", "expr_paths", None),
    (P, None, "op", "comb", "op", None),
    (P, None, "unary_arith_op", "comb", "unary_arith_op", None),
    (P, None, "binary_arith_op", "comb", "binary_arith_op", None),
    (P, None, "path_value", "comb", "path_value", None),
    (P, None, "inner_expr", "comb", "inner_expr", None),
    (P, None, "filter_expr", "comb", "filter_expr", "expr"),
    (P, None, "path", "comb", "path", "expr"),
    (P, None, "exists_paths", "comb", "exists_paths", "expr"),
    (P, None, "exists", "comb", "exists_", "expr"),
    (P, None, "filter_func", "comb", "filter_func", "expr"),
    (P, None, "expr_atom", "comb", "expr_atom", "expr"),
    (P, None, "expr_and", "comb", "expr_and", "expr"),
    (P, None, "expr_or", "comb", "expr_or", "expr"),
    (P, None, "predicate", "comb", "predicate", None),
    (P, None, "paths", "comb", "paths", None),
    (P, None, "predicate_or_paths", "comb", "predicate_or_paths", None),
    (P, None, "json_path", "comb", "json_path", None),
    (P, None, "parse_json_path", "top", "parse_json_path", None),
    (K, "KeyPath", "fmt", "disp", "Display.KeyPath.fmt", None),
    (K, "KeyPaths", "fmt", "disp", "Display.KeyPaths.fmt", None),
    (PA, "Index", "fmt", "disp", "Display.Index.fmt", None),
    (PA, "ArrayIndex", "fmt", "disp", "Display.ArrayIndex.fmt", None),
    (PA, "PathValue", "fmt", "disp", "Display.PathValue.fmt", None),
    (PA, "BinaryOperator", "fmt", "disp", "Display.BinaryOperator.fmt", None),
    (PA, "UnaryArithmeticOperator", "fmt", "disp", "Display.UnaryArithmeticOperator.fmt", None),
    (PA, "BinaryArithmeticOperator", "fmt", "disp", "Display.BinaryArithmeticOperator.fmt", None),
    (PA, "Path", "fmt", "disp", "Display.Path.fmt", "display"),
    (PA, "Expr", "fmt", "disp", "Display.Expr.fmt", "display"),
    (PA, "JsonPath", "fmt", "disp", "Display.JsonPath.fmt", None),
]

HEADER = """-- GENERATED by tools/rs2lean6d.py from the Rust sources of the crate (src/*.rs); do not edit.
-- Phase 6d: the path parsers (jsonpath/parser.rs, keypath.rs) and printers (`Display` impls of jsonpath/path.rs,
-- keypath.rs).  One block per translated declaration, function or recursive group (hoisted loop bodies
-- `<fn>.loop<k>` first).  A nom combinator is the definition of the same name of JsonbModel/Nom.lean; the meaning
-- of every `Rs.*` / `Ctl.*` name is in JsonbModel/RustPrelude*.lean (new here: RustPrelude6d.lean); the agreement
-- theorems are in Proofs/TranslatedAgreeJ*.lean.
import JsonbModel.Generated.Translated5a
import JsonbModel.RustPrelude6d

set_option linter.unusedVariables false

namespace Jsonb.Tr
open Jsonb.Rs (Ctl)
"""
FOOTER = "end Jsonb.Tr\n"


def key_of6(file, impl, name):
    return "%s::%s%s" % (file, (impl + "::") if impl else "", name)


class Gen:
    def __init__(self, repo):
        self.w = R5.phase4_world(repo)
        # the phase-5a declarations this phase builds on (`enum KeyPath`)
        for file, kind, name in R5.TYPES5A:
            try:
                R5.emit_type5(self.w, file, kind, name)
            except Unsupported:
                pass
        self.decls = Decls(self.w)
        self.sigs = {}                  # (file, impl, name) -> dict
        self.deceq = set()
        self._imports = {}
        self._toks = {}

    def toks(self, file):
        if file not in self._toks:
            try:
                self._toks[file] = R.tokenize(open(os.path.join(self.w.repo, file), encoding="utf-8").read())
            except (OSError, Unsupported) as e:
                raise Unsupported("cannot read %s: %s" % (file, e))
        return self._toks[file]

    def nom_imports(self, file):
        if file not in self._imports:
            self._imports[file] = nom_imports(self.toks(file))
        return self._imports[file]

    def is_fn(self, file, name):
        return bool(self.w.find(file, "fn", name, None, None))

    def find_fn(self, file, name):
        """a translated free function visible from `file` (same file first; keypath.rs imports the scanners)"""
        s = self.sigs.get((file, None, name))
        if s is not None:
            return s
        if self.is_fn(file, name):
            return None
        hits = [v for (f, i, n), v in self.sigs.items() if i is None and n == name]
        return hits[0] if len(hits) == 1 else None

    def find_display(self, tname, owner):
        hits = [v for (f, i, n), v in self.sigs.items() if i == tname and n == "fmt" and v["kind"] == "disp"]
        if len(hits) != 1:
            raise Unsupported("no translated `Display` impl for %s" % tname)
        sig = hits[0]
        self.check_order(sig, owner)
        return sig

    def check_order(self, sig, owner):
        if not sig["done"] and not (sig["group"] is not None and sig["group"] == owner.get("group")):
            raise Unsupported("use of %s before its translation (dependency order)" % sig["lean"])

    def parser_term(self, sig, owner, extra):
        self.check_order(sig, owner)
        if sig["kind"] == "scanner":
            if extra or sig["name"] == "check_escaped":
                raise Unsupported("`%s` used as a parser in this shape" % sig["name"])
            head = sig["lean"]
            if sig["ps"]:
                owner["ps"] = True
                head += " parse_string__"
            return "(Rs.parserOf (%s))" % head if " " in head else "(Rs.parserOf %s)" % head
        if sig["kind"] != "comb":
            raise Unsupported("`%s` used as a parser" % sig["name"])
        head = sig["lean"]
        if sig["fuel"]:
            owner["fuel"] = True
            head += " fuel"
        if sig["ps"]:
            owner["ps"] = True
            head += " parse_string__"
        if extra:
            return "(fun i__ => %s i__ %s)" % (head, " ".join(extra))
        if len(sig["params"]) != 1:
            raise Unsupported("`%s` takes more than the input" % sig["name"])
        return "(%s)" % head if " " in head else head

    # -- one function -> (binders, result type, lines) with the flags left in `owner`
    def translate_one(self, entry, it, owner):
        file, impl, name, kind, lean, group = entry
        if kind == "comb":
            tr = CombTr(self, file, name, it, owner)
            binders, rty, lines, out = tr.translate()
            owner["out"] = out
            owner["params"] = tr.params
            return binders, rty, lines
        if kind == "top":
            tr = TopTr(self, file, name, it, owner)
            return tr.translate()
        if kind == "disp":
            tr = DispTr(self, file, impl, it, owner)
            return tr.translate()
        raise Unsupported("kind %s" % kind)

    @staticmethod
    def flag_binders(owner):
        b = []
        if owner.get("fuel"):
            b.append(("fuel", "Nat"))
        if owner.get("fmt"):
            b.append(("fmt__", FMT_TYPE))
        if owner.get("ps"):
            b.append(("parse_string__", PS_TYPE))
        return b

    def emit_def(self, lean, owner, binders, rty, lines, in_group, monadic):
        allb = self.flag_binders(owner) + binders
        first = "do" if monadic else ""
        if not in_group:
            head = "def %s %s: %s :=%s" % (lean, "".join("(%s : %s) " % (lname(n), t) for n, t in allb), rty, (" " + first) if first else "")
            return [head] + ind(lines)
        tys = " → ".join(t for _, t in allb)
        head = "def %s : %s → %s" % (lean, tys, rty)
        zero = "  | 0" + "".join(", _" for _ in allb[1:]) + " => .fuel"
        succ = "  | fuel + 1" + "".join(", %s" % lname(n) for n, _ in allb[1:]) + " =>" + ((" " + first) if first else "")
        return [head, zero, succ] + ind(lines, 4)


def pre_sig(gen, entry, it):
    """signature-level facts needed before the bodies (group members call each other)"""
    file, impl, name, kind, lean, group = entry
    sig = dict(kind=kind, file=file, name=name, lean=lean, group=group, done=False, fuel=group is not None, ps=False, fmt=False,
               params=[], out=None)
    if kind == "comb":
        tr = CombTr(gen, file, name, it, {})
        sig["params"] = tr.params
        if tr.ret[0] == "res" and tr.ret[1][0] == "tuple" and len(tr.ret[1][1]) == 2:
            sig["out"] = tr.ret[1][1][1]
        for _, t in tr.params:
            gen.decls.lt(t)
    return sig


def derives_partialeq(gen, file, name):
    src_toks = gen.toks(file)
    for i, t in enumerate(src_toks):
        if t.k == "id" and t.v == "enum" and src_toks[i + 1].k == "id" and src_toks[i + 1].v == name:
            j = i - 1
            while j >= 0 and not (src_toks[j].k == "p" and src_toks[j].v == "]"):
                if src_toks[j].k == "id" and src_toks[j].v == "pub" or (src_toks[j].k == "p" and src_toks[j].v in ("(", ")")) or (src_toks[j].k == "id" and src_toks[j].v == "crate"):
                    j -= 1
                    continue
                return False
            k = j
            depth = 0
            while k >= 0:
                if src_toks[k].k == "p" and src_toks[k].v == "]":
                    depth += 1
                elif src_toks[k].k == "p" and src_toks[k].v == "[":
                    depth -= 1
                    if depth == 0:
                        break
                k -= 1
            ids = [x.v for x in src_toks[k:j] if x.k == "id"]
            return "derive" in ids and "PartialEq" in ids
    return False


def generate(repo, prev_text):
    gen = Gen(repo)
    world = gen.w
    status, blocks = {}, []
    prev = {m.group(1): m.group(2) for m in R.BLOCK_RE.finditer(prev_text or "")}

    def guarded(key, fn):
        try:
            r = fn()
            status[key] = "translated" if r is not None else "missing"
            return r
        except Unsupported as e:
            status[key] = "unsupported: %s" % e
        except RecursionError:
            status[key] = "unsupported: expression too deeply nested"
        except Exception as e:
            status[key] = "unsupported: translator error (%s: %s)" % (type(e).__name__, e)
        return None

    # -- declarations
    for file, members in TYPES6:
        if len(members) == 1:
            key = "%s::%s %s" % (file, members[0][0], members[0][1])
        else:
            key = "%s::types %s" % (file, ", ".join(n for _, n in members))

        def one():
            lines = gen.decls.emit(file, members)
            if lines is not None and len(members) == 1 and members[0][0] == "enum" \
                    and all(v[1] == "unit" for v in gen.decls.enums[members[0][1]]) and derives_partialeq(gen, file, members[0][1]):
                lines.append("  deriving DecidableEq")
                gen.deceq.add(members[0][1])
            return lines
        blocks.append((key, guarded(key, one)))

    # -- the callee parameter `parse_string__`: util.rs::parse_string, signature read from the source
    def ps_sig():
        hits = world.find(U, "fn", "parse_string", None, None)
        if len(hits) != 1:
            raise Unsupported("util.rs::parse_string not found")
        tr = R4.FnTr4(world, U, None, None, "parse_string", hits[0], "parse_string__")
        if [t for _, t in tr.params] != [BYTES, ("int", "usize"), ("int", "usize")] or tr.ret != ("res", STR) or tr.mutparams != [tr.params[2][0]]:
            raise Unsupported("the signature of util.rs::parse_string changed")
        world.sigs[(U, None, "parse_string")] = dict(
            params=list(tr.params), ret=tr.ret, lean="parse_string__", writer=None, mut=list(tr.mutparams), name="parse_string",
            group=None, trait=None, fuel=False, fmt=False, holder=None, texts=[], callee_param=True)
        return True
    ps_ok = guarded("src/util.rs::parse_string (signature)", ps_sig)
    if ps_ok:
        del status["src/util.rs::parse_string (signature)"]

    # -- signatures
    items = {}
    for entry in FUNCS6:
        file, impl, name, kind, lean, group = entry
        key = key_of6(file, impl, name)
        trait = "Display" if kind == "disp" else None
        hits = world.find(file, "fn", name, impl, trait)
        if not hits:
            status[key] = ("unsupported: cannot read %s: %s" % (file, world.file_errors[file])) if file in world.file_errors else "missing"
            continue
        if len(hits) > 1:
            status[key] = "unsupported: defined more than once"
            continue
        if kind == "scanner":
            items[key] = hits[0]
            gen.sigs[(file, impl, name)] = dict(kind=kind, file=file, name=name, lean=lean, group=None, done=False, fuel=False,
                                                ps=False, fmt=False, params=[], out=STR)
            continue
        sig = guarded(key, lambda: pre_sig(gen, entry, hits[0]))
        if sig is not None:
            items[key] = hits[0]
            gen.sigs[(file, impl, name)] = sig

    def prev_flags(key, lean, sig):
        pb = prev.get(key, "")
        m = re.search(r"^def %s (.*)$" % re.escape(lean), pb, re.M)
        head = m.group(1) if m else ""
        sig["fuel"] = "(fuel : Nat)" in head or bool(re.match(r": Nat →", head))
        sig["ps"] = "parse_string__" in head or PS_TYPE in head
        sig["fmt"] = "fmt__" in head or FMT_TYPE in head
        sig["done"] = True

    # -- bodies
    done_groups = set()
    for entry in FUNCS6:
        file, impl, name, kind, lean, group = entry
        key = key_of6(file, impl, name)
        if kind == "scanner":
            lines = None
            if key in items:
                def one():
                    aux, body, tr = translate_scanner(world, file, name, lean, items[key])
                    world.sigs[(file, None, name)] = dict(
                        params=list(tr.params), ret=tr.ret, lean=lean, writer=None, mut=list(tr.mutparams), name=name, group=None,
                        trait=None, fuel=False, fmt=False, holder=None, texts=[])
                    world.sigs_names.add(name)
                    gen.sigs[(file, None, name)]["ps"] = tr.uses_parse_string
                    if tr.uses_parse_string:
                        world.sigs[(file, None, name)]["lean"] = lean + " parse_string__"
                    return aux + body
                lines = guarded(key, one)
            if (file, impl, name) in gen.sigs:
                if lines is None:
                    prev_flags(key, lean, gen.sigs[(file, impl, name)])
                gen.sigs[(file, impl, name)]["done"] = True
            blocks.append((key, lines))
            continue
        if group is None:
            lines = None
            if key in items:
                def one():
                    sig = gen.sigs[(file, impl, name)]
                    owner = dict(group=None)
                    binders, rty, ls = gen.translate_one(entry, items[key], owner)
                    for fl in ("fuel", "ps", "fmt"):
                        sig[fl] = bool(owner.get(fl))
                    return gen.emit_def(lean, owner, binders, rty, ls, False, kind == "disp")
                lines = guarded(key, one)
            if (file, impl, name) in gen.sigs:
                if lines is None:
                    prev_flags(key, lean, gen.sigs[(file, impl, name)])
                gen.sigs[(file, impl, name)]["done"] = True
            blocks.append((key, lines))
            continue
        if group in done_groups:
            continue
        done_groups.add(group)
        members = [f for f in FUNCS6 if f[5] == group]
        gkey = "%s::group %s (%s)" % (members[0][0], group, ", ".join((m[1] + "::" if m[1] else "") + m[2] for m in members))
        good = all(key_of6(m[0], m[1], m[2]) in items for m in members)
        defs = []
        if good:
            flags = dict(fuel=True, ps=False, fmt=False)
            for rnd in range(3):
                for m in members:
                    gen.sigs[(m[0], m[1], m[2])].update(flags)
                defs, newflags, good = [], dict(flags), True
                for m in members:
                    mkey = key_of6(m[0], m[1], m[2])

                    def one():
                        owner = dict(group=group, fuel=True, ps=flags["ps"], fmt=flags["fmt"])
                        binders, rty, ls = gen.translate_one(m, items[mkey], owner)
                        for fl in ("ps", "fmt"):
                            newflags[fl] = newflags[fl] or bool(owner.get(fl))
                        owner.update(flags)
                        return gen.emit_def(m[4], owner, binders, rty, ls, True, m[3] == "disp")
                    r = guarded(mkey, one)
                    if r is None:
                        good = False
                    else:
                        defs += r
                if not good or newflags == flags:
                    break
                flags = newflags
            else:
                good = False
        for m in members:
            if (m[0], m[1], m[2]) in gen.sigs:
                if not good:
                    prev_flags(gkey, m[4], gen.sigs[(m[0], m[1], m[2])])
                gen.sigs[(m[0], m[1], m[2])]["done"] = True
        if good:
            status[gkey] = "translated"
            blocks.append((gkey, ["mutual"] + defs + ["end"]))
        else:
            status[gkey] = "unsupported: a member of the group is not translated"
            blocks.append((gkey, None))
    out = [HEADER]
    ok = True
    for key, lines in blocks:
        out.append("-- BEGIN %s\n" % key)
        if lines is not None:
            out.append("\n".join(lines) + "\n")
        else:
            ok = False
            if key in prev:
                out.append(prev[key])
                status[key] += " (kept the previously generated block)"
            else:
                out.append("-- (no translation available)\n")
        out.append("-- END %s\n\n" % key)
    out.append(FOOTER)
    ok = ok and all(v == "translated" for v in status.values())
    return "".join(out), status, ok


def main(argv):
    to_stdout = "--stdout" in argv
    try:
        prev_text = open(PREV, encoding="utf-8").read()
    except OSError:
        prev_text = ""
    text, status, ok = generate(REPO, prev_text)
    if to_stdout:
        sys.stdout.write(text)
        return 0
    try:
        old = open(OUT, encoding="utf-8").read()
    except OSError:
        old = None
    changed = False
    if old != text:
        changed = True
        os.makedirs(os.path.dirname(OUT), exist_ok=True)
        tmp_out = OUT + ".tmp%d" % os.getpid()
        with open(tmp_out, "w", encoding="utf-8") as f:
            f.write(text)
        os.replace(tmp_out, OUT)
    print(json.dumps({"ok": ok, "functions": status, "changed": changed}))
    return 0


if __name__ == "__main__":
    sys.exit(main(sys.argv[1:]))
