#!/usr/bin/env python3
"""rs2lean2: phase 2 of the Rust -> Lean translator.  Extends the subset of tools/rs2lean.py with
loops (`for` over ranges / slices / `.iter().enumerate()`, `while let … pop_front()`), `break` /
`continue` / `return` inside loops, `&mut` parameters, `Vec<u8>` / `String` / `VecDeque` building,
index assignment, `?` on `Option`, `.ok()?`, and translates the byte walkers of the crate into
lean/JsonbModel/Generated/Translated2.lean (namespace Jsonb.Tr, after the phase-1 definitions).
The semantics of every new primitive is in the hand-written lean/JsonbModel/RustPrelude2.lean.
Same conventions as rs2lean.py (see tools/RS2LEAN.md): reads $VERIF_REPO (default /repo), writes
the output only when it changes, prints ONE JSON status line last; `--stdout` prints the text and
writes nothing; a function outside the subset keeps its previously generated block.
Python 3 stdlib only."""
import json, os, re, sys

HERE = os.path.dirname(os.path.abspath(__file__))
sys.path.insert(0, HERE)
import rs2lean as R  # noqa: E402
from rs2lean import N, Tok, Unsupported, NeedType, Parser, FnTr, World, is_int, is_flex, is_bytes, tystr, lname, ind  # noqa: E402

REPO = os.environ.get("VERIF_REPO", "/repo")
OUT = os.environ.get("RS2LEAN2_OUT", os.path.normpath(os.path.join(HERE, "..", "lean", "JsonbModel", "Generated", "Translated2.lean")))
PREV = os.environ.get("RS2LEAN2_PREV", OUT)

U8 = ("int", "u8")
STR = ("str",)
CHAR = ("char",)

# struct declarations translated in addition to the phase-1 ones: (file, kind, name)
TYPES2 = [
    ("src/ser.rs", "struct", "Encoder"),
    ("src/iterator.rs", "struct", "ArrayIterator"),
    ("src/iterator.rs", "struct", "ObjectKeyIterator"),
]

# (file, impl type or None, trait or None, fn name, Lean name); in dependency order
FUNCS2 = [
    ("src/functions.rs", None, None, "get_jentry_by_index", "get_jentry_by_index"),
    ("src/functions.rs", None, None, "extract_by_jentry", "extract_by_jentry"),
    ("src/functions.rs", None, None, "is_array", "is_array"),
    ("src/functions.rs", None, None, "is_object", "is_object"),
    ("src/functions.rs", None, None, "array_length", "array_length"),
    ("src/util.rs", None, None, "decode_hex_escape", "decode_hex_escape"),
    ("src/functions.rs", None, None, "escape_scalar_string", "escape_scalar_string"),
    ("src/builder.rs", None, None, "reserve_jentries", "reserve_jentries"),
    ("src/builder.rs", None, None, "replace_jentry", "replace_jentry"),
    ("src/ser.rs", "Encoder", None, "reserve_jentries", "Encoder.reserve_jentries"),
    ("src/ser.rs", "Encoder", None, "replace_jentry", "Encoder.replace_jentry"),
    ("src/functions.rs", None, None, "get_jentry_by_name", "get_jentry_by_name"),
    ("src/iterator.rs", None, None, "iterate_array", "iterate_array"),
    ("src/iterator.rs", "ArrayIterator", "Iterator", "next", "ArrayIterator.next"),
    ("src/iterator.rs", None, None, "iteate_object_keys", "iteate_object_keys"),
    ("src/iterator.rs", "ObjectKeyIterator", "Iterator", "next", "ObjectKeyIterator.next"),
]

# the text (non-JSONB) branch of the sniffing functions: `if !is_jsonb(value) { return <text branch>; }`
# is kept as a parameter `text__` of the translated function (its value is the result of the text
# branch, which calls the JSON parser and is outside the subset)
TEXT_BRANCH = {"is_array", "is_object", "array_length"}

RESERVED2 = set("st__ p__ text__ Step LoopCtl".split())


class NeedLitType(Unsupported):
    """an unannotated integer-literal `let`: the driver enumerates the integer types"""

    def __init__(self, site):
        Unsupported.__init__(self, "cannot infer the integer type of a `let` (site %d)" % site)
        self.site = site


# ----------------------------------------------------------------------------- parser

class Parser2(Parser):
    def parse_type(self):
        if self.isid("VecDeque") and self.isp("<", 1):
            self.next()
            args = self.parse_generic_args()
            if len(args) != 1:
                raise Unsupported("VecDeque arguments")
            return ("deque", args[0])
        return Parser.parse_type(self)

    def parse_pattern1(self):
        is_mut = self.isid("mut") or (self.isid("ref") and self.isid("mut", 1))
        n = Parser.parse_pattern1(self)
        if is_mut:
            n.is_mut = True
        return n

    def parse_primary(self, ns):
        t = self.peek()
        if t.k == "id":
            if t.v == "for":
                self.next()
                pat = self.parse_pattern()
                if not self.eatid("in"):
                    raise Unsupported("parse: expected `in`")
                it = self.parse_expr(ns=True)
                body = self.parse_block()
                return N("for", pat=pat, iter=it, body=body)
            if t.v == "while":
                self.next()
                if self.isid("let"):
                    self.next()
                    pat = self.parse_pattern()
                    self.expectp("=")
                    scrut = self.parse_expr(ns=True)
                    body = self.parse_block()
                    return N("whilelet", pat=pat, scrut=scrut, body=body)
                cond = self.parse_expr(ns=True)
                body = self.parse_block()
                return N("while", cond=cond, body=body)
            if t.v == "loop":
                self.next()
                return N("loop", body=self.parse_block())
            if t.v == "break":
                self.next()
                if self.peek().k == "life" or self.range_end_follows(ns):
                    raise Unsupported("`break` with a label or a value not in the subset")
                return N("break")
            if t.v == "continue":
                self.next()
                if self.peek().k == "life":
                    raise Unsupported("`continue` with a label not in the subset")
                return N("continue")
            if t.v == "unsafe" and self.isp("{", 1):
                self.next()
                b = self.parse_block()
                return N("uncheckedblock", body=b)
        return Parser.parse_primary(self, ns)


# ----------------------------------------------------------------------------- types

def norm_type(t):
    """String / &str -> ("str",); recursive"""
    k = t[0]
    if k == "other" and t[1] in ("str", "String"):
        return STR
    if k == "other" and t[1] == "char":
        return CHAR
    if k in ("opt", "res", "vec", "slice", "deque"):
        return (k, norm_type(t[1]))
    if k == "array":
        return (k, norm_type(t[1]), t[2])
    if k == "tuple":
        return (k, tuple(norm_type(x) for x in t[1]))
    return t


def lean_type2(t, world):
    k = t[0]
    if k == "int":
        return "Int"
    if k == "bool":
        return "Bool"
    if k == "f64" or k == "char":
        return "Nat"
    if k == "ordering":
        return "Ordering"
    if k == "unit":
        return "Unit"
    if k == "str" or is_bytes(t):
        return "Bytes"
    if k in ("vec", "slice", "array", "deque"):
        return "(List %s)" % lean_type2(t[1], world)
    if k == "opt":
        return "(Option %s)" % lean_type2(t[1], world)
    if k == "tuple":
        return "(" + " × ".join(lean_type2(x, world) for x in t[1]) + ")"
    if k == "named" and (t[1] in world.structs or t[1] in world.enums):
        return t[1]
    raise Unsupported("type `%s` not in the subset" % tystr(t))


def size_of(t, world):
    """size_of::<T>() for the element types a Vec/VecDeque is created with"""
    if is_int(t):
        return (64 if t[1].endswith("size") else int(t[1][1:])) // 8
    if t[0] == "named" and t[1] in world.structs:
        sizes = [size_of(ft, world) for _, ft in world.structs[t[1]]]
        if sizes and all(s == sizes[0] for s in sizes):
            return sum(sizes)
    raise Unsupported("size of `%s`" % tystr(t))


def rust_str_bytes(text):
    """the bytes of a Rust string literal body (escapes as written in the source)"""
    out = bytearray()
    i = 0
    while i < len(text):
        c = text[i]
        if c != "\\":
            out += c.encode("utf-8")
            i += 1
            continue
        d = text[i + 1] if i + 1 < len(text) else ""
        simple = {"n": 10, "r": 13, "t": 9, "\\": 92, "0": 0, "'": 39, '"': 34}
        if d in simple:
            out.append(simple[d]); i += 2
        elif d == "x":
            v = int(text[i + 2:i + 4], 16)
            if v > 0x7F:
                raise Unsupported("string escape \\x above 7F")
            out.append(v); i += 4
        elif d == "u":
            m = re.match(r"\\u\{([0-9a-fA-F_]+)\}", text[i:])
            if not m:
                raise Unsupported("string escape")
            out += chr(int(m.group(1).replace("_", ""), 16)).encode("utf-8")
            i += len(m.group(0))
        elif d == "\n":
            i += 2
            while i < len(text) and text[i] in " \t\r\n":
                i += 1
        else:
            raise Unsupported("string escape `\\%s`" % d)
    return bytes(out)


def lean_str_lit(bs):
    """a Lean string literal denoting the string whose UTF-8 bytes are `bs`"""
    s = bs.decode("utf-8")
    out = []
    for ch in s:
        o = ord(ch)
        if ch == "\\":
            out.append("\\\\")
        elif ch == '"':
            out.append('\\"')
        elif ch == "\n":
            out.append("\\n")
        elif ch == "\t":
            out.append("\\t")
        elif ch == "\r":
            out.append("\\r")
        elif o < 0x20 or o == 0x7F:
            out.append("\\x%02x" % o)
        elif o < 0x7F:
            out.append(ch)
        else:
            out.append("\\u{%x}" % o)
    return '"' + "".join(out) + '"'


def char_value(text):
    if text.startswith("\\x"):
        return int(text[2:], 16)
    if text.startswith("\\u"):
        return int(text[3:-1].replace("_", ""), 16)
    if text.startswith("\\"):
        table = {"n": 10, "r": 13, "t": 9, "\\": 92, "0": 0, "'": 39, '"': 34}
        if text[1] not in table:
            raise Unsupported("char escape `%s`" % text)
        return table[text[1]]
    return ord(text)


# ----------------------------------------------------------------------------- function translator

MUT_METHODS = {"push", "push_str", "extend_from_slice", "resize", "push_back", "pop_front", "clear", "truncate"}


def strip(e):
    """drop parentheses, `&`, `&mut`, `*` around a place expression"""
    while True:
        if e.kind in ("paren", "ref", "refmut"):
            e = e.e
        elif e.kind == "un" and e.op == "*":
            e = e.e
        else:
            return e


class FnTr2(FnTr):
    def __init__(self, world, file, impl, trait, name, it, lean, lit_choice=None):
        self.lean = lean
        self.loop_stack = []          # innermost last: dict(M=[names], rho=lean type of the body's ρ)
        self.aux_defs = []            # hoisted loop bodies (lists of lines), in order
        self.deferred = set()         # `let x;` names not yet assigned
        self.lit_choice = lit_choice or {}
        self.lit_sites = 0
        self.mutparams = []
        self.text_param = None
        FnTr.__init__(self, world, file, impl, trait, name, it)
        self.body_parser = Parser2(self.body_parser.t, self.body_parser.i)
        for x in self.idents:
            if x in RESERVED2:
                raise Unsupported("identifier `%s` clashes with a name used by the generated Lean" % x)

    # -- signature (phase-1 parse_sig plus `&mut` parameters and `&mut self`)
    def resolve(self, t):
        t = norm_type(t)
        if t == ("named", "Item") and self.trait == "Iterator":
            t = self.assoc_item()
        elif t[0] in ("opt", "res", "vec", "slice", "deque"):
            t = (t[0], self.resolve(t[1]))
        elif t[0] == "tuple":
            t = ("tuple", tuple(self.resolve(x) for x in t[1]))
        return norm_type(FnTr.resolve(self, t))

    def assoc_item(self):
        """`type Item = …;` of `impl Iterator for <self.impl>` in this file"""
        try:
            toks = R.tokenize(open(os.path.join(self.w.repo, self.file), encoding="utf-8").read())
        except OSError as e:
            raise Unsupported("cannot read %s: %s" % (self.file, e))
        hits = []
        for i, t in enumerate(toks):
            if t.k == "id" and t.v == "type" and toks[i + 1].k == "id" and toks[i + 1].v == "Item" and toks[i + 2].k == "p" and toks[i + 2].v == "=":
                j = i
                while j >= 0 and not (toks[j].k == "id" and toks[j].v == "impl"):
                    j -= 1
                if j < 0:
                    continue
                header = []
                k = j
                while k < i and not (toks[k].k == "p" and toks[k].v == "{"):
                    header.append(toks[k]); k += 1
                ids = [x.v for x in header if x.k == "id"]
                if "Iterator" in ids and "for" in ids and self.impl in ids[ids.index("for"):]:
                    p = Parser2(toks, i + 3)
                    ty = p.parse_type()
                    if not p.isp(";"):
                        raise Unsupported("associated type `Item`")
                    hits.append(ty)
        if len(hits) != 1:
            raise Unsupported("associated type `Item` of %s not found" % self.impl)
        return norm_type(hits[0])

    def parse_sig(self, it):
        p = Parser2(it["toks"])
        self.generics = {}
        if p.isp("<"):
            inner = p.skip_generics()
            for t in inner:
                if t.k != "life" and not (t.k == "p" and t.v == ","):
                    raise Unsupported("generic parameters not in the subset")
        p.expectp("(")
        self.params = []
        self.mutparams = []
        while not p.isp(")"):
            p.skip_attrs()
            if p.isp("&") and (p.isid("self", 1) or (p.peek(1).k == "life" and p.isid("self", 2))
                               or (p.isid("mut", 1) and p.isid("self", 2))
                               or (p.peek(1).k == "life" and p.isid("mut", 2) and p.isid("self", 3))):
                p.next()
                if p.peek().k == "life":
                    p.next()
                if p.eatid("mut"):
                    self.mutparams.append("self")
                p.next()
                self.params.append(("self", ("named", "Self")))
            elif p.isid("self"):
                p.next()
                self.params.append(("self", ("named", "Self")))
            else:
                p.eatid("mut")
                name = p.ident()
                if name == "_":
                    raise Unsupported("`_` parameter")
                p.expectp(":")
                if p.isp("&") and (p.isid("mut", 1) or (p.peek(1).k == "life" and p.isid("mut", 2))):
                    self.mutparams.append(name)
                ty = p.parse_type()
                self.params.append((name, ty))
            if not p.eatp(","):
                break
        p.expectp(")")
        self.ret = ("unit",)
        if p.eatp("->"):
            self.ret = p.parse_type()
        if p.isid("where"):
            raise Unsupported("where clause not in the subset")
        self.params = [(n, self.resolve(t)) for n, t in self.params]
        self.ret = self.resolve(self.ret)
        self.writer = None
        self.body_parser = p

    def lean_name(self):
        return self.lean

    def lt(self, t):
        return lean_type2(t, self.w)

    def ret_parts_types(self):
        parts = []
        rv = self.ret_value_type()
        if rv != ("unit",):
            parts.append(self.lt(rv))
        for m in self.mutparams:
            parts.append(self.lt(self.lookup_param(m)))
        return parts

    def lookup_param(self, name):
        for n, t in self.params:
            if n == name:
                return t
        raise Unsupported("unknown parameter `%s`" % name)

    def lean_ret(self):
        parts = self.ret_parts_types()
        if not parts:
            return "Unit"
        if len(parts) == 1:
            return parts[0]
        return "(" + " × ".join(parts) + ")"

    # -- ρ of the current position and return terms
    def cur_rho(self):
        return self.loop_stack[-1]["rho"] if self.loop_stack else self.lean_ret()

    def wrap_ret(self, term):
        for _ in self.loop_stack:
            term = "(Rs.LoopCtl.ret %s)" % self.atom(term)
        return term

    def ret_pack(self, term):
        parts = []
        if self.ret_value_type() != ("unit",):
            parts.append(term)
        parts += [lname(m) for m in self.mutparams]
        if not parts:
            return "()"
        if len(parts) == 1:
            return parts[0]
        return "(" + ", ".join(parts) + ")"

    def ok_ret(self, term):
        """`Res` term of the current ρ for `return term`"""
        return "(Res.ok %s)" % self.atom(self.wrap_ret(self.ret_pack(term)))

    def mk_ret(self, kind, term):
        if kind == "ok":
            return "Ctl.ret %s" % self.ok_ret(term)
        if kind == "err":
            return "Ctl.ret (.err %s)" % term
        if not self.loop_stack and not self.mutparams:
            return "Ctl.ret %s" % self.atom(term)
        return "Ctl.ret (Res.map (fun r__ => %s) %s)" % (self.wrap_ret(self.ret_pack("r__")), self.atom(term))

    # -- expressions
    def ex0(self, e, want):
        k = e.kind
        if k == "lit_other":
            if e.what == "str":
                return [], "(Rs.strLit %s)" % lean_str_lit(rust_str_bytes(e.text)), STR
            if e.what == "char":
                return [], "(%d : Nat)" % char_value(e.text), CHAR
            if e.what == "bstr":
                bs = rust_str_bytes(e.text)
                return [], "(Rs.bytesOf [%s])" % ", ".join("(%d : Int)" % b for b in bs), ("slice", U8)
        if k in ("for", "while", "whilelet", "loop"):
            return self.tr_loop(e), "()", ("unit",)
        if k == "break" or k == "continue":
            return self.tr_jump(k), "()", ("never",)
        if k == "uncheckedblock":
            b = e.body
            if b.stmts or b.tail is None:
                raise Unsupported("this kind of block is limited to one call of `from_utf8_unchecked`")
            c = b.tail
            if not (c.kind == "call" and c.f.kind == "path" and c.f.segs[-1] == "from_utf8_unchecked" and len(c.args) == 1):
                raise Unsupported("this kind of block is limited to one call of `from_utf8_unchecked`")
            return self.ex0(c, want)
        if k == "macro" and e.name == "format":
            return self.ex_format(e)
        if k == "path" and len(e.segs) == 1 and e.segs[0] in self.deferred and self.lookup(e.segs[0]) is None:
            raise Unsupported("`%s` is read where the translator cannot see its initialisation" % e.segs[0])
        if k == "field" and e.e.kind == "path" and e.e.segs == ["self"] and self.self_struct():
            for fn, ft in self.self_struct():
                if fn == e.name:
                    return [], "self.%s" % lname(fn), ft
        return FnTr.ex0(self, e, want)

    def self_struct(self):
        if self.impl and self.impl in self.w.structs and self.lookup("self") is not None:
            return self.w.structs[self.impl]
        return None

    def ex_format(self, e):
        toks = list(e.toks)
        if not toks or toks[0].k != "str":
            raise Unsupported("format! without a literal format string")
        fmt = toks[0].v
        p = Parser2(toks[1:] + [Tok("eof", None, 0)])
        args = []
        while p.eatp(","):
            if p.peek().k == "eof":
                break
            args.append(p.parse_expr())
        if p.peek().k != "eof":
            raise Unsupported("format! arguments")
        pieces = re.split(r"(\{[^{}]*\})", fmt)
        ls, terms = [], []
        ai = 0
        for pc in pieces:
            if pc == "":
                continue
            if pc.startswith("{") and pc.endswith("}"):
                m = re.fullmatch(r"\{:0(\d+)x\}", pc)
                if not m or ai >= len(args):
                    raise Unsupported("format! placeholder `%s` not in the subset" % pc)
                l1, t1, ty1 = self.ex(args[ai])
                ai += 1
                ty1 = self.default_flex(ty1)
                if not is_int(ty1) or ty1[1][0] != "u":
                    raise Unsupported("format! `%s` of %s" % (pc, tystr(ty1)))
                ls += l1
                terms.append("Rs.fmtLowerHexPad %s %s" % (m.group(1), self.atom(t1)))
            else:
                if "{" in pc or "}" in pc:
                    raise Unsupported("format! braces")
                terms.append("Rs.strLit %s" % lean_str_lit(rust_str_bytes(pc)))
        if ai != len(args):
            raise Unsupported("format! argument count")
        if not terms:
            terms = ['Rs.strLit ""']
        return ls, "(" + " ++ ".join(terms) + ")", STR

    def error_name(self, e):
        """`Error::X` -> "X"; `Error::Syntax(ParseErrorCode::X(..), pos)` -> "X" (the model's errors are
        the variant names; payloads and positions are not modelled)"""
        if e.kind == "call" and e.f.kind == "path" and e.f.segs == ["Error", "Syntax"] and len(e.args) == 2:
            code = e.args[0]
            cargs = []
            if code.kind == "call" and code.f.kind == "path":
                cargs, code = code.args, code.f
            if code.kind == "path" and len(code.segs) == 2 and code.segs[0] == "ParseErrorCode":
                for a in list(cargs) + [e.args[1]]:
                    ls, _, _ = self.ex(a)
                    if ls:
                        raise Unsupported("effectful error payload")
                return '"%s"' % code.segs[1]
        return FnTr.error_name(self, e)

    def q_none(self):
        """the `Res` with which `?` on a `None` leaves the function"""
        if self.ret[0] != "opt":
            raise Unsupported("`?` on an Option in a function that does not return Option")
        return self.ok_ret("none")

    def ex_try(self, e, want):
        inner = e.e
        if inner.kind == "mcall" and inner.name == "ok" and not inner.args:
            ls, t, ty = self.ex(inner.recv, ("res", want) if want is not None else None)
            if ty[0] != "res":
                raise Unsupported("`.ok()` on %s" % tystr(ty))
            r = self.fresh()
            return ls + ["let %s ← Rs.okQ %s %s" % (r, self.atom(t), self.q_none())], r, ty[1]
        if self.ret[0] == "opt":
            ls, t, ty = self.ex(inner, ("opt", want) if want is not None else None)
            if ty[0] != "opt":
                raise Unsupported("`?` on %s in a function returning Option" % tystr(ty))
            r = self.fresh()
            return ls + ["let %s ← Rs.optQ %s %s" % (r, self.atom(t), self.q_none())], r, ty[1]
        if self.loop_stack or self.mutparams:
            # `?` on a Result: the error leaves the function unchanged (Ctl.ofRes is polymorphic in ρ)
            ls, t, ty = self.ex(inner, ("res", want) if want is not None else None)
            if ty[0] != "res" or self.ret[0] != "res":
                raise Unsupported("`?` on %s" % tystr(ty))
            ls, r = self.call_res(ls, t)
            return ls, r, ty[1]
        return FnTr.ex_try(self, e, want)

    def ex_call(self, e, want):
        f = e.f
        if f.kind == "path":
            segs, args = f.segs, e.args
            last2 = segs[-2:] if len(segs) >= 2 else None
            if last2 in (["Vec", "with_capacity"], ["VecDeque", "with_capacity"]) and len(args) == 1:
                kind = "vec" if last2[0] == "Vec" else "deque"
                el = want[1] if (want is not None and want[0] == kind) else (U8 if kind == "vec" else None)
                if el is None:
                    raise NeedType("cannot infer the element type of `%s::with_capacity`" % last2[0])
                ls, t, _ = self.ex(args[0], ("int", "usize"))
                elt = "UInt8" if el == U8 else self.lt(el)
                ls, r = self.call_res(ls, "Rs.vecWithCapacity %s %d %s" % (elt, size_of(el, self.w), self.atom(t)))
                return ls, r, (kind, el)
            if last2 in (["Vec", "new"], ["VecDeque", "new"], ["String", "new"]) and not args:
                if last2[0] == "String":
                    return [], "([] : Bytes)", STR
                kind = "vec" if last2[0] == "Vec" else "deque"
                el = want[1] if (want is not None and want[0] == kind) else (U8 if kind == "vec" else None)
                if el is None:
                    raise NeedType("cannot infer the element type of `%s::new`" % last2[0])
                return [], "([] : %s)" % self.lt((kind, el)), (kind, el)
            if last2 == ["String", "from_utf8_lossy"] and len(args) == 1:
                ls, t, ty = self.ex(args[0])
                if not is_bytes(ty):
                    raise Unsupported("from_utf8_lossy of %s" % tystr(ty))
                return ls, "(Rs.fromUtf8Lossy %s)" % self.atom(t), STR
            if segs[-1] == "from_utf8_unchecked" and len(args) == 1:
                ls, t, ty = self.ex(args[0])
                if not is_bytes(ty):
                    raise Unsupported("from_utf8_unchecked of %s" % tystr(ty))
                return ls, t, STR
        return FnTr.ex_call(self, e, want)

    def user_call(self, sig, args, recv=None):
        muts = sig.get("mut", [])
        if not muts:
            return FnTr.user_call(self, sig, args, recv)
        params = sig["params"]
        allargs = ([recv] if recv is not None else []) + list(args)
        if len(allargs) != len(params):
            raise Unsupported("arity of call to %s" % sig["lean"])
        ls, terms, outs = [], [], []
        for ae, (pn, pt) in zip(allargs, params):
            if pn in muts:
                if isinstance(ae, tuple):
                    place = N("path", segs=["self"])
                else:
                    place = strip(ae)
                if pn == "self" and place.kind == "path" and place.segs == ["self"]:
                    if "self" not in self.mutparams:
                        raise Unsupported("`&mut self` method called on an immutable `self`")
                    outs.append("self"); terms.append("self")
                    continue
                if not (place.kind == "path" and len(place.segs) == 1 and self.lookup(place.segs[0]) is not None):
                    raise Unsupported("`&mut` argument that is not a local variable")
                x = place.segs[0]
                self.unify(self.lookup(x), pt, "`&mut` argument type")
                outs.append(x); terms.append(lname(x))
                continue
            if isinstance(ae, tuple):
                l1, t1 = ae
            else:
                l1, t1, _ = self.ex(ae, pt)
            ls += l1
            terms.append(self.atom(t1))
        if len(set(outs)) != len(outs):
            raise Unsupported("the same variable passed twice as `&mut`")
        ret = sig["ret"]
        call = "%s %s" % (sig["lean"], " ".join(terms))
        rv = ret[1] if ret[0] == "res" else ret
        pats = []
        r = "()"
        if rv != ("unit",):
            r = self.fresh()
            pats.append(r)
        pats += [lname(x) for x in outs]
        pat = pats[0] if len(pats) == 1 else "(" + ", ".join(pats) + ")"
        if ret[0] == "res":
            raise Unsupported("call of a Result function with `&mut` parameters")
        return ls + ["let %s ← Ctl.ofRes (%s)" % (pat, call)], r, rv

    def ex_mcall(self, e, want):
        name, args = e.name, e.args
        recv = e.recv
        # receivers that are erased: `.iter()` is handled by the loops only
        if name in ("as_str", "as_bytes", "to_vec", "as_slice", "as_ref", "to_owned", "to_string", "as_mut_slice") and not args:
            ls, t, ty = self.ex(recv, None)
            if ty == STR:
                if name in ("as_bytes",):
                    return ls, t, ("slice", U8)
                if name in ("as_str", "as_ref", "to_owned", "to_string"):
                    return ls, t, STR
            if is_bytes(ty) and name in ("to_vec", "as_slice", "as_ref", "to_owned", "as_mut_slice"):
                return ls, t, ("vec", U8) if name in ("to_vec", "to_owned") else ("slice", U8)
            raise Unsupported("method `.%s()` on %s" % (name, tystr(ty)))
        if name in ("unwrap_or_default", "unwrap_or") and len(args) == (0 if name == "unwrap_or_default" else 1):
            ls, t, ty = self.ex(recv, ("res", want) if want is not None else None)
            if ty[0] == "res" and is_int(ty[1]):
                if args:
                    l1, d, _ = self.ex(args[0], ty[1])
                    ls = ls + l1
                else:
                    d = "(0 : Int)"
                ls, r = self.call_res(ls, "Rs.resUnwrapOr %s %s" % (self.atom(t), self.atom(d)))
                return ls, r, ty[1]
            raise Unsupported("`.%s()` on %s" % (name, tystr(ty)))
        if name in ("is_none", "is_some") and not args:
            ls, t, ty = self.ex(recv)
            if ty[0] == "opt":
                return ls, "(Option.%s %s)" % ("isNone" if name == "is_none" else "isSome", self.atom(t)), ("bool",)
            raise Unsupported("`.%s()` on %s" % (name, tystr(ty)))
        if name in ("eq", "eq_ignore_ascii_case", "len", "is_empty") or name in MUT_METHODS:
            try:
                save = self.tmp
                ls, t, ty = self.ex(recv)
            except NeedType:
                raise
            a = self.atom(t)
            if ty == STR and name in ("eq", "eq_ignore_ascii_case") and len(args) == 1:
                l1, t1, ty1 = self.ex(args[0])
                if ty1 != STR:
                    raise Unsupported("`.%s()` argument of type %s" % (name, tystr(ty1)))
                if name == "eq":
                    return ls + l1, "(decide (%s = %s))" % (a, self.atom(t1)), ("bool",)
                return ls + l1, "(Rs.eqIgnoreAsciiCase %s %s)" % (a, self.atom(t1)), ("bool",)
            if name == "len" and not args and (ty == STR or ty[0] in ("vec", "deque", "slice", "array")):
                return ls, "(Rs.len %s)" % a, ("int", "usize")
            if name == "is_empty" and not args and (ty == STR or ty[0] in ("vec", "deque", "slice", "array")):
                return ls, "(Rs.isEmpty %s)" % a, ("bool",)
            if name in MUT_METHODS:
                raise Unsupported("`.%s()` used as an expression" % name)
            self.tmp = save
        return FnTr.ex_mcall(self, e, want)

    # -- places: local variable, `*x`, `self.f`
    def place_of(self, e):
        """-> ('var', name, type) | ('field', field, type)"""
        e = strip(e)
        if e.kind == "path" and len(e.segs) == 1:
            x = e.segs[0]
            t = self.lookup(x)
            if t is None or t == ("writer",):
                raise Unsupported("assignment to `%s`" % x)
            return ("var", x, t)
        if e.kind == "field" and strip(e.e).kind == "path" and strip(e.e).segs == ["self"] and self.self_struct():
            if "self" not in self.mutparams:
                raise Unsupported("mutation through an immutable `self`")
            for fn, ft in self.self_struct():
                if fn == e.name:
                    return ("field", fn, ft)
        raise Unsupported("assignment to a place expression not in the subset")

    def place_term(self, pl):
        return lname(pl[1]) if pl[0] == "var" else "self.%s" % lname(pl[1])

    def place_store(self, pl, term, monadic=False):
        """line(s) that store `term` (a pure term, or a `Res` when monadic) into the place"""
        if pl[0] == "var":
            if monadic:
                return ["let %s ← Ctl.ofRes (%s)" % (lname(pl[1]), term)]
            return ["let %s := %s" % (lname(pl[1]), term)]
        if monadic:
            t = self.fresh()
            return ["let %s ← Ctl.ofRes (%s)" % (t, term), "let self := { self with %s := %s }" % (lname(pl[1]), t)]
        return ["let self := { self with %s := %s }" % (lname(pl[1]), term)]

    def mutated_root(self, e):
        """name of the local mutated through the place expression `e` (or None)"""
        e = strip(e)
        if e.kind == "path" and len(e.segs) == 1:
            return e.segs[0]
        if e.kind in ("field", "index", "tfield"):
            return self.mutated_root(e.e)
        return None

    # -- assigned outer variables (phase-1 `assigned` plus the phase-2 mutations)
    def assigned(self, node):
        out = []

        def pat_names(p, acc):
            if p is None:
                return
            if p.kind == "p_path" and len(p.path) == 1:
                acc.add(p.path[0])
            elif p.kind == "p_bind":
                acc.add(p.name); pat_names(p.sub, acc)
            elif p.kind == "p_tuple":
                for q in p.items:
                    pat_names(q, acc)
            elif p.kind == "p_ctor":
                for q in p.args:
                    pat_names(q, acc)
            elif p.kind == "p_or":
                for q in p.alts:
                    pat_names(q, acc)

        def hit(v, declared):
            if v is not None and v not in declared and v not in out and v not in self.deferred:
                out.append(v)

        def walk(x, declared):
            if isinstance(x, (list, tuple)):
                for y in x:
                    walk(y, declared)
                return
            if not isinstance(x, N):
                return
            k = x.kind
            if k == "block":
                d = set(declared)
                for s in x.stmts:
                    if s.kind == "let":
                        walk(s.init, d)
                        pat_names(s.pat, d)
                    else:
                        walk(s.e, d)
                walk(x.tail, d)
                return
            if k == "assign":
                hit(self.mutated_root(x.lhs), declared)
                lhs = strip(x.lhs)
                if lhs.kind == "index":
                    walk(lhs.idx, declared)
                walk(x.rhs, declared)
                return
            if k == "mcall":
                if x.name in MUT_METHODS:
                    hit(self.mutated_root(x.recv), declared)
                else:
                    r = strip(x.recv)
                    sig = None
                    if r.kind == "path" and r.segs == ["self"] and self.impl:
                        sig = self.find_sig(self.impl, x.name)
                    if sig and "self" in sig.get("mut", []):
                        hit("self", declared)
                    if sig:
                        self.walk_call_args(sig, x.args, 1, hit, declared)
                walk(x.recv, declared)
                walk(x.args, declared)
                return
            if k == "call":
                for a in x.args:
                    if a.kind == "refmut":
                        hit(self.mutated_root(a.e), declared)
                if x.f.kind == "path":
                    sig = self.find_sig(None, x.f.segs[0]) if len(x.f.segs) == 1 else None
                    if sig:
                        self.walk_call_args(sig, x.args, 0, hit, declared)
                walk(x.args, declared)
                return
            if k == "match":
                walk(x.scrut, declared)
                for a in x.arms:
                    d = set(declared)
                    pat_names(a.pat, d)
                    walk(a.guard, d)
                    walk(a.body, d)
                return
            if k == "iflet":
                walk(x.scrut, declared)
                d = set(declared)
                pat_names(x.pat, d)
                walk(x.then, d)
                walk(x.els, declared)
                return
            if k == "for":
                walk(x.iter, declared)
                d = set(declared)
                pat_names(x.pat, d)
                walk(x.body, d)
                return
            if k == "whilelet":
                walk(x.scrut, declared)
                d = set(declared)
                pat_names(x.pat, d)
                walk(x.body, d)
                return
            for kk, v in x.__dict__.items():
                if kk not in ("kind", "toks"):
                    walk(v, declared)

        walk(node, set())
        for v in out:
            if self.lookup(v) is None:
                raise Unsupported("assignment to unknown variable `%s`" % v)
        return out

    def walk_call_args(self, sig, args, skip, hit, declared):
        muts = sig.get("mut", [])
        for (pn, _), a in zip(sig["params"][skip:], args):
            if pn in muts:
                hit(self.mutated_root(a), declared)

    # -- statements
    def tr_stmt(self, s):
        if s.kind == "let":
            if s.init is None:
                if not (s.pat.kind == "p_path" and len(s.pat.path) == 1) or getattr(s.pat, "is_mut", False) or s.ty is not None:
                    raise Unsupported("`let` without initialiser: only `let x;` is in the subset")
                self.deferred.add(s.pat.path[0])
                return [], False
            if s.ty is None and s.pat.kind == "p_path" and len(s.pat.path) == 1 and s.init.kind == "int" and not s.init.suffix:
                site = self.lit_sites
                self.lit_sites += 1
                if site not in self.lit_choice:
                    raise NeedLitType(site)
                ty = ("int", self.lit_choice[site])
                self.check_flex(("lit", s.init.value), ty[1])
                self.bind(s.pat.path[0], ty)
                return ["let %s := (%d : Int)" % (lname(s.pat.path[0]), s.init.value)], False
            if s.ty is None and s.pat.kind == "p_path" and len(s.pat.path) == 1 and s.init.kind == "path" and s.init.segs == ["None"]:
                # `let mut x = None;`: rustc infers the type from later uses; the only candidate tried
                # is the function's own Option result type (any other use fails to type-check here)
                if self.ret[0] != "opt":
                    raise NeedType("cannot infer the type of `None`")
                self.bind(s.pat.path[0], self.ret)
                return ["let %s : %s := none" % (lname(s.pat.path[0]), self.lt(self.ret))], False
            return FnTr.tr_stmt(self, s)
        e = s.e
        k = e.kind
        if k in ("for", "while", "whilelet", "loop"):
            return self.tr_loop(e), False
        if k in ("break", "continue"):
            return self.tr_jump(k), True
        if k == "assign":
            return self.tr_assign(e), False
        if k == "mcall" and e.name in MUT_METHODS:
            return self.tr_mutcall(e), False
        return FnTr.tr_stmt(self, s)

    def tr_assign(self, e):
        lhs = strip(e.lhs)
        # deferred initialisation `x = e` of a `let x;`
        if lhs.kind == "path" and len(lhs.segs) == 1 and lhs.segs[0] in self.deferred and self.lookup(lhs.segs[0]) is None:
            if e.op != "=":
                raise Unsupported("compound assignment to an uninitialised variable")
            ls, t, ty = self.ex(e.rhs)
            ty = self.default_flex(ty)
            self.need_concrete(ty)
            self.bind(lhs.segs[0], ty)
            return ls + ["let %s := %s" % (lname(lhs.segs[0]), t)]
        if lhs.kind == "index":
            pl = self.place_of(lhs.e)
            if not is_bytes(pl[2]):
                raise Unsupported("index assignment into %s" % tystr(pl[2]))
            if e.op != "=":
                raise Unsupported("compound index assignment")
            if lhs.idx.kind == "range":
                raise Unsupported("assignment to a range of a slice")
            il, it, _ = self.ex(lhs.idx, ("int", "usize"))
            rl, rt, _ = self.ex(e.rhs, U8)
            # Rust evaluates the right-hand side first, then the index expression
            return rl + il + self.place_store(pl, "Rs.setIndex %s %s %s" % (self.place_term(pl), self.atom(it), self.atom(rt)), monadic=True)
        pl = self.place_of(lhs)
        if e.op == "=":
            ls, t, _ = self.ex(e.rhs, pl[2])
        else:
            ls, t, _ = self.ex(N("bin", op=e.op[:-1], l=lhs, r=e.rhs), pl[2])
        return ls + self.place_store(pl, t)

    def tr_mutcall(self, e):
        pl = self.place_of(e.recv)
        ty, name, args = pl[2], e.name, e.args
        cur = self.place_term(pl)
        if name == "extend_from_slice" and len(args) == 1 and ty[0] == "vec":
            ls, t, ty1 = self.ex(args[0])
            if not (is_bytes(ty1) and is_bytes(ty)):
                raise Unsupported("extend_from_slice of %s into %s" % (tystr(ty1), tystr(ty)))
            return ls + self.place_store(pl, "(Rs.extendFromSlice %s %s)" % (cur, self.atom(t)))
        if name == "push" and len(args) == 1 and ty == ("vec", U8):
            ls, t, _ = self.ex(args[0], U8)
            return ls + self.place_store(pl, "(Rs.pushByte %s %s)" % (cur, self.atom(t)))
        if name == "push" and len(args) == 1 and ty == STR:
            ls, t, _ = self.ex(args[0], CHAR)
            return ls + self.place_store(pl, "(Rs.pushChar %s %s)" % (cur, self.atom(t)))
        if name == "push_str" and len(args) == 1 and ty == STR:
            ls, t, _ = self.ex(args[0], STR)
            return ls + self.place_store(pl, "(Rs.pushStr %s %s)" % (cur, self.atom(t)))
        if name == "resize" and len(args) == 2 and ty == ("vec", U8):
            l1, t1, _ = self.ex(args[0], ("int", "usize"))
            l2, t2, _ = self.ex(args[1], U8)
            return l1 + l2 + self.place_store(pl, "(Rs.resize %s %s %s)" % (cur, self.atom(t1), self.atom(t2)))
        if name == "push_back" and len(args) == 1 and ty[0] == "deque":
            ls, t, _ = self.ex(args[0], ty[1])
            return ls + self.place_store(pl, "(Rs.pushBack %s %s)" % (cur, self.atom(t)))
        raise Unsupported("method `.%s()` on %s not in the subset" % (name, tystr(ty)))

    def finish_ctl(self, shape, pre_lines, branches, mode, want, M):
        """phase-1 `finish_ctl`; a statement all of whose branches leave (return / break / continue) is
        emitted as it is, not as the right-hand side of a `let` of the assigned variables"""
        ls, term, ty, div = FnTr.finish_ctl(self, shape, pre_lines, branches, mode, want, M)
        k = len(pre_lines)
        if div and mode != "tail" and M and k < len(ls) and re.fullmatch(r"let .* ← \(", ls[k]) \
                and all(l.startswith("  ") for l in ls[k + 1:]) and ls[-1].endswith(")"):
            body = [l[2:] for l in ls[k + 1:]]
            body[-1] = body[-1][:-1]
            ls = ls[:k] + body
        return ls, term, ty, div

    # -- loops
    def state_pack(self, M):
        names = [lname(m) for m in M]
        if not names:
            return "()"
        return names[0] if len(names) == 1 else "(" + ", ".join(names) + ")"

    def tr_jump(self, k):
        if not self.loop_stack:
            raise Unsupported("`%s` outside a loop" % k)
        st = self.state_pack(self.loop_stack[-1]["M"])
        return ["Ctl.ret (Res.ok (Rs.LoopCtl.%s %s))" % ("brk" if k == "break" else "cont", st)]

    def idents_of(self, node):
        acc = set()

        def walk(x):
            if isinstance(x, (list, tuple)):
                for y in x:
                    walk(y)
            elif isinstance(x, Tok):
                if x.k == "id":
                    acc.add(x.v)
            elif isinstance(x, N):
                if x.kind == "path":
                    acc.add(x.segs[0])
                if x.kind == "struct":
                    for _, v in x.fields:
                        walk(v)
                for kk, v in x.__dict__.items():
                    if kk != "kind":
                        walk(v)
        walk(node)
        return acc

    def visible(self):
        """names in scope, outermost first, each once"""
        seen, out = set(), []
        for s in self.scopes:
            for n in s:
                if n not in seen:
                    seen.add(n); out.append(n)
        return out

    def tr_loop(self, e):
        k = e.kind
        M = self.assigned(e)
        for m in M:
            if self.lookup(m) == ("writer",):
                raise Unsupported("writer used inside a loop")
        pre = []
        # --- what is iterated
        binds = []                    # (rust name, type) bound by the loop header
        head_param = None             # (lean binder, lean type) of the per-iteration argument
        head_lines = []               # lines at the start of the body
        if k == "for":
            it = e.iter
            while it.kind in ("paren", "ref"):
                it = it.e
            if it.kind == "range":
                if it.incl or it.lo is None or it.hi is None:
                    raise Unsupported("only `for x in a..b` ranges are in the subset")
                ls, lo, hi, ty = self.pair(it.lo, it.hi)
                ty = self.default_flex(ty)
                if not is_int(ty):
                    raise Unsupported("range of %s" % tystr(ty))
                pre += ls
                driver = "Rs.forRange %s %s" % (self.atom(lo), self.atom(hi))
                elem_ty, elem_lean = ty, "Int"
            else:
                enum = False
                if it.kind == "mcall" and it.name == "enumerate" and not it.args:
                    enum = True
                    it = it.recv
                if it.kind == "mcall" and it.name in ("iter", "into_iter") and not it.args:
                    it = it.recv
                ls, t, ty = self.ex(it)
                pre += ls
                if is_bytes(ty):
                    seq, el, el_lean = "(Rs.iterBytes %s)" % self.atom(t), U8, "Int"
                elif ty[0] in ("vec", "deque", "slice", "array"):
                    seq, el, el_lean = self.atom(t), ty[1], self.lt(ty[1])
                else:
                    raise Unsupported("`for` over %s" % tystr(ty))
                if enum:
                    seq = "(Rs.enumerate %s)" % seq
                    el, el_lean = ("tuple", (("int", "usize"), el)), "(Int × %s)" % el_lean
                driver = "Rs.forIn %s" % seq
                elem_ty, elem_lean = el, el_lean
            pat, pb = self.let_pattern(e.pat, elem_ty)
            binds = pb
            if re.fullmatch(r"[A-Za-z_][A-Za-z0-9_]*", pat):
                head_param = (pat, elem_lean)
            else:
                head_param = ("p__", elem_lean)
                head_lines = ["let %s := p__" % pat]
        elif k == "whilelet":
            sc = e.scrut
            while sc.kind == "paren":
                sc = sc.e
            if not (sc.kind == "mcall" and sc.name == "pop_front" and not sc.args):
                raise Unsupported("`while let` is limited to `while let Some(p) = q.pop_front()`")
            pl = self.place_of(sc.recv)
            if pl[0] != "var" or pl[2][0] != "deque":
                raise Unsupported("pop_front on %s" % tystr(pl[2]))
            if not (e.pat.kind == "p_ctor" and e.pat.path == ["Some"] and len(e.pat.args) == 1):
                raise Unsupported("`while let` pattern")
            q = lname(pl[1])
            driver = "Rs.whileFuel ((Rs.len %s).toNat + 1)" % q
            ipat, binds = self.let_pattern(e.pat.args[0], pl[2][1])
        else:
            raise Unsupported("loop (`%s`) without an evident iteration bound not in the subset" % k)
        # --- state and body
        sigma_parts = [self.lt(self.lookup(m)) for m in M]
        sigma = "Unit" if not M else sigma_parts[0] if len(M) == 1 else "(" + " × ".join(sigma_parts) + ")"
        outer_rho = self.cur_rho()
        body_rho = "(Rs.LoopCtl %s %s)" % (outer_rho, sigma)
        idents = self.idents_of(e.body)
        frees = [n for n in self.visible() if n in idents and n not in M and self.lookup(n) != ("writer",)]
        free_params = [(lname(n), self.lt(self.lookup(n))) for n in frees]
        self.loop_stack.append(dict(M=M, rho=body_rho))
        self.push()
        try:
            for n, bt in binds:
                self.bind(n, bt)
            lines, _, _, div = self.tr_block(e.body, "value", None)
            if not div:
                lines = lines + ["pure %s" % self.state_pack(M)]
        finally:
            self.pop()
            self.loop_stack.pop()
        if k == "whilelet":
            st = self.state_pack(M)
            lines = ["match Rs.popFront %s with" % q,
                     "| none => Ctl.ret (Res.ok (Rs.LoopCtl.brk %s))" % st,
                     "| some (%s, %s) => do" % (ipat, q)] + ind(lines)
        self.loop_count = getattr(self, "loop_count", 0) + 1
        aux = "%s.loop%d" % (self.lean, self.loop_count)
        params = ["(%s : %s)" % p for p in free_params]
        if head_param:
            params.append("(%s : %s)" % head_param)
        if not M:
            params.append("(_ : Unit)")
            st_lines = []
        elif len(M) == 1:
            params.append("(%s : %s)" % (lname(M[0]), sigma))
            st_lines = []
        else:
            params.append("(st__ : %s)" % sigma)
            st_lines = ["let %s := st__" % self.state_pack(M)]
        head = "def %s %s : Ctl %s (Rs.Step %s) := Rs.loopStep do" % (aux, " ".join(params), outer_rho, sigma)
        self.aux_defs.append([head] + ind(st_lines + head_lines + lines))
        call = "%s %s (%s)" % (driver, self.state_pack(M), " ".join([aux] + [p[0] for p in free_params]))
        if not M:
            return pre + [call]
        return pre + ["let %s ← %s" % (self.state_pack(M), call)]

    # -- the sniffing prologue `if !is_jsonb(value) { return <text branch>; }`
    def split_text_branch(self, body):
        if self.name not in TEXT_BRANCH:
            return body
        if not body.stmts:
            raise Unsupported("expected the `if !is_jsonb(value)` prologue")
        s0 = body.stmts[0]
        e = s0.e if s0.kind == "expr" else None
        ok = (e is not None and e.kind == "if" and e.els is None and e.cond.kind == "un" and e.cond.op == "!"
              and e.cond.e.kind == "call" and e.cond.e.f.kind == "path" and e.cond.e.f.segs == ["is_jsonb"]
              and len(e.then.stmts) + (1 if e.then.tail is not None else 0) == 1)
        if ok:
            inner = e.then.tail if e.then.tail is not None else e.then.stmts[0].e
            ok = inner.kind == "return" and inner.e is not None
        if not ok:
            raise Unsupported("expected the `if !is_jsonb(value) { return …; }` prologue")
        self.text_param = "text__"
        new_then = N("block", stmts=[], tail=N("return", e=N("path", segs=["text__"])))
        s0 = N("expr", e=N("if", cond=e.cond, then=new_then, els=None), semi=False)
        return N("block", stmts=[s0] + body.stmts[1:], tail=body.tail)

    # -- whole function
    def translate(self):
        p = self.body_parser
        body = p.parse_block()
        if p.peek().k != "eof":
            raise Unsupported("tokens after the function body")
        body = self.split_text_branch(body)
        self.scopes = []
        self.push()
        params = []
        for n, t in self.params:
            self.bind(n, t)
            params.append("(%s : %s)" % (lname(n), self.lt(t)))
        if self.text_param:
            self.scopes[-1]["text__"] = self.ret
            params.append("(text__ : %s)" % self.lt(self.ret_value_type()))
        if self.ret[0] == "res" and self.ret[1][0] == "res":
            raise Unsupported("nested Result")
        lines, _, _, _ = self.tr_block(body, "tail", None)
        head = "def %s %s: Res %s := Ctl.run do" % (self.lean, "".join(x + " " for x in params), self.lean_ret())
        out = []
        for a in self.aux_defs:
            out += a + [""]
        return out + [head] + ind(lines)


# ----------------------------------------------------------------------------- driver

HEADER = """-- GENERATED by tools/rs2lean2.py from the Rust sources of the crate (src/*.rs); do not edit.
-- Phase 2: loops and buffers.  One block per translated function (hoisted loop bodies `<fn>.loop<k>`
-- first).  The meaning of every `Rs.*` / `Ctl.*` name is in JsonbModel/RustPrelude.lean and
-- JsonbModel/RustPrelude2.lean (+ RustPrelude2Str.lean); the agreement theorems are in Proofs/TranslatedAgreeB*.lean.
import JsonbModel.Generated.Translated
import JsonbModel.RustPrelude2
import JsonbModel.RustPrelude2Str

set_option linter.unusedVariables false

namespace Jsonb.Tr
open Jsonb.Rs (Ctl)
"""
FOOTER = "end Jsonb.Tr\n"


def key_of2(file, impl, name):
    return "%s::%s%s" % (file, (impl + "::") if impl else "", name)


def phase1_world(repo):
    """declarations and signatures of the phase-1 targets (callable from phase-2 functions)"""
    world = World(repo)
    world.load_consts()
    for file, kind, name in R.TYPES:
        try:
            R.emit_type(world, file, kind, name)
        except Unsupported:
            pass
    for file, impl, trait, name in R.FUNCS:
        hits = world.find(file, "fn", name, impl, trait)
        if len(hits) != 1:
            continue
        try:
            tr = FnTr(world, file, impl, trait, name, hits[0])
            world.sigs[(file, impl, name)] = dict(params=[(n, tr.resolve(t)) for n, t in tr.params], ret=tr.ret,
                                                  lean=tr.lean_name(), writer=tr.writer)
        except Unsupported:
            pass
        except Exception:
            pass
    return world


INT_CANDIDATES = ["usize", "u8", "u16", "u32", "u64", "u128", "isize", "i8", "i16", "i32", "i64", "i128"]


def translate_fn(world, file, impl, trait, name, lean, it):
    """enumerate the integer types of unannotated literal `let`s; -> lines"""
    def attempt(choice):
        tr = FnTr2(world, file, impl, trait, name, it, lean, dict(choice))
        return tr.translate()

    def solve(choice):
        try:
            return [(dict(choice), attempt(choice))]
        except NeedLitType as e:
            res = []
            errs = []
            for c in INT_CANDIDATES:
                ch = dict(choice)
                ch[e.site] = c
                try:
                    res += solve(ch)
                except NeedLitType:
                    raise
                except Unsupported as u:
                    errs.append(str(u))
            if not res:
                raise Unsupported("no integer type fits a literal `let` (%s)" % (errs[0] if errs else "?"))
            return res

    sols = solve({})
    if len(sols) == 1:
        return sols[0][1]
    texts = {}
    for ch, lines in sols:
        texts.setdefault("\n".join(lines), []).append(ch)
    if len(texts) == 1:
        return sols[0][1]
    # rustc: a literal nothing constrains is an i32
    allsites = set()
    for ch, _ in sols:
        allsites |= set(ch)
    n_all = len(INT_CANDIDATES) ** len(allsites)
    if len(sols) == n_all:
        for ch, lines in sols:
            if all(v == "i32" for v in ch.values()):
                return lines
    raise Unsupported("ambiguous integer type of a literal `let`")


def generate(repo, prev_text):
    world = phase1_world(repo)
    status = {}
    blocks = []
    prev = {m.group(1): m.group(2) for m in R.BLOCK_RE.finditer(prev_text or "")}
    for file, kind, name in TYPES2:
        key = "%s::%s %s" % (file, kind, name)
        lines = None
        try:
            lines = emit_type2(world, file, kind, name)
            status[key] = "translated" if lines is not None else "missing"
        except Unsupported as e:
            status[key] = "unsupported: %s" % e
        except Exception as e:
            status[key] = "unsupported: translator error (%s: %s)" % (type(e).__name__, e)
        blocks.append((key, lines))
    items = {}
    for file, impl, trait, name, lean in FUNCS2:
        key = key_of2(file, impl, name)
        hits = world.find(file, "fn", name, impl, trait)
        if not hits:
            status[key] = ("unsupported: cannot read %s: %s" % (file, world.file_errors[file])) if file in world.file_errors else "missing"
            continue
        if len(hits) > 1:
            status[key] = "unsupported: defined more than once"
            continue
        try:
            tr = FnTr2(world, file, impl, trait, name, hits[0], lean)
            for _, t in tr.params:
                lean_type2(t, world)
            lean_type2(tr.ret_value_type(), world)
            items[key] = hits[0]
            params = list(tr.params)
            ret = tr.ret
            if name in TEXT_BRANCH:
                params.append(("text__", tr.ret_value_type()))
            world.sigs[(file, impl, name)] = dict(params=params, ret=ret, lean=lean, writer=None, mut=list(tr.mutparams))
            if impl is None:
                world.sigs_names.add(name)
        except Unsupported as e:
            status[key] = "unsupported: %s" % e
        except Exception as e:
            status[key] = "unsupported: translator error (%s: %s)" % (type(e).__name__, e)
    for file, impl, trait, name, lean in FUNCS2:
        key = key_of2(file, impl, name)
        lines = None
        if key in items:
            try:
                lines = translate_fn(world, file, impl, trait, name, lean, items[key])
                status[key] = "translated"
            except Unsupported as e:
                status[key] = "unsupported: %s" % e
            except RecursionError:
                status[key] = "unsupported: expression too deeply nested"
            except Exception as e:
                lines = None
                status[key] = "unsupported: translator error (%s: %s)" % (type(e).__name__, e)
        blocks.append((key, lines))
    out = [HEADER]
    ok = True
    for key, lines in blocks:
        out.append("-- BEGIN %s\n" % key)
        if lines is not None:
            out.append("\n".join(lines) + "\n")
        else:
            ok = False
            if key in prev:
                out.append(prev[key])
                status[key] += " (kept the previously generated block)"
            else:
                out.append("-- (no translation available)\n")
        out.append("-- END %s\n\n" % key)
    out.append(FOOTER)
    return "".join(out), status, ok


def emit_type2(world, file, kind, name):
    """struct whose fields are `&mut Vec<u8>` / integers -> Lean structure"""
    hits = world.find(file, kind, name)
    if not hits:
        if file in world.file_errors:
            raise Unsupported("cannot read %s: %s" % (file, world.file_errors[file]))
        return None
    if len(hits) > 1:
        raise Unsupported("declared more than once")
    it = dict(hits[0])
    toks = it["toks"]
    # a lifetime parameter list is ignored
    p = Parser2(toks)
    if p.isp("<"):
        inner = p.skip_generics()
        if any(t.k != "life" and not (t.k == "p" and t.v == ",") for t in inner):
            raise Unsupported("generic struct")
    if not p.isp("{"):
        raise Unsupported("tuple/unit struct")
    p.next()
    fields = []
    while not p.isp("}"):
        p.skip_attrs()
        if p.eatid("pub") and p.isp("("):
            p.skip_balanced()
        fname = p.ident()
        p.expectp(":")
        fields.append((fname, norm_type(p.parse_type())))
        if not p.eatp(","):
            break
    p.expectp("}")
    for _, t in fields:
        if not (is_bytes(t) or t[0] in ("int", "bool")):
            raise Unsupported("field type %s" % tystr(t))
    world.structs[name] = fields
    lines = ["structure %s where" % name]
    for f, t in fields:
        lines.append("  %s : %s" % (lname(f), lean_type2(t, world)))
    lines.append("  deriving Repr, DecidableEq")
    return lines


def main(argv):
    to_stdout = "--stdout" in argv
    try:
        prev_text = open(PREV, encoding="utf-8").read()
    except OSError:
        prev_text = ""
    text, status, ok = generate(REPO, prev_text)
    if to_stdout:
        sys.stdout.write(text)
        return 0
    try:
        old = open(OUT, encoding="utf-8").read()
    except OSError:
        old = None
    changed = False
    if old != text:
        changed = True
        os.makedirs(os.path.dirname(OUT), exist_ok=True)
        tmp_out = OUT + ".tmp%d" % os.getpid()
        with open(tmp_out, "w", encoding="utf-8") as f:
            f.write(text)
        os.replace(tmp_out, OUT)
    print(json.dumps({"ok": ok, "functions": status, "changed": changed}))
    return 0


if __name__ == "__main__":
    sys.exit(main(sys.argv[1:]))
