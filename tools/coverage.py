#!/usr/bin/env python3
"""Measure which lines of /repo/src the request streams of the checks execute in the real crate.

usage: tools/coverage.py [quick|thorough] [--seed N]   -> coverage_report.json + summary on stdout

The correspondence check ties the hand-written model to the code only where the streams reach, so
this is the instrument that shows where a change to the code would go unnoticed.  It builds the
harness with `-C instrument-coverage` (nightly toolchain: llvm-tools are installed there) in its
own target directory, replays corpus + generated stream of every property through it, merges the
profiles and lists the lines of /repo/src that were never executed.  Not a proof and not part of
any verdict: it steers the generators (DESIGN 14.3)."""
import json, os, re, shutil, subprocess, sys, tempfile
ROOT = os.path.dirname(os.path.dirname(os.path.abspath(__file__)))
BIN = "/root/.rustup/toolchains/nightly-x86_64-unknown-linux-gnu/lib/rustlib/x86_64-unknown-linux-gnu/bin"
TARGET = os.path.join(ROOT, ".build", "target-cov")
JVH = os.path.join(ROOT, ".build", "target", "debug", "jvh")
COV = os.path.join(TARGET, "debug", "jvh")

def main():
    tier = "quick"
    seed = "1"
    a = sys.argv[1:]
    if a and a[0] in ("quick", "thorough"): tier = a[0]
    if "--seed" in a: seed = a[a.index("--seed") + 1]
    env = dict(os.environ, CARGO_NET_OFFLINE="true", RUSTFLAGS="-C instrument-coverage --cfg jsonb_verif", CARGO_TARGET_DIR=TARGET)
    subprocess.run(["cargo", "build", "--offline"], cwd=os.path.join(ROOT, "harness"), check=True,
                   env=dict(os.environ, CARGO_NET_OFFLINE="true"), stdout=subprocess.DEVNULL, stderr=subprocess.DEVNULL)
    subprocess.run(["cargo", "+nightly", "build", "--offline"], cwd=os.path.join(ROOT, "harness"), check=True, env=env,
                   stdout=subprocess.DEVNULL, stderr=subprocess.DEVNULL)
    work = tempfile.mkdtemp(prefix="jvcov")
    try:
        procs = []
        for i in range(1, 21):
            pid = "C%02d" % i
            lines = []
            d = os.path.join(ROOT, "corpus", pid)
            if os.path.isdir(d):
                for fn in sorted(os.listdir(d)):
                    lines += [l.strip() for l in open(os.path.join(d, fn)) if l.strip() and not l.startswith("#")]
            # deep-nesting requests kill the process by design (known finding D15): leave them out
            lines = [l for l in lines if not l.startswith("deep ")]
            g = subprocess.run([JVH, "gen", pid, tier, seed], stdout=subprocess.PIPE, stderr=subprocess.DEVNULL).stdout.decode()
            lines += [l for l in g.split("\n") if l and not l.startswith("deep ")]
            inp = os.path.join(work, pid + ".txt")
            open(inp, "w").write("\n".join(lines) + "\n")
            e = dict(os.environ, LLVM_PROFILE_FILE=os.path.join(work, pid + "-%p.profraw"))
            procs.append(subprocess.Popen([COV, "run"], stdin=open(inp), stdout=subprocess.DEVNULL, stderr=subprocess.DEVNULL, env=e))
        for p in procs: p.wait()
        raws = [os.path.join(work, f) for f in os.listdir(work) if f.endswith(".profraw")]
        prof = os.path.join(work, "all.profdata")
        subprocess.run([BIN + "/llvm-profdata", "merge", "-sparse"] + raws + ["-o", prof], check=True)
        show = subprocess.run([BIN + "/llvm-cov", "show", COV, "-instr-profile=" + prof, "--ignore-filename-regex=(registry|rustc|harness|rustup)"],
                              stdout=subprocess.PIPE, stderr=subprocess.DEVNULL).stdout.decode("utf-8", "replace")
        cur = None
        per = {}
        for l in show.split("\n"):
            m = re.match(r"^(/repo/src/\S+):$", l.strip())
            if m:
                cur = m.group(1); per[cur] = {"lines": 0, "missed": []}; continue
            m = re.match(r"^\s*(\d+)\|\s*([\d.]+[kMGE]?)\|(.*)$", l)
            if m and cur:
                per[cur]["lines"] += 1
                if m.group(2) == "0":
                    per[cur]["missed"].append([int(m.group(1)), m.group(3).strip()[:100]])
        tot = sum(v["lines"] for v in per.values()); miss = sum(len(v["missed"]) for v in per.values())
        rep = {"tier": tier, "seed": int(seed), "executable_lines": tot, "never_executed": miss,
               "line_coverage_percent": round(100.0 * (tot - miss) / max(tot, 1), 2),
               "files": {k.replace("/repo/", ""): {"lines": v["lines"], "missed": len(v["missed"]), "missed_lines": v["missed"]} for k, v in sorted(per.items())}}
        json.dump(rep, open(os.path.join(ROOT, "coverage_report.json"), "w"), indent=1)
        for k, v in rep["files"].items():
            print("%-28s %5d lines, %4d never executed" % (k, v["lines"], v["missed"]))
        print("total: %d executable lines, %d never executed (%.2f%%)" % (tot, miss, rep["line_coverage_percent"]))
    finally:
        shutil.rmtree(work, ignore_errors=True)

main()
