#!/usr/bin/env python3
"""Self-test of the Rust -> Lean translator (tools/rs2lean.py) and of the agreement theorems
(lean/JsonbModel/Proofs/TranslatedAgree*.lean).

  (a) robustness: re-formatting the source (one token per line, everything on few lines with
      block comments, comment lines, CRLF, extra `#[inline]` attributes) leaves the generated
      Lean text byte-identical;
  (b) sensitivity: each of a list of small LOGIC mutations of the target functions, applied one
      at a time, changes the generated text and makes an agreement proof FAIL, while the
      unmutated source PASSES;
  (c) tolerance (informational + asserted for the listed cases): harmless re-spellings that
      translate to a different but logically equal term are still proved.

Works on a copy of $VERIF_REPO/src (default /repo) in a temporary directory under /tmp; Lean is run
on scratch files under /verif/.build/rs2lean_selftest (the real Generated/Translated.lean is never
written).  Python 3 stdlib only.  Exit code 0 iff everything behaved as expected."""
import concurrent.futures, json, os, re, shutil, subprocess, sys, tempfile, time

HERE = os.path.dirname(os.path.abspath(__file__))
VERIF = os.path.normpath(os.path.join(HERE, ".."))
LEAN = os.path.join(VERIF, "lean")
REPO = os.environ.get("VERIF_REPO", "/repo")
TOOL = os.path.join(HERE, "rs2lean.py")
SCRATCH = os.path.join(VERIF, ".build", "rs2lean_selftest")
PARTS = {1: "TranslatedAgree1.lean", 2: "TranslatedAgree2.lean", 3: "TranslatedAgree3.lean"}
JOBS = int(os.environ.get("RS2LEAN_SELFTEST_JOBS", "4"))

sys.path.insert(0, HERE)
import rs2lean  # noqa: E402  (tokenizer reused for the re-formatting variants)

# (id, file, old text, new text, which occurrence (0-based), agreement parts to check, theorem expected to fail)
MUTATIONS = [
    ("jentry-mask-name", "src/jentry.rs", "encoded & JENTRY_TYPE_MASK", "encoded & JENTRY_OFF_LEN_MASK", 0, [1], "decode_jentry_agrees"),
    ("jentry-or-to-and", "src/jentry.rs", "self.type_code | self.length", "self.type_code & self.length", 0, [1], "encoded_agrees"),
    ("jentry-string-tag", "src/jentry.rs", "type_code: STRING_TAG", "type_code: NUMBER_TAG", 0, [1], "make_string_jentry_agrees"),
    ("jentry-len-cast", "src/jentry.rs", "length: length as u32", "length: length as u16 as u32", 2, [1], "make_container_jentry_agrees"),
    ("enc-i8-max-strict", "src/number.rs", "*v <= i8::MAX.into()", "*v < i8::MAX.into()", 0, [2], "compact_encode_agrees"),
    ("enc-uint-tag", "src/number.rs", "writer.write_all(&[NUMBER_UINT])?;", "writer.write_all(&[NUMBER_INT])?;", 0, [2], "compact_encode_agrees"),
    ("enc-inf-sign-swapped", "src/number.rs", "if v.is_sign_negative() {", "if !v.is_sign_negative() {", 0, [2], "compact_encode_agrees"),
    ("enc-zero-case", "src/number.rs", "if *v == 0 {", "if *v == 1 {", 1, [2], "compact_encode_agrees"),
    ("enc-u16-width", "src/number.rs", "*v <= u16::MAX.into()", "*v <= i16::MAX as u64", 0, [2], "compact_encode_agrees"),
    ("dec-width-4-to-3", "src/number.rs", "4 => Number::Int64(i32::from_be_bytes", "3 => Number::Int64(i32::from_be_bytes", 0, [2], "decode_agrees"),
    ("dec-drop-len-guard", "src/number.rs", "NUMBER_NEG_INF if len != 0 => {", "NUMBER_NEG_INF => {", 0, [2], "decode_agrees"),
    ("dec-i8-as-u8", "src/number.rs", "Number::Int64(i8::from_be_bytes", "Number::Int64(u8::from_be_bytes", 0, [2], "decode_agrees"),
    ("dec-slice-from-0", "src/number.rs", "8 => Number::Float64(f64::from_be_bytes(bytes[1..]", "8 => Number::Float64(f64::from_be_bytes(bytes[0..]", 0, [2], "decode_agrees"),
    ("dec-swap-nan-inf", "src/number.rs", "NUMBER_NAN => Number::Float64(f64::NAN)", "NUMBER_NAN => Number::Float64(f64::INFINITY)", 0, [2], "decode_agrees"),
    ("as-i64-strict", "src/number.rs", "*v <= i64::MAX.try_into().unwrap()", "*v < i64::MAX.try_into().unwrap()", 0, [2], "as_i64_agrees"),
    ("as-u64-strict", "src/number.rs", "if *v >= 0 {", "if *v > 0 {", 0, [2], "as_u64_agrees"),
    ("as-f64-via-i64", "src/number.rs", "Number::UInt64(v) => Some(*v as f64)", "Number::UInt64(v) => Some(*v as i64 as f64)", 0, [2, 3], "as_f64_agrees"),
    ("cif-exp-threshold", "src/number.rs", "exp2 >= 12", "exp2 >= 11", 0, [2, 3], "cmp_int_float_agrees"),
    ("cif-exp-bias", "src/number.rs", "exponent - 1075", "exponent - 1074", 0, [2, 3], "cmp_int_float_agrees"),
    ("cif-fraction-sign", "src/number.rs", "if negative {\n                Ordering::Greater", "if !negative {\n                Ordering::Greater", 0, [2, 3], "cmp_int_float_agrees"),
    ("cmp-int-uint-less", "src/number.rs", "if *l < 0 {\n                    Ordering::Less", "if *l < 0 {\n                    Ordering::Greater", 0, [2, 3], "cmp_agrees"),
    ("cmp-drop-reverse", "src/number.rs", "cmp_int_float(*r as i128, *l).reverse()", "cmp_int_float(*r as i128, *l)", 0, [2, 3], "cmp_agrees"),
    ("idx-upper-inclusive", "src/jsonpath/selector.rs", "idx >= 0 && idx < length", "idx >= 0 && idx <= length", 0, [1], "convert_index_agrees"),
    ("idx-last-off-by-one", "src/jsonpath/selector.rs", "Index::LastIndex(idx) => length + *idx as i64 - 1,", "Index::LastIndex(idx) => length + *idx as i64,", 0, [1], "convert_index_agrees"),
    ("slice-empty-test", "src/jsonpath/selector.rs", "start > end || start >= length", "start >= end || start >= length", 0, [1], "convert_slice_agrees"),
    ("slice-clamp-end", "src/jsonpath/selector.rs", "(length - 1) as usize", "length as usize", 0, [1], "convert_slice_agrees"),
    ("slice-clamp-start", "src/jsonpath/selector.rs", "if start < 0 { 0 }", "if start < 0 { 1 }", 0, [1], "convert_slice_agrees"),
    ("slice-end-last", "src/jsonpath/selector.rs", "Index::LastIndex(idx) => length + *idx as i64 - 1,", "Index::LastIndex(idx) => length - *idx as i64 - 1,", 2, [1], "convert_slice_agrees"),
    ("level-true-false", "src/functions.rs", "TRUE_TAG => TRUE_LEVEL", "TRUE_TAG => FALSE_LEVEL", 0, [1], "jentry_compare_level_agrees"),
    ("level-container", "src/functions.rs", "CONTAINER_TAG => OBJECT_LEVEL", "CONTAINER_TAG => ARRAY_LEVEL", 0, [1], "jentry_compare_level_agrees"),
    ("level-arm-order", "src/functions.rs", "        NULL_TAG => NULL_LEVEL,\n        CONTAINER_TAG => OBJECT_LEVEL,", "        _ if jentry.length == 0 => NULL_LEVEL,\n        CONTAINER_TAG => OBJECT_LEVEL,", 0, [1], "jentry_compare_level_agrees"),
    ("isjsonb-drop-scalar", "src/functions.rs", "ARRAY_PREFIX | OBJECT_PREFIX | SCALAR_PREFIX", "ARRAY_PREFIX | OBJECT_PREFIX", 0, [1], "is_jsonb_agrees"),
    ("readu32-3-bytes", "src/functions.rs", ".get(idx..idx + 4)", ".get(idx..idx + 3)", 0, [1], "read_u32_agrees"),
    ("iter-readu32-offset", "src/iterator.rs", ".get(idx..idx + 4)", ".get(idx + 1..idx + 4)", 0, [1], "iterator_read_u32_agrees"),
    ("hex-sentinel", "src/util.rs", "if n == 255 {", "if n == 254 {", 0, [1], "decode_hex_val_agrees"),
    ("indent-step", "src/functions.rs", "indent: self.indent + 2,", "indent: self.indent + 4,", 0, [1], "pretty_opts_inc_indent_agrees"),
]

# harmless re-spellings: different generated text, same logic -> the proofs must still go through
RESPELLINGS = [
    ("swap-and-operands", "src/number.rs", "*v >= i8::MIN.into() && *v <= i8::MAX.into()", "*v <= i8::MAX.into() && *v >= i8::MIN.into()", 0, [2]),
    ("or-commuted", "src/jentry.rs", "self.type_code | self.length", "self.length | self.type_code", 0, [1]),
    ("index-test-commuted", "src/jsonpath/selector.rs", "idx >= 0 && idx < length", "idx < length && idx >= 0", 0, [1]),
    ("flip-comparison", "src/number.rs", "if *v >= 0 {", "if 0 <= *v {", 0, [2]),
    ("literal-instead-of-max", "src/number.rs", "*v <= u8::MAX.into()", "*v <= 255", 0, [2]),
    ("explicit-return", "src/jentry.rs", "        self.type_code | self.length\n", "        return self.type_code | self.length;\n", 0, [1]),
    ("let-binding", "src/jsonpath/selector.rs", "        if idx >= 0 && idx < length {\n            Some(idx as usize)", "        let in_range = idx >= 0 && idx < length;\n        if in_range {\n            Some(idx as usize)", 0, [1]),
]


# changes that leave the subset / remove a target: the tool must say so and keep the committed block
RETENTION = [
    ("out-of-subset-method", "src/functions.rs", "Ok(u32::from_be_bytes(bytes))", "Ok(u32::from_le_bytes(bytes))", 0,
     "src/functions.rs::read_u32", "unsupported"),
    ("out-of-subset-loop", "src/functions.rs", "    if let Some(v) = value.first() {", "    for _ in 0..1 {}\n    if let Some(v) = value.first() {", 0,
     "src/functions.rs::is_jsonb", "unsupported"),
    ("renamed-away", "src/jentry.rs", "fn encoded(&self)", "fn encoded_word(&self)", 0,
     "src/jentry.rs::JEntry::encoded", "missing"),
]


def run_tool(src_root, out_path):
    """-> (generated text, status dict)"""
    env = dict(os.environ, VERIF_REPO=src_root, RS2LEAN_OUT=out_path,
               RS2LEAN_PREV=os.path.join(LEAN, "JsonbModel", "Generated", "Translated.lean"))
    if os.path.exists(out_path):
        os.remove(out_path)
    r = subprocess.run([sys.executable, TOOL], env=env, capture_output=True, text=True)
    if r.returncode != 0:
        raise RuntimeError("rs2lean.py crashed: " + r.stderr[-2000:])
    status = json.loads(r.stdout.strip().splitlines()[-1])
    r2 = subprocess.run([sys.executable, TOOL, "--stdout"], env=env, capture_output=True, text=True)
    if r2.returncode != 0:
        raise RuntimeError("rs2lean.py --stdout crashed: " + r2.stderr[-2000:])
    text = open(out_path, encoding="utf-8").read()
    if text != r2.stdout:
        raise RuntimeError("--stdout and the written file differ")
    return text, status


def scratch_lean(generated, parts, name):
    """one self-contained Lean file: generated definitions + the agreement parts"""
    imports, bodies = [], []
    texts = [generated] + [open(os.path.join(LEAN, "JsonbModel", "Proofs", PARTS[p]), encoding="utf-8").read() for p in parts]
    for t in texts:
        body = []
        for line in t.splitlines():
            m = re.match(r"import\s+(\S+)", line)
            if m:
                mod = m.group(1)
                if mod == "JsonbModel.Generated.Translated" or mod.startswith("JsonbModel.Proofs.TranslatedAgree"):
                    continue
                if mod not in imports:
                    imports.append(mod)
            else:
                body.append(line)
        bodies.append("\n".join(body))
    # the module doc comments of the parts must come after the imports
    path = os.path.join(SCRATCH, name + ".lean")
    with open(path, "w", encoding="utf-8") as f:
        f.write("\n".join("import " + m for m in imports) + "\n\n" + "\n\n".join(bodies) + "\n")
    return path


def lean_check(path):
    """-> (ok, first failing theorem or None, seconds)"""
    t0 = time.time()
    r = subprocess.run(["lake", "env", "lean", path], cwd=LEAN, capture_output=True, text=True)
    out = r.stdout + r.stderr
    dt = time.time() - t0
    errs = [int(m.group(1)) for m in re.finditer(r"^[^\n:]+:(\d+):\d+: error", out, re.M)]
    if r.returncode == 0 and not errs:
        return True, None, dt
    first = None
    if errs:
        lines = open(path, encoding="utf-8").read().splitlines()
        for ln in range(min(errs) - 1, -1, -1):
            m = re.match(r"\s*(?:theorem|def|instance)\s+(\S+)", lines[ln] if ln < len(lines) else "")
            if m:
                first = m.group(1)
                break
    return False, first or "(lean failed: %s)" % out.strip().splitlines()[-1][:80], dt


def reformat_variants(src):
    """semantics-preserving re-formattings of one Rust file"""
    toks = [t for t in rs2lean.tokenize(src) if t.k != "eof"]
    texts = [src[t.pos:t.end] for t in toks]
    one_per_line = "\n// selftest: one token per line\n".join(texts) + "\n"
    chunks, line = [], []
    for i, tx in enumerate(texts):
        line.append(tx)
        if i % 7 == 6:
            line.append("/* selftest /* nested */ comment */")
        if i % 40 == 39:
            chunks.append(" ".join(line)); line = []
    chunks.append(" ".join(line))
    few_lines = "\r\n".join(chunks) + "\r\n"
    attrs = re.sub(r"(?m)^([ \t]*)((?:pub(?:\([a-z]+\))? )?fn )", r"\1#[inline]\n\1#[allow(dead_code)]\n\1// selftest\n\1\2", src)
    attrs = attrs.replace("\n", "\n\n").replace("    ", "\t")
    return [("one-token-per-line", one_per_line), ("few-lines-crlf-block-comments", few_lines), ("attributes-tabs-blank-lines", attrs)]


def mutate(root, file, old, new, occ):
    p = os.path.join(root, file)
    s = open(p, encoding="utf-8").read()
    idxs = [m.start() for m in re.finditer(re.escape(old), s)]
    if len(idxs) <= occ:
        raise RuntimeError("mutation site not found in %s: %r (occurrence %d)" % (file, old, occ))
    i = idxs[occ]
    open(p, "w", encoding="utf-8").write(s[:i] + new + s[i + len(old):])
    return s


def main():
    t_start = time.time()
    tmp = tempfile.mkdtemp(prefix="rs2lean_selftest_", dir="/tmp")
    shutil.rmtree(SCRATCH, ignore_errors=True)
    os.makedirs(SCRATCH, exist_ok=True)
    failures = []
    rows = []
    try:
        shutil.copytree(os.path.join(REPO, "src"), os.path.join(tmp, "src"))
        out = os.path.join(SCRATCH, "Translated.out.lean")
        base, status = run_tool(tmp, out)
        bad = {k: v for k, v in status["functions"].items() if v != "translated"}
        if bad:
            failures.append("baseline: not everything translated: %s" % bad)
        committed = open(os.path.join(LEAN, "JsonbModel", "Generated", "Translated.lean"), encoding="utf-8").read()
        rows.append(("baseline", "generated == committed Translated.lean", "yes" if committed == base else "NO", ""))
        if committed != base:
            failures.append("baseline: generated text differs from the committed Generated/Translated.lean")

        # (a) formatting robustness
        files = sorted(set(f for f, _, _, _ in rs2lean.FUNCS) | set(f for f, _, _ in rs2lean.TYPES) | {"src/constants.rs"})
        originals = {f: open(os.path.join(tmp, f), encoding="utf-8").read() for f in files}
        for vi in range(3):
            name = None
            for f in files:
                name, text = reformat_variants(originals[f])[vi]
                open(os.path.join(tmp, f), "w", encoding="utf-8", newline="").write(text)
            text, st = run_tool(tmp, out)
            same = text == base
            rows.append(("format", name, "identical" if same else "DIFFERENT", ""))
            if not same:
                failures.append("format variant %s changed the output" % name)
            for f in files:
                open(os.path.join(tmp, f), "w", encoding="utf-8").write(originals[f])

        # (a') retention of committed blocks
        for mid, file, old, new, occ, key, want in RETENTION:
            saved = mutate(tmp, file, old, new, occ)
            try:
                text, st = run_tool(tmp, out)
            finally:
                open(os.path.join(tmp, file), "w", encoding="utf-8").write(saved)
            got = st["functions"].get(key, "?")
            good = got.startswith(want) and text == base and st["ok"] is False
            rows.append(("retention", mid, ("%s, committed block kept" % want) if good else "WRONG: %s" % got[:60], ""))
            if not good:
                failures.append("retention %s: status %r, text identical: %s" % (mid, got, text == base))

        # jobs for Lean
        jobs = []     # (kind, id, path, expected_ok, expected_theorem)
        jobs.append(("baseline", "unmutated", scratch_lean(base, [1, 2, 3], "base"), True, None))
        for kind, table in (("mutation", MUTATIONS), ("respelling", RESPELLINGS)):
            for row in table:
                mid, file, old, new, occ, parts = row[:6]
                expect = row[6] if kind == "mutation" else None
                saved = mutate(tmp, file, old, new, occ)
                try:
                    text, st = run_tool(tmp, out)
                finally:
                    open(os.path.join(tmp, file), "w", encoding="utf-8").write(saved)
                nb = {k: v for k, v in st["functions"].items() if v != "translated"}
                if nb:
                    rows.append((kind, mid, "UNSUPPORTED", str(nb)[:100]))
                    failures.append("%s %s left the subset: %s" % (kind, mid, nb))
                    continue
                if text == base:
                    if kind == "respelling":
                        rows.append((kind, mid, "generated text identical (nothing to re-prove)", ""))
                        continue
                    rows.append((kind, mid, "NO CHANGE in generated text", ""))
                    failures.append("%s %s did not change the generated text" % (kind, mid))
                    continue
                jobs.append((kind, mid, scratch_lean(text, parts, mid), kind == "respelling", expect))

        with concurrent.futures.ThreadPoolExecutor(max_workers=JOBS) as ex:
            results = list(ex.map(lambda j: lean_check(j[2]), jobs))
        for (kind, mid, path, exp_ok, exp_thm), (ok, thm, dt) in zip(jobs, results):
            if exp_ok:
                verdict = "proofs PASS" if ok else "proofs FAIL at %s" % thm
                if not ok:
                    failures.append("%s %s: expected the agreement proofs to pass, failed at %s" % (kind, mid, thm))
            else:
                verdict = ("proof FAILS at %s" % thm) if not ok else "NOT DETECTED (proofs pass)"
                if ok:
                    failures.append("mutation %s was not detected" % mid)
                elif exp_thm and thm != exp_thm:
                    verdict += " (expected %s)" % exp_thm
            rows.append((kind, mid, verdict, "%.1fs" % dt))
    finally:
        shutil.rmtree(tmp, ignore_errors=True)
        shutil.rmtree(SCRATCH, ignore_errors=True)

    w1 = max(len(r[0]) for r in rows)
    w2 = max(len(r[1]) for r in rows)
    w3 = max(len(r[2]) for r in rows)
    print("%-*s  %-*s  %-*s  %s" % (w1, "kind", w2, "case", w3, "result", "time"))
    for r in rows:
        print("%-*s  %-*s  %-*s  %s" % (w1, r[0], w2, r[1], w3, r[2], r[3]))
    n_mut = sum(1 for r in rows if r[0] == "mutation")
    n_det = sum(1 for r in rows if r[0] == "mutation" and r[2].startswith("proof FAILS"))
    print("mutations detected: %d / %d; wall %.0fs" % (n_det, n_mut, time.time() - t_start))
    if failures:
        print("SELFTEST FAILED:")
        for f in failures:
            print("  - " + f)
        return 1
    print("SELFTEST OK")
    return 0


if __name__ == "__main__":
    sys.exit(main())
