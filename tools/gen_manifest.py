#!/usr/bin/env python3
"""Writes MANIFEST.json from tools/manifest_data.py (kept as code so texts stay in one place)."""
import json, os, sys
sys.path.insert(0, os.path.dirname(os.path.abspath(__file__)))
import manifest_data as M
ROOT = os.path.join(os.path.dirname(os.path.abspath(__file__)), "..")
props = [json.loads(l)["id"] for l in open(os.path.join(ROOT, "properties.jsonl"))]
checks = []
for pid in props:
    if pid not in M.CLAIMED:
        continue
    c = M.CLAIMED[pid]
    checks.append({
        "property_id": pid,
        "quick_cmd": "./check %s quick" % pid,
        "thorough_cmd": "./check %s thorough" % pid,
        "evidence_file": "evidence/%s.json" % pid,
        "replay_cmd_template": "./check %s --replay {path}" % pid,
        "engine": "lean4-model+correspondence",
        "level_claimed": {"category": "proof", "text": c["text"], "design_ref": c.get("design_ref", "DESIGN.md section 6 (%s)" % pid)},
        "level_note": c["note"],
        "technique": c.get("technique", "Lean 4 theorems about a hand-written model of the code, tied to /repo on every run by (1) a source translator (constants and 26 leaf functions regenerated from the Rust source, agreement theorems re-checked) and (2) a differential correspondence check (Rust harness vs compiled Lean driver)"),
    })
man = {
    "version": 1,
    "setup_cmd": "./setup.sh",
    "hooks": {
        "guard": "jsonb_verif",
        "enable": "the harness is built with RUSTFLAGS=--cfg jsonb_verif (harness/.cargo/config.toml); no source hooks were needed: every observation point is public API, so source_commits is empty",
        "baseline_off_cmd": "cd /repo && cargo test --workspace --no-fail-fast --offline",
        "source_commits": [],
        "add_only": True,
    },
    "engines": [{
        "name": "lean4-model+correspondence", "path": "lean/ (Lake project JsonbModel: model, spec, proofs, driver jvmodel), tools/rs2lean.py + tools/gen_constants.py (source translators), harness/ (Rust differential harness jvh), check (driver)",
        "serves_properties": [c["property_id"] for c in checks],
        "kind_free_text": "machine-checked proof in Lean 4 about a hand-written executable model; model tied to the source by a Rust-to-Lean translator for constants and leaf functions (agreement theorems re-checked every run) and by a line-protocol differential check",
    }],
    "checks": checks,
    "not_applicable": [{"property_id": p, "reason": M.NOT_YET.get(p, "not claimed yet: model and theorems for this property are still being built (see DESIGN.md section 9 build order); nothing about the technique prevents it")} for p in props if p not in M.CLAIMED],
    "notes": M.NOTES,
}
json.dump(man, open(os.path.join(ROOT, "MANIFEST.json"), "w"), indent=1)
print("claimed:", [c["property_id"] for c in checks])
